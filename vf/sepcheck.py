"""Shared by C01/C02/C07: model checking of SepScan and validation of recorded executions against SepScanTrace."""

from __future__ import annotations

import os
import random
import tempfile
from collections.abc import Iterable, Sequence
from typing import Any

from . import sepharness, tlc, traces
from .common import Check

INVARIANTS = ["SafeAgree", "SafeComplete", "NoLimitOnSafe", "Bound", "StaleFree", "Aligned", "Resync"]

TRACE_CFG = (
    "INIT TInit\nNEXT TNext\nCONSTANTS\n  Params = {}\n  MaxStream = 0\n  Alphabet = {0, 8}\n"
    "CONSTRAINT Constr\nPOSTCONDITION Post\nCHECK_DEADLOCK FALSE\n"
)
DIAG_CFG = (
    "INIT TInit\nNEXT TNext\nCONSTANTS\n  Params = {}\n  MaxStream = 0\n  Alphabet = {0, 8}\n"
    "CONSTRAINT Constr\nCHECK_DEADLOCK FALSE\n" + "".join(f"INVARIANT {i}\n" for i in INVARIANTS)
)


def model_check(chk: Check, name: str, seplens: Sequence[int], limits: Sequence[int], maxstream: int, alphabet: Sequence[int], *,
                maxread: int = 3, paths: Sequence[str] = ("copy", "buf"), emptyerr: Sequence[bool] = (False,), timeout: float = 1500) -> bool:
    with tempfile.TemporaryDirectory(prefix="vf_sep_") as d:
        params = (
            "{[seplen |-> s, limit |-> l, maxread |-> %d, path |-> p, faithful |-> FALSE, emptyerr |-> e] : s \\in {%s}, l \\in {%s}, p \\in {%s}, e \\in {%s}}"
            % (
                maxread,
                ", ".join(map(str, seplens)),
                ", ".join(map(str, limits)),
                ", ".join(f'"{p}"' for p in paths),
                ", ".join("TRUE" if e else "FALSE" for e in emptyerr),
            )
        )
        mod = tlc.write_mc_module(d, "MC_SepScan", "SepScan", {"MCParams": params, "MCAlphabet": "{" + ", ".join(map(str, alphabet)) + "}"})
        cfg = os.path.join(d, "mc.cfg")
        tlc.write_cfg(
            cfg,
            constants={"Params": "<- MCParams", "Alphabet": "<- MCAlphabet", "MaxStream": str(maxstream)},
            invariants=INVARIANTS,
            properties=["Progress"],
            check_deadlock=False,
        )
        res = tlc.run_tlc(mod, cfg, timeout=timeout, heap="16g")
    consts = {"seplen": list(seplens), "limit": list(limits), "maxstream": maxstream, "maxread": maxread, "alphabet": list(alphabet), "paths": list(paths)}
    chk.add_model(f"SepScan[{name}]", res, consts, "all byte strings x all chunkings x both receive paths; invariants " + ", ".join(INVARIANTS) + ", Progress")
    if not res.ok:
        chk.model_violation("SepScan", res, consts)
        return False
    return True


def validate(chk: Check, recorded: list[dict[str, Any]], label: str, *, parallel: int = 12, chunk: int = 1500) -> int:
    """Validate recorded traces; every rejected one becomes a violation. Returns the number of rejected traces."""
    if not recorded:
        return 0
    slim = [{"par": t["par"], "sent": t["sent"], "events": t["events"]} for t in recorded]
    res = traces.validate("SepScanTrace", slim, cfg_text=TRACE_CFG, parallel=parallel, chunk=chunk)
    chk.traces += len(recorded)
    chk.states += res.tlc.distinct
    chk.transitions += res.tlc.generated
    chk.extra.setdefault("trace_batches", []).append(
        {"label": label, "traces": len(recorded), "events": res.nevents, "rejected": len(res.rejected), "tlc_states": res.tlc.distinct}
    )
    for idx, pos in sorted(res.rejected.items())[:200]:
        t = recorded[idx]
        evs = t["events"]
        failing = evs[pos - 1] if 0 < pos <= len(evs) else None
        clause = diagnose(slim[idx]) if len(res.rejected) <= 40 or idx == min(res.rejected) else "?"
        sig = {
            "kind": "trace",
            "spec": "SepScan",
            "serializer_family": t["meta"].split("(")[0],
            "path": t["par"]["path"],
            "clause": clause,
        }
        chk.violation(
            sig,
            f"{label}: execution is not a behaviour of SepScan (first unmatched event #{pos}: {failing}; {clause}) -- {t['meta']}",
            {"kind": "sepscan_trace", "trace": slim[idx], "meta": t["meta"], "rejected_at": pos},
        )
    return len(res.rejected)


def diagnose(trace: dict[str, Any]) -> str:
    """Re-run one rejected trace with the invariants as INVARIANT lines to name the failing clause."""
    try:
        res = traces.validate("SepScanTrace", [trace], cfg_text=DIAG_CFG)
    except tlc.TLCError as exc:
        return f"diagnosis failed: {str(exc)[:80]}"
    v = res.tlc.violation or ""
    if "Invariant" in v:
        return "invariant " + v.split("Invariant")[1].split()[0]
    return "no matching action (outcome / held bytes differ from the model)"


def record_many(cfgs: Iterable[sepharness.SepConfig], limit: int, streams: Iterable[Sequence[int]], maxread: int, rng: random.Random, *,
                paths: Sequence[str] = ("copy", "buf"), exhaustive_upto: int = 8, nrandom: int = 4, per_stream_cap: int | None = None) -> list[dict[str, Any]]:
    out: list[dict[str, Any]] = []
    streams = list(streams)
    for cfg in cfgs:
        for syms in streams:
            if any(s > len(cfg.sep) and s != sepharness.BAD for s in syms):
                continue
            cks = sepharness.chunkings(len(syms), maxread, rng, exhaustive_upto=exhaustive_upto, nrandom=nrandom)
            if per_stream_cap is not None and len(cks) > per_stream_cap:
                cks = rng.sample(cks, per_stream_cap)
            for path in paths:
                if path == "buf" and not cfg.buffered:
                    continue
                for ck in cks:
                    out.append(sepharness.record(cfg, limit, path, syms, ck, maxread))
    return out
