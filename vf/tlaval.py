"""Parser for the value syntax TLC prints (states, PrintT output, dump labels).

Sequences/tuples -> tuple, sets -> frozenset, records and functions -> HDict (hashable dict),
strings -> str, model values -> ModelValue(str), booleans -> bool, integers -> int.
"""

from __future__ import annotations

from typing import Any


class HDict(dict):
    def __hash__(self) -> int:  # type: ignore[override]
        return hash(frozenset(self.items()))


class ModelValue(str):
    def __repr__(self) -> str:
        return f"MV({str.__repr__(self)})"


class _P:
    def __init__(self, s: str) -> None:
        self.s = s
        self.i = 0
        self.n = len(s)

    def ws(self) -> None:
        s, n = self.s, self.n
        while self.i < n and s[self.i] in " \t\r\n":
            self.i += 1

    def peek(self, k: int = 1) -> str:
        return self.s[self.i : self.i + k]

    def expect(self, tok: str) -> None:
        self.ws()
        if not self.s.startswith(tok, self.i):
            raise ValueError(f"expected {tok!r} at {self.i}: {self.s[self.i:self.i+40]!r}")
        self.i += len(tok)

    def value(self) -> Any:
        self.ws()
        s = self.s
        c = self.peek()
        if s.startswith("<<", self.i):
            self.i += 2
            items = self.items(">>")
            return tuple(items)
        if c == "{":
            self.i += 1
            items = self.items("}")
            return frozenset(items)
        if c == "[":
            self.i += 1
            return self.record()
        if c == "(":
            self.i += 1
            return self.function()
        if c == '"':
            return self.string()
        if c == "-" or c.isdigit():
            j = self.i + 1
            while j < self.n and s[j].isdigit():
                j += 1
            v = int(s[self.i : j])
            self.i = j
            # interval a..b
            if s.startswith("..", self.i):
                self.i += 2
                hi = self.value()
                return frozenset(range(v, hi + 1))
            return v
        # identifier
        j = self.i
        while j < self.n and (s[j].isalnum() or s[j] in "_!"):
            j += 1
        if j == self.i:
            raise ValueError(f"unexpected {s[self.i:self.i+40]!r} at {self.i}")
        ident = s[self.i : j]
        self.i = j
        if ident == "TRUE":
            return True
        if ident == "FALSE":
            return False
        return ModelValue(ident)

    def items(self, close: str) -> list[Any]:
        out: list[Any] = []
        self.ws()
        if self.s.startswith(close, self.i):
            self.i += len(close)
            return out
        while True:
            out.append(self.value())
            self.ws()
            if self.s.startswith(close, self.i):
                self.i += len(close)
                return out
            self.expect(",")

    def string(self) -> str:
        assert self.s[self.i] == '"'
        j = self.i + 1
        buf = []
        s = self.s
        while s[j] != '"':
            if s[j] == "\\":
                j += 1
                buf.append({"n": "\n", "t": "\t", '"': '"', "\\": "\\"}.get(s[j], s[j]))
            else:
                buf.append(s[j])
            j += 1
        self.i = j + 1
        return "".join(buf)

    def record(self) -> HDict:
        out = HDict()
        self.ws()
        if self.peek() == "]":
            self.i += 1
            return out
        while True:
            self.ws()
            j = self.i
            while self.s[j].isalnum() or self.s[j] == "_":
                j += 1
            key = self.s[self.i : j]
            self.i = j
            self.expect("|->")
            out[key] = self.value()
            self.ws()
            if self.peek() == "]":
                self.i += 1
                return out
            self.expect(",")

    def function(self) -> HDict:
        out = HDict()
        while True:
            k = self.value()
            self.expect(":>")
            out[k] = self.value()
            self.ws()
            if self.peek() == ")":
                self.i += 1
                return out
            self.expect("@@")


def parse_value(text: str) -> Any:
    p = _P(text)
    v = p.value()
    p.ws()
    if p.i != p.n:
        raise ValueError(f"trailing text: {text[p.i:p.i+40]!r}")
    return v


def parse_state(text: str) -> dict[str, Any]:
    """Parse `/\\ a = v\\n/\\ b = w` (or a single `a = v`)."""
    p = _P(text)
    out: dict[str, Any] = {}
    while True:
        p.ws()
        if p.i >= p.n:
            return out
        if p.s.startswith("/\\", p.i):
            p.i += 2
            p.ws()
        j = p.i
        while p.s[j].isalnum() or p.s[j] == "_":
            j += 1
        name = p.s[p.i : j]
        p.i = j
        p.expect("=")
        out[name] = p.value()


def to_tla(v: Any) -> str:
    """Render a Python value as a TLA+ expression (used to generate constants / cfg modules)."""
    if isinstance(v, bool):
        return "TRUE" if v else "FALSE"
    if isinstance(v, ModelValue):
        return str(v)
    if isinstance(v, int):
        return str(v)
    if isinstance(v, str):
        return '"' + v.replace("\\", "\\\\").replace('"', '\\"') + '"'
    if isinstance(v, (tuple, list)):
        return "<<" + ", ".join(to_tla(x) for x in v) + ">>"
    if isinstance(v, (set, frozenset)):
        return "{" + ", ".join(sorted(to_tla(x) for x in v)) + "}"
    if isinstance(v, dict):
        if all(isinstance(k, str) and not isinstance(k, ModelValue) and k.isidentifier() for k in v) and v:
            return "[" + ", ".join(f"{k} |-> {to_tla(x)}" for k, x in v.items()) + "]"
        if not v:
            return "<<>>"
        return "(" + " @@ ".join(f"{to_tla(k)} :> {to_tla(x)}" for k, x in v.items()) + ")"
    raise TypeError(type(v))
