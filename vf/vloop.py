"""Virtual-time, gate-controlled asyncio event loop.

All of asyncio's machinery is real (ready queue, timer heap, selector transports, Task); only the clock
and the blocking behaviour of the selector are replaced:

* time() is a virtual clock that advances only when the loop would otherwise sleep;
* select(timeout) polls the real selector with timeout 0, hides events of gated file descriptors, and if
  nothing is ready advances the clock by `timeout` instead of sleeping;
* if nothing is ready, there is no timer and nothing else can happen -> VirtualDeadlock (the hang oracle);
* the cancel-scope implementation busy-retries with call_soon while a cancelled scope is shielded, so
  select() may be called with timeout 0 for ever; after SPIN_LIMIT consecutive empty zero-timeout polls the
  clock jumps to the next timer (real time would creep forward there as well).
"""

from __future__ import annotations

import asyncio
import selectors
import time as _time
from collections.abc import Callable, Coroutine
from typing import Any

SPIN_LIMIT = 200


class VirtualDeadlock(BaseException):  # (not an Exception: no "except Exception" of a harness or of the code under test may swallow it)
    pass


class GatedSelector(selectors.BaseSelector):
    def __init__(self, clock: "VClock") -> None:
        self._real = selectors.DefaultSelector()
        self._clock = clock
        self.closed_gates: set[int] = set()  # fds whose readiness is hidden
        self.gate_until: dict[int, float] = {}  # fd -> virtual time before which its readiness is hidden
        self.on_idle: Callable[[], bool] | None = None  # harness hook: called when nothing is ready; True if it made progress
        self._spin = 0
        self._barren = 0
        self.spin_limit = SPIN_LIMIT  # drivers whose tasks legitimately yield thousands of times in a row raise it
        self.real_wait: Callable[[], bool] | None = None  # returns True if real time waiting may produce events (in-flight bytes)

    # -- registration: delegate
    def register(self, fileobj, events, data=None):  # type: ignore[no-untyped-def]
        return self._real.register(fileobj, events, data)

    def unregister(self, fileobj):  # type: ignore[no-untyped-def]
        return self._real.unregister(fileobj)

    def modify(self, fileobj, events, data=None):  # type: ignore[no-untyped-def]
        return self._real.modify(fileobj, events, data)

    def get_key(self, fileobj):  # type: ignore[no-untyped-def]
        return self._real.get_key(fileobj)

    def get_map(self):  # type: ignore[no-untyped-def]
        return self._real.get_map()

    def close(self) -> None:
        self._real.close()

    def _poll(self, real_timeout: float = 0) -> list[tuple[selectors.SelectorKey, int]]:
        evs = self._real.select(real_timeout)
        if self.closed_gates:
            evs = [(k, m) for (k, m) in evs if k.fd not in self.closed_gates]
        if self.gate_until:
            now = self._clock.now
            evs = [(k, m) for (k, m) in evs if self.gate_until.get(k.fd, 0.0) <= now + 1e-9]
        return evs

    def select(self, timeout=None):  # type: ignore[no-untyped-def]
        evs = self._poll(0)
        if evs:
            self._spin = 0
            return evs
        if timeout is not None and timeout <= 0:
            self._spin += 1
            if self._spin > self.spin_limit:
                self._spin = 0
                nxt = self._clock.next_timer()
                if nxt is not None and nxt > self._clock.now:
                    self._clock.now = nxt
                    self._barren = 0
                else:
                    # tasks keep yielding to each other, no timer will ever interrupt them, no I/O arrives: a busy loop in the code
                    # under test must become a verdict, not a check that never ends
                    self._barren += 1
                    if self._barren > 300:
                        self._barren = 0
                        raise VirtualDeadlock("the event loop spins: tasks keep yielding, no timer pending, no I/O ready")
            return evs
        self._spin = 0
        # the loop would sleep
        if self.on_idle is not None and self.on_idle():
            return self._poll(0)
        if self.real_wait is not None and self.real_wait():
            # bytes are in flight in the kernel: give it (bounded) real time before touching the virtual clock
            deadline = _time.monotonic() + 2.0
            while _time.monotonic() < deadline:
                evs = self._poll(0.005)
                if evs:
                    return evs
                if not self.real_wait():
                    break
        if timeout is None:
            raise VirtualDeadlock("event loop would block forever: nothing ready, no timer pending")
        self._clock.now += timeout
        # a gate may open exactly now (data "arrives" while the loop sleeps, at the instant a timer is due)
        return self._poll(0) if self.gate_until else []


class VClock:
    def __init__(self) -> None:
        self.now = 1000.0
        self.loop: VLoop | None = None

    def next_timer(self) -> float | None:
        loop = self.loop
        if loop is None:
            return None
        sched = [h for h in loop._scheduled if not h._cancelled]  # type: ignore[attr-defined]
        if not sched:
            return None
        return min(h._when for h in sched)  # type: ignore[attr-defined]


class VLoop(asyncio.SelectorEventLoop):
    def __init__(self) -> None:
        self.vclock = VClock()
        self.vselector = GatedSelector(self.vclock)
        super().__init__(self.vselector)
        self.vclock.loop = self
        # asyncio rounds timers with the clock resolution; keep it tiny and exact
        self._clock_resolution = 1e-9

    def time(self) -> float:
        return self.vclock.now

    # gates
    def close_gate(self, fd: int) -> None:
        self.vselector.closed_gates.add(fd)

    def open_gate(self, fd: int) -> None:
        self.vselector.closed_gates.discard(fd)

    def hide_until(self, fd: int, when: float) -> None:
        """Readiness of fd is invisible to the loop before virtual time `when`."""
        self.vselector.gate_until[fd] = when


WALL_LIMIT = 90.0  # seconds of real time one scenario may take


def _wall_alarm(signum: int, frame: Any) -> None:
    raise VirtualDeadlock("wall-clock limit reached: a task step of the code under test does not return (busy loop without a suspension point?)")


def run(coro_fn: Callable[[], Coroutine[Any, Any, Any]], *, debug: bool = False, spin_limit: int = SPIN_LIMIT, wall_limit: float = WALL_LIMIT) -> Any:
    """Run `coro_fn()` to completion on a fresh virtual loop. VirtualDeadlock propagates.  A scenario that takes more than `wall_limit`
    seconds of real time is interrupted (SIGALRM, main thread only): virtual time protects against waits, not against a step that spins."""
    import signal
    import threading

    loop = VLoop()
    loop.vselector.spin_limit = spin_limit
    armed = False
    old_handler: Any = None
    if wall_limit and threading.current_thread() is threading.main_thread() and signal.getitimer(signal.ITIMER_REAL)[0] == 0:
        old_handler = signal.signal(signal.SIGALRM, _wall_alarm)
        signal.setitimer(signal.ITIMER_REAL, wall_limit)
        armed = True
    try:
        asyncio.set_event_loop(loop)
        loop.set_debug(debug)
        return loop.run_until_complete(coro_fn())
    finally:
        if armed:
            signal.setitimer(signal.ITIMER_REAL, 0)
            signal.signal(signal.SIGALRM, old_handler)
        try:
            _cancel_all(loop)
            loop.run_until_complete(loop.shutdown_asyncgens())
        except BaseException:  # noqa: BLE001
            pass
        asyncio.set_event_loop(None)
        loop.close()


def _cancel_all(loop: asyncio.AbstractEventLoop) -> None:
    tasks = [t for t in asyncio.all_tasks(loop) if not t.done()]
    if not tasks:
        return
    for t in tasks:
        t.cancel()
    try:
        loop.run_until_complete(asyncio.gather(*tasks, return_exceptions=True))
    except VirtualDeadlock:
        pass


def vtime() -> float:
    return asyncio.get_running_loop().time()
