"""Bursts that pile up in the asyncio stream transport while nobody receives.

The asyncio backend's stream protocol keeps reading into its own buffer when no receive call is pending; a later recv / recv_into takes
the backlog out of it through a window that may be smaller than the backlog (the window is max_recv_size, or what is left of the
serializer's own buffer).  Whatever the ratio backlog / window, the packets come out exactly once, in order, on both receive paths.
Used by C01 (round trip), C02 (no dependence on the chunking) and C03 (every packet once, then end-of-stream).
"""

from __future__ import annotations

import asyncio
import socket
from typing import Any


async def _session(protocol: Any, wire: bytes, npackets: int, window: int, use_client: bool) -> tuple[list[Any], str]:
    from easynetwork.lowlevel.api_async.backend._asyncio.backend import AsyncIOBackend
    from easynetwork.lowlevel.api_async.endpoints.stream import AsyncStreamEndpoint

    a, b = socket.socketpair()
    a.setblocking(False)
    b.setblocking(False)
    for s in (a, b):
        s.setsockopt(socket.SOL_SOCKET, socket.SO_SNDBUF, 1 << 20)
        s.setsockopt(socket.SOL_SOCKET, socket.SO_RCVBUF, 1 << 20)
    backend = AsyncIOBackend()
    got: list[Any] = []
    ending = ""
    ep: Any = None
    try:
        if use_client:
            from easynetwork.clients.async_tcp import AsyncTCPNetworkClient

            # (the client wants an INET socket: a loopback TCP pair instead of the AF_UNIX one)
            a.close()
            b.close()
            lst = socket.socket(socket.AF_INET, socket.SOCK_STREAM)
            lst.bind(("127.0.0.1", 0))
            lst.listen(1)
            a = socket.socket(socket.AF_INET, socket.SOCK_STREAM)
            a.connect(lst.getsockname())
            b, _ = lst.accept()
            lst.close()
            a.setblocking(False)
            b.setblocking(False)
            ep = AsyncTCPNetworkClient(a, protocol, backend=backend, max_recv_size=window)
            await ep.wait_connected()
        else:
            tr = await backend.wrap_stream_socket(a)
            ep = AsyncStreamEndpoint(tr, protocol, max_recv_size=window)
        sent = 0
        for _ in range(2000):
            try:
                sent += b.send(wire[sent:])
            except BlockingIOError:
                pass
            await asyncio.sleep(0)
            if sent >= len(wire):
                break
        b.shutdown(socket.SHUT_WR)
        await asyncio.sleep(0.03)  # everything is parked in the transport's own buffer (or in the kernel once reading is paused)
        for _ in range(npackets + 1):
            try:
                got.append(await asyncio.wait_for(ep.recv_packet(), 5))
            except ConnectionAbortedError:
                ending = "eof"
                break
            except asyncio.TimeoutError:
                ending = "timeout (nothing more arrives)"
                break
            except Exception as exc:  # noqa: BLE001
                ending = f"{type(exc).__name__}: {exc}"[:160]
                break
    finally:
        try:
            if ep is not None:
                await asyncio.wait_for(ep.aclose(), 5)
        except BaseException:  # noqa: BLE001
            pass
        for s in (a, b):
            try:
                s.close()
            except OSError:
                pass
    return got, ending


def scenarios() -> list[dict[str, Any]]:
    from easynetwork.protocol import BufferedStreamProtocol, StreamProtocol
    from easynetwork.serializers.json import JSONSerializer
    from easynetwork.serializers.line import StringLineSerializer
    from easynetwork.serializers.struct import StructSerializer

    out: list[dict[str, Any]] = []
    # fixed-size records: the window is max_recv_size
    structs = [(i, i * 7 % 65536) for i in range(100)]
    for window in (32, 100, 399, 400, 500, 799, 1600):
        for use_client in (False, True):
            out.append({"name": f"StructSerializer(>iH) x100 buffered window={window}", "protocol": lambda: BufferedStreamProtocol(StructSerializer(">iH")), "packets": structs, "window": window, "client": use_client})
    # lines: on the buffered path the window is what is left of the serializer's buffer (its limit)
    lines = [f"line number {i:03d}" for i in range(6)]
    for limit in (40, 48, 64, 4096):
        out.append({"name": f"StringLineSerializer(CRLF,limit={limit}) buffered", "protocol": lambda limit=limit: BufferedStreamProtocol(StringLineSerializer("CRLF", limit=limit)), "packets": lines, "window": 1024, "client": False})
    # copying path: the window is max_recv_size
    docs = [{"n": i, "s": "x" * (i % 9)} for i in range(8)]
    for window in (1, 5, 16, 64, 75, 151, 65536):
        for use_client in (False, True):
            out.append({"name": f"JSONSerializer(lines) copying window={window}", "protocol": lambda: StreamProtocol(JSONSerializer()), "packets": docs, "window": window, "client": use_client})
    # a burst beyond the transport's high-water mark: reading is paused and has to be resumed while the backlog is taken out
    many = [f"{i:05d}" for i in range(60000)]
    for buffered in (False, True):
        out.append({"name": f"StringLineSerializer x60000 (~410 KiB) {'buffered' if buffered else 'copying'}", "protocol": (lambda: BufferedStreamProtocol(StringLineSerializer())) if buffered else (lambda: StreamProtocol(StringLineSerializer())), "packets": many, "window": 16384, "client": False})
    return out


def run_all() -> list[dict[str, Any]]:
    """-> one record per scenario: name, ok, detail"""
    results = []
    for sc in scenarios():
        proto = sc["protocol"]()
        wire = b"".join(b"".join(proto.generate_chunks(p)) for p in sc["packets"])
        got, ending = asyncio.run(_session(sc["protocol"](), wire, len(sc["packets"]), sc["window"], sc["client"]))
        want = sc["packets"]
        norm = [tuple(x) if isinstance(x, (tuple, list)) else x for x in got]
        wnorm = [tuple(x) if isinstance(x, (tuple, list)) else x for x in want]
        ok = norm == wnorm and ending == "eof"
        detail = ""
        if not ok:
            k = next((i for i, (x, y) in enumerate(zip(norm, wnorm)) if x != y), min(len(norm), len(wnorm)))
            detail = f"{len(got)} of {len(want)} packets delivered, first difference at #{k}; then: {ending or 'more packets than sent'}"
        results.append({"name": sc["name"] + (" via AsyncTCPNetworkClient" if sc["client"] else " via AsyncStreamEndpoint"), "backlog": len(wire), "ok": ok, "detail": detail})
    return results


def report(chk: Any, prop_words: str) -> None:
    res = run_all()
    chk.traces += len(res)
    for r in res:
        chk.distinct.add(("burst", r["name"]))
        if not r["ok"]:
            chk.violation(
                {"kind": "burst", "what": "backlog_in_transport"},
                f"{prop_words}: a burst of {r['backlog']} bytes that arrived while nobody was receiving (asyncio transport) - {r['name']}: {r['detail']}",
                {"kind": "burst", "scenario": r["name"]},
            )
    chk.extra["bursts_parked_in_the_transport"] = {"scenarios": len(res), "failed": sum(1 for r in res if not r["ok"])}
