"""Recording executions of the real separator-framed serializers as SepScan traces."""

from __future__ import annotations

import dataclasses
import itertools
import random
from collections.abc import Callable, Iterator, Sequence
from typing import Any

BAD = 8


@dataclasses.dataclass
class SepConfig:
    name: str
    sep: bytes
    make: Callable[[int], Any]  # limit -> serializer
    payload_byte: int
    bad_byte: int
    dec: Callable[[Any], bytes]  # packet -> payload bytes as they were on the wire
    emptyerr: bool = False
    buffered: bool = True
    lenient: bool = False  # no byte is undecodable for this configuration: streams with "bad" bytes are not for it

    def syms_of(self, packet: Any) -> list[int]:
        out = []
        for b in self.dec(packet):
            if b == self.payload_byte:
                out.append(0)
            elif b in self.sep:
                out.append(self.sep.index(b) + 1)
            elif b == 0:
                out.append(9)  # a buffer cell never written by the network
            else:
                out.append(7)  # a byte that was never sent
        return out

    def enc(self, syms: Sequence[int]) -> bytes:
        out = bytearray()
        for s in syms:
            if s == 0:
                out.append(self.payload_byte)
            elif s == BAD:
                out.append(self.bad_byte)
            else:
                out.append(self.sep[s - 1])
        return bytes(out)


def configs() -> list[SepConfig]:
    from easynetwork.exceptions import DeserializeError
    from easynetwork.serializers.base_stream import AutoSeparatedPacketSerializer
    from easynetwork.serializers.json import JSONSerializer
    from easynetwork.serializers.line import StringLineSerializer

    class RawSep(AutoSeparatedPacketSerializer[bytes, bytes]):
        def __init__(self, sep: bytes, limit: int) -> None:
            super().__init__(sep, limit=limit, incremental_serialize_check_separator=False)

        def serialize(self, packet: bytes) -> bytes:
            return packet

        def deserialize(self, data: bytes) -> bytes:
            if b"\xff" in data:
                raise DeserializeError("undecodable byte")
            return data

    out: list[SepConfig] = []
    for nl, sep in (("LF", b"\n"), ("CR", b"\r"), ("CRLF", b"\r\n")):
        for keep_end in (False, True):

            def dec(p: Any, sep: bytes = sep, keep_end: bool = keep_end) -> bytes:
                assert isinstance(p, str)
                b = p.encode("ascii")
                if keep_end:
                    b = b[: -len(sep)] if b.endswith(sep) else b + b"?"
                return b

            out.append(
                SepConfig(
                    f"StringLineSerializer({nl},keep_end={keep_end})",
                    sep,
                    lambda limit, nl=nl, keep_end=keep_end: StringLineSerializer(nl, limit=limit, keep_end=keep_end, encoding="ascii"),  # type: ignore[arg-type]
                    ord("a"),
                    0xFF,
                    dec,
                )
            )
    # a lenient error handler: bytes that are invalid in the encoding are payload like any other, on every receive path
    def decl(p: Any) -> bytes:
        assert isinstance(p, str)
        return p.replace("\ufffd", "\xff").encode("latin-1")

    out.append(
        SepConfig(
            "StringLineSerializer(LF,unicode_errors=replace)",
            b"\n",
            lambda limit: StringLineSerializer("LF", limit=limit, encoding="ascii", unicode_errors="replace"),
            0xFF,
            0xFE,
            decl,
            lenient=True,
        )
    )
    for sep in (b"|", b"#$", b"#$%"):

        def decb(p: Any) -> bytes:
            assert isinstance(p, bytes)
            return p

        out.append(SepConfig(f"AutoSeparatedPacketSerializer(sep={sep!r})", sep, lambda limit, sep=sep: RawSep(sep, limit), ord("a"), 0xFF, decb))

    class RawSepInner(RawSep):
        """deserialize() fails the way a wrapped incremental serializer does: with an IncrementalDeserializeError of its own, whose
        remaining_data speaks about the frame, not about the stream."""

        def deserialize(self, data: bytes) -> bytes:
            from easynetwork.exceptions import IncrementalDeserializeError

            if b"\xff" in data:
                raise IncrementalDeserializeError("undecodable byte", remaining_data=b"")
            return data

    for sep in (b"|", b"#$"):
        out.append(SepConfig(f"AutoSeparatedPacketSerializer(sep={sep!r}, deserialize raises IncrementalDeserializeError)", sep, lambda limit, sep=sep: RawSepInner(sep, limit), ord("a"), 0xFF, decb))

    def decj(p: Any) -> bytes:
        return str(p).encode() if isinstance(p, int) else b"?"

    out.append(SepConfig("JSONSerializer(use_lines=True)", b"\n", lambda limit: JSONSerializer(limit=limit, use_lines=True), ord("1"), ord("x"), decj, emptyerr=True, buffered=False))
    return out


def compositions(n: int, maxpart: int) -> Iterator[tuple[int, ...]]:
    if n == 0:
        yield ()
        return
    for k in range(1, min(n, maxpart) + 1):
        for rest in compositions(n - k, maxpart):
            yield (k,) + rest


def chunkings(n: int, maxread: int, rng: random.Random, *, exhaustive_upto: int = 8, nrandom: int = 6) -> list[tuple[int, ...]]:
    if n == 0:
        return [()]
    if n <= exhaustive_upto:
        return list(compositions(n, maxread))
    out: set[tuple[int, ...]] = set()
    out.add((1,) * n)
    out.add(tuple([maxread] * (n // maxread) + ([n % maxread] if n % maxread else [])))
    for c in range(1, n):  # a read boundary exactly at c, greedy max-size reads elsewhere
        parts: list[int] = []
        pos = 0
        while pos < n:
            nxt = min(pos + maxread, n)
            if pos < c < nxt:
                nxt = c
            parts.append(nxt - pos)
            pos = nxt
        out.add(tuple(parts))
    for _ in range(nrandom):
        parts = []
        pos = 0
        while pos < n:
            k = rng.randint(1, min(maxread, n - pos))
            parts.append(k)
            pos += k
        out.add(tuple(parts))
    return sorted(out)


def _outcome_copy(consumer: Any, chunk: bytes | None) -> tuple[str, Any]:
    from easynetwork.exceptions import LimitOverrunError, StreamProtocolParseError

    try:
        return "pkt", consumer.next(chunk)
    except StopIteration:
        return "more", None
    except StreamProtocolParseError as exc:
        return ("limit" if isinstance(exc.error, LimitOverrunError) else "err"), None
    except Exception as exc:  # noqa: BLE001 - anything else is not an allowed outcome: the trace will be rejected
        return "crash:" + type(exc).__name__, None


def record(cfg: SepConfig, limit: int, path: str, syms: Sequence[int], chunking: Sequence[int], maxread: int) -> dict[str, Any]:
    """Feed enc(syms) to the real consumer with the given read sizes; returns a SepScan trace."""
    from easynetwork.lowlevel._stream import BufferedStreamDataConsumer, StreamDataConsumer
    from easynetwork.protocol import BufferedStreamProtocol, StreamProtocol

    data = cfg.enc(syms)
    serializer = cfg.make(limit)
    events: list[dict[str, Any]] = []

    def ev(kind: str, n: int, k: str, pkt: Any, held: int) -> None:
        events.append({"ev": kind, "n": n, "k": k, "data": cfg.syms_of(pkt) if k == "pkt" else [], "held": held})

    pos = 0
    if path == "copy":
        consumer = StreamDataConsumer(StreamProtocol(serializer))

        def held_after(k: str) -> int:
            return -1 if k == "more" else len(consumer.get_buffer())

        for n in chunking:
            k, pkt = _outcome_copy(consumer, data[pos : pos + n])
            pos += n
            ev("read", n, k, pkt, held_after(k))
            if k.startswith("crash"):
                break
            drains = 0
            while True:
                k, pkt = _outcome_copy(consumer, None)
                if k == "more":
                    ev("quiet", 0, "more", None, -1)
                    break
                drains += 1
                if drains > len(data) + 8:
                    # more outcomes than bytes held: the consumer reports without consuming (errors must make progress); no outcome
                    # of the specification is called "spin", so the trace is rejected at this event instead of the harness looping for ever
                    ev("drain", 0, "spin", None, -1)
                    break
                ev("drain", 0, k, pkt, held_after(k))
                if k.startswith("crash"):
                    break
            if drains > len(data) + 8:
                break
    else:
        bconsumer = BufferedStreamDataConsumer(BufferedStreamProtocol(serializer), 1024)

        def bheld() -> int:
            try:
                bconsumer.get_write_buffer()
            except RuntimeError:
                return -1
            v = bconsumer.get_value()
            return len(v) if v is not None else 0

        pending_reads = list(chunking)
        while pos < len(data):
            n = pending_reads.pop(0) if pending_reads else min(maxread, len(data) - pos)
            try:
                with memoryview(bconsumer.get_write_buffer()) as view:
                    n = min(n, view.nbytes, len(data) - pos)
                    view[:n] = data[pos : pos + n]
            except RuntimeError:
                events.append({"ev": "stuck", "n": 0, "k": "more", "data": [], "held": -1})
                break
            pos += n
            k, pkt = _outcome_copy(bconsumer, n)
            ev("read", n, k, pkt, bheld())
            if k.startswith("crash"):
                break
            drains = 0
            while True:
                k, pkt = _outcome_copy(bconsumer, None)
                if k == "more":
                    ev("quiet", 0, "more", None, -1)
                    break
                drains += 1
                if drains > len(data) + 8:
                    ev("drain", 0, "spin", None, -1)
                    break
                ev("drain", 0, k, pkt, bheld())
            if drains > len(data) + 8:
                break
    events.append({"ev": "end", "n": 0, "k": "more", "data": [], "held": -1})
    return {
        "par": {"seplen": len(cfg.sep), "limit": limit, "maxread": maxread, "path": path, "faithful": False, "emptyerr": cfg.emptyerr},
        "sent": list(syms),
        "events": events,
        "meta": f"{cfg.name} limit={limit} path={path} bytes={data!r} reads={list(chunking)}",
    }


def frame_streams(seplen: int, limit: int, *, with_bad: bool, max_frames: int, rng: random.Random, cap: int) -> list[tuple[int, ...]]:
    """Streams built from frames whose payload lengths sit around the interesting thresholds."""
    sep = tuple(range(1, seplen + 1))
    lens = sorted({0, 1, 2, max(limit - seplen - 2, 0), max(limit - seplen - 1, 0), max(limit - seplen, 0), limit - 1, limit, limit + 1, limit + seplen + 2})
    payloads: list[tuple[int, ...]] = []
    for n in lens:
        payloads.append((0,) * n)
        if with_bad and n >= 1:
            payloads.append((0,) * (n - 1) + (BAD,))
        if seplen >= 2 and n >= 2:
            payloads.append((0,) * (n - 1) + (1,))  # half a separator at the end of the payload
            payloads.append((2,) + (0,) * (n - 1))  # tail of a separator at the start
    frames = [p + sep for p in payloads]
    tails: list[tuple[int, ...]] = [(), (0,), (0, 1) if seplen >= 2 else (0, 0), (0,) * (limit + seplen + 3)]
    out: set[tuple[int, ...]] = set()
    for f in frames:
        for t in tails:
            out.add(f + t)
    combos = list(itertools.product(frames, repeat=2))
    rng.shuffle(combos)
    for a, b in combos[: cap // 2]:
        out.add(a + b)
        out.add(a + b + tails[1])
    if max_frames >= 3:
        small = [f for f in frames if len(f) <= limit + seplen + 1]
        for _ in range(cap // 2):
            out.add(tuple(itertools.chain.from_iterable(rng.choice(small if rng.random() < 0.7 else frames) for _ in range(3))))
    res = sorted(out)
    rng.shuffle(res)
    return res[:cap]


def all_streams(seplen: int, n: int, alphabet: Sequence[int]) -> Iterator[tuple[int, ...]]:
    syms = list(alphabet) + list(range(1, seplen + 1))
    for k in range(0, n + 1):
        yield from itertools.product(syms, repeat=k)
