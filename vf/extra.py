"""Runner of the specifications that go beyond the listed properties: `python -m vf.extra [--tier quick|thorough]`.

Exit 0 when every extra specification holds and is conformed to, 1 otherwise (lines `EXTRA-VIOLATION <name>: ...`); never prints
a `VIOLATION property=` line - nothing here is attributed to one of the twenty properties.  Reports go to evidence/extra/<name>.json.
"""

from __future__ import annotations

import argparse
import json
import os
import sys

from . import common


def main() -> int:
    ap = argparse.ArgumentParser()
    ap.add_argument("--tier", default=os.environ.get("VERIF_TIER", "quick"), choices=["quick", "thorough"])
    ns = ap.parse_args()
    common.use_repo()
    from .extras import endpoint, future_bridge, stapled, suite_traces, task_handle

    rc = 0
    for mod in (future_bridge, task_handle, stapled, endpoint, suite_traces):
        rep = mod.run(ns.tier, common.seed())
        os.makedirs(os.path.join(common.EVIDENCE_DIR, "extra"), exist_ok=True)
        with open(os.path.join(common.EVIDENCE_DIR, "extra", rep["name"] + ".json"), "w") as f:
            json.dump(rep, f, indent=1)
        for v in rep["violations"][:20]:
            print(f"EXTRA-VIOLATION {rep['name']}: {v}")
            rc = 1
        print(f"extra {rep['name']}: model {rep.get('model')} replay {rep.get('replay')} violations={len(rep['violations'])}")
    return rc


if __name__ == "__main__":
    sys.exit(main())
