"""MANIFEST.setup_cmd: offline self-check of the framework (no network, nothing fetched)."""

from __future__ import annotations

import compileall
import glob
import os
import sys

from . import common, tlc


def main() -> int:
    ok = compileall.compile_dir(os.path.join(common.VERIF, "vf"), quiet=1)
    if not ok:
        print("byte-compilation failed", file=sys.stderr)
        return 1
    common.use_repo()
    failed = 0
    for path in sorted(glob.glob(os.path.join(tlc.SPEC_DIR, "*.tla"))):
        name = os.path.basename(path)
        if name.endswith("Trace.tla") or name.startswith("MC_"):
            # trace modules read IOEnv at parse-independent time; SANY handles them as well
            pass
        try:
            tlc.sany(path)
        except tlc.TLCError as exc:
            print(exc, file=sys.stderr)
            failed += 1
    print(f"setup: vf compiled, easynetwork importable from {common.REPO}/src, SANY ok on all modules" if not failed else "setup: SANY failures")
    return 1 if failed else 0


if __name__ == "__main__":
    sys.exit(main())
