"""Running the real high-level asynchronous servers over in-memory listeners (virtual time), with scripted clients."""

from __future__ import annotations

import asyncio
import logging
import socket
from typing import Any

from . import harness, memtransport

logging.getLogger("easynetwork").setLevel(logging.CRITICAL + 1)


class MemClient:
    """Client side of an in-memory connection accepted by the server."""

    def __init__(self, backend: Any, extra_sock: socket.socket, **pipe_kw: Any) -> None:
        self.to_server = memtransport.MemPipe(**pipe_kw)
        self.from_server = memtransport.MemPipe()
        self.server_side = memtransport.MemStreamTransport(backend, self.to_server, self.from_server, extra=harness.socket_extra(extra_sock))

    def feed(self, data: bytes) -> None:
        self.to_server.feed(data)

    def close(self) -> None:
        self.to_server.close_write()

    def reset(self, exc: BaseException | None = None) -> None:
        self.to_server.reset = exc if exc is not None else ConnectionResetError(104, "Connection reset by peer")
        self.to_server.wake_readers()

    def received(self) -> bytes:
        return b"".join(self.from_server.log)


class TCPServerFixture:
    """AsyncTCPNetworkServer on a MemListener.  Use inside a running (virtual) loop."""

    def __init__(self, protocol: Any, handler: Any, **server_kw: Any) -> None:
        from easynetwork.servers.async_tcp import AsyncTCPNetworkServer

        self.backend = harness.HarnessBackend()
        self.lsock = socket.socket(socket.AF_INET, socket.SOCK_STREAM)
        self.lsock.bind(("127.0.0.1", 0))
        self.lsock.listen(1)
        self.csock, self.ssock = harness.loopback_tcp_pair()
        self.listeners: list[memtransport.MemListener] = []

        def make_listeners(*a: Any, **kw: Any) -> list[Any]:
            lst = memtransport.MemListener(self.backend, extra={k: v for k, v in harness.socket_extra(self.lsock).items() if True})
            # a listening socket has no peername
            self.listeners.append(lst)
            return [lst]

        self.backend.tcp_listeners_factory = make_listeners
        self.server = AsyncTCPNetworkServer("127.0.0.1", 0, protocol, handler, backend=self.backend, **server_kw)
        self.task: asyncio.Task[None] | None = None

    async def start(self) -> None:
        up = asyncio.Event()
        self.task = asyncio.get_running_loop().create_task(self.server.serve_forever(is_up_event=up))
        await asyncio.wait([self.task, asyncio.ensure_future(up.wait())], return_when=asyncio.FIRST_COMPLETED)

    @property
    def listener(self) -> memtransport.MemListener:
        return self.listeners[-1]

    def connect(self, **pipe_kw: Any) -> MemClient:
        c = MemClient(self.backend, self.ssock, **pipe_kw)
        self.listener.push(c.server_side)
        return c

    async def stop(self) -> None:
        try:
            await self.server.shutdown()
        finally:
            await self.server.server_close()
            if self.task is not None:
                await asyncio.gather(self.task, return_exceptions=True)
            for s in (self.lsock, self.csock, self.ssock):
                try:
                    s.close()
                except OSError:
                    pass
