"""Generate /verif/MANIFEST.json from the table below (single source of truth for what is claimed)."""

from __future__ import annotations

import json
import os

from . import common

PY = "/venv/bin/python"

# property -> (level, technique, design_ref, level text, level note)
CLAIMED: dict[str, tuple[str, str, str, str, str]] = {
    "C12": (
        "model_checking",
        "TLA+ spec (FairLock, SendLock) model-checked by TLC; every edge of the TLC state graph replayed on the real FairLock (exact state) "
        "and TLC schedules replayed on the real async TCP client / server-side client / TLS transport; wire parsed back into packets",
        "DESIGN.md section 6 (C12)",
        "TLC explores every interleaving of acquire/release/cancel/resume (FairLock verbatim) and of N senders over a suspending transport "
        "within small constants, checking mutual exclusion, FIFO hand-off, no lost wake-up, contiguity and liveness; the model is bound to the "
        "code by exact-state replay of an edge-covering set of TLC behaviours.",
        "Trusted: TLC, the projection functions of the replay harness, CPython's asyncio.Lock (used by the asyncio backend as its fair lock). "
        "Bounds: 3-4 tasks, <=6 acquisitions, <=3 cancellations; 3 senders x 2 chunks.",
    ),
    "C20": (
        "model_checking",
        "TLA+ spec FlowControl (WriteFlowControl verbatim + asyncio future/callback discipline) model-checked by TLC incl. waiter liveness; "
        "every edge of the TLC state graph replayed on the real WriteFlowControl with exact state comparison; scenario runs of the real "
        "asyncio stream/datagram adapters (non-reading peer, RST, cancellation of one parked sender); TLA+ spec DatagramFlow (datagram adapter = "
        "sendto + drain, aclose = close + shielded wait, the event loop's FIFO of ready callbacks) model-checked and replayed (random + directed "
        "macro-walks: 1-3 environment actions inside one loop iteration, then the loop runs to rest) on DatagramEndpoint, the datagram listener adapter and the stream adapter",
        "DESIGN.md section 6 (C20)",
        "TLC explores all interleavings of pause/resume/connection_lost/close/cancel/wake-up for 3 senders; the real WriteFlowControl is "
        "stepped through an edge-covering set of those behaviours (hand-driven coroutines, callbacks released by the harness) and must "
        "match the specification state after every action; the real socket adapter is then checked end-to-end over loopback.",
        "Trusted: TLC, the replay projection, CPython's selector transport calling pause_writing/resume_writing per its buffer limits. "
        "Bounds: 3 senders, <=5 environment notifications, <=2 cancellations; stream scenarios use 2 MB payloads over 64 KiB socket buffers.",
    ),
    "C02": (
        "model_checking",
        "TLA+ spec SepScan (operational model of read_until / _buffered_readuntil / LimitOverrunError remainder) model-checked by TLC over all "
        "byte strings x chunkings x both receive paths; executions of the real serializers+consumers recorded step by step and validated against "
        "SepScanTrace by TLC (batch trace validation, every invariant evaluated in every state)",
        "DESIGN.md section 3 (C02)",
        "TLC decides, for every byte string over {payload, undecodable payload, separator bytes} up to 8-9 bytes, every chunking (reads <= 3) and "
        "both receive paths, that outputs equal frame-by-frame decoding for streams safely within the limit, that every delivered packet is aligned, "
        "that delivery resynchronises after a size rejection and that errors make progress; the real code is bound by trace validation of tens of "
        "thousands of recorded executions (exhaustive small streams + threshold frame shapes) in which outcome and bytes held must match the model.",
        "Trusted: TLC, the byte<->alphabet mapping of the harness, CommunityModules Json/IOUtils. Bounds: separator length 1-3, limits 5-9, "
        "reads <= 3 bytes, streams <= 9 bytes (model) / <= ~40 bytes (traces).",
    ),
    "C07": (
        "model_checking",
        "TLA+ specs SepScan (invariants Bound, NoLimitOnSafe) and SizeGuard (file-based / raw-JSON guards) model-checked by TLC over all payload "
        "lengths 0..limit+separator+read x all chunkings; real serializers' executions (bytes held observed after every step) validated by TLC "
        "against SepScanTrace / SizeGuardTrace",
        "DESIGN.md section 3 (C07)",
        "Exhaustive within the constants for the design (TLC), trace validation for the code: for every payload length around the limit and "
        "every chunking the number of bytes actually held by the real consumer must equal the model's, which TLC bounds by limit+read+separator; "
        "frames safely under the limit are never rejected.",
        "Trusted: TLC; 'safely under the limit' as defined in the evidence assumptions. Bounds: limits 4-64, reads <= 16.",
    ),
    "C01": (
        "model_checking",
        "TLA+ spec StreamAbs (content-free framing law) model-checked by TLC; every execution of the real serializers/protocols/consumers "
        "(all shipped incremental serializers, base-class subclasses, wrappers, composites, converters; both receive paths; buffer size hints) "
        "recorded as a trace and validated by TLC against StreamAbsTrace; separator scanners additionally byte-exact via SepScan",
        "DESIGN.md section 3 (C01)",
        "The specification decides order, multiplicity, chunking-independence (a frame is delivered as soon as, and only when, its last byte "
        "was fed) and emptiness at the end; TLC validates thousands of recorded executions per run, covering every single cut, cuts around every "
        "frame boundary, byte-by-byte and all compositions for short streams.",
        "Trusted: TLC; Python equality between delivered and sent packet (computed by the harness, asserted by the spec). cbor/msgpack are not "
        "importable offline and therefore not exercised.",
    ),
    "C10": (
        "model_checking",
        "TLA+ spec RecvCancel (StreamReaderBufferedProtocol receive paths + event-loop iteration structure) model-checked by TLC for byte "
        "conservation; every edge of the TLC state graph realised on the real protocol/selector transport by stepping a real event loop one "
        "iteration at a time (cancellation placed before/after the read-ready handle, poll gated), state compared after each iteration; upper "
        "receive layers under seeded cancellation schedules validated by TLC against StreamAbsTrace",
        "DESIGN.md section 6 (C10)",
        "TLC enumerates every relative order of {data callback, cancellation request, task wake-up} within and across loop iterations and "
        "every cut of the stream at the cancellation; the real code is driven through an edge-covering set of exactly those schedules and must "
        "agree with the model (delivered bytes, protocol buffer, kernel buffer, outcomes) after every iteration; conservation is re-checked by "
        "draining the connection.",
        "Trusted: TLC; CPython's selector event loop ordering (I/O handles before due timers, FIFO ready queue) which the harness steps with "
        "loop._run_once(); the virtual-time selector of the harness. Bounds: 4-5 bytes, caller buffer of 2, 3-4 receive calls, 2 cancellations.",
    ),
    "C16": (
        "model_checking",
        "TLA+ spec DatagramServer (_ClientData queue/state machine, per-datagram tasks, handler generators, done-hook restart, timeouts) "
        "model-checked by TLC (safety + liveness); hook logs of the real AsyncDatagramServer under seeded random schedules validated by TLC "
        "against DatagramServerTrace (unlogged steps inferred as silent actions; _ClientData.state and queue length bound at every event)",
        "DESIGN.md section 7 (C16)",
        "TLC explores all interleavings of arrivals, pushes, generator progress/completion/timeouts for one address (addresses are independent "
        "by construction) and proves per-address FIFO exactly-once, one active generator, unreachable inconsistent state and eventual handling; "
        "the code is bound by trace validation in which the real object's state must equal the model's at every logged event.",
        "Trusted: TLC; in-memory listener starting one task per datagram in arrival order. Bounds: 4-5 datagrams per address (model), 1-3 addresses x "
        "1-5 datagrams (traces).",
    ),
    "C19": (
        "model_checking",
        "TLA+ spec ConnectRace (staggered race, socket life cycle, winner/scope cancellation, external cancel, bind failures) model-checked by "
        "TLC; logs of the real _staggered_race_connection_impl driven by a scripted resolver + recording socket class validated by TLC against "
        "ConnectRaceTrace (cancellations of losers inferred as silent steps, number of open sockets bound at every quiescent point)",
        "DESIGN.md section 6 (C19)",
        "TLC explores every completion order and outcome of up to 4-5 attempts relative to the stagger delay, bind failures and an external "
        "cancellation at every step, with the invariants 'one connected socket returned, nothing else open / nothing open on failure'; thousands "
        "of executions of the real code are decided against that specification, with /proc/self/fd as an independent leak oracle.",
        "Trusted: TLC; the recording socket subclass injected through the resolver module's socket alias (driver process only).",
    ),
    "C04": (
        "model_checking",
        "TLA+ spec SendAll (sendmsg loop with IOV_MAX slicing + adjust_leftover_buffer, join+send loop, _retry time budget) model-checked by "
        "TLC (safety, termination, per-iteration progress); every socket call and wait of the real transports/endpoint against a scripted "
        "socket+selector+clock logged and validated by TLC against SendAllTrace (spin guard => rejected trace); asyncio adapter checked for exact "
        "wire content under kernel partial writes and for prompt close",
        "DESIGN.md section 4 (C04)",
        "TLC proves on the model that the wire is always a prefix of the packet, exact on return, that the call terminates and every loop "
        "iteration makes progress, for chunk sequences with empty chunks in any position; thousands of executions of the real code under scripted "
        "partial writes / EAGAIN / EINTR / selector results are decided against that specification event by event.",
        "Trusted: TLC; the scripted socket (a send of n>0 bytes accepts >=1 byte or raises EAGAIN/EINTR). TLS send loops are checked under C08.",
    ),
    "C03": (
        "model_checking",
        "TLA+ spec RecvEndpoint (receive loop of the endpoint over an abstract contract-abiding transport; sticky EOF; time budget) model-checked "
        "by TLC over streams x close positions x call histories x timeouts {None,0,>0}; every transport call and recv_packet outcome of the real "
        "StreamEndpoint (scripted transport + fake clock) and AsyncStreamEndpoint (in-memory transport), both receivers, validated by TLC against "
        "RecvEndpointTrace (blocking scenarios that reported the end of the stream end with one more call after the endpoint's own close)",
        "DESIGN.md section 4 (C03)",
        "TLC proves on the model: packets once and in order, never ahead of the bytes, EOF only after every complete frame was delivered, EOF "
        "sticky without touching the transport again; thousands of seeded executions of the real endpoints are decided event by event against it.",
        "Trusted: TLC; the scripted transport honours the transport contract. TCP clients over loopback are covered indirectly (C10/C11/C12 drive "
        "them); their errno conversion is not part of this check.",
    ),
    "C11": (
        "model_checking",
        "TLA+ specs RecvEndpoint (timeout argument of every transport call = remaining budget), SendAll (_retry waits min(remaining, retry_interval), "
        "recompute) and Budget (whole client call incl. lock wait and iterators) model-checked by TLC; executions of the real endpoint / transports / "
        "TCPNetworkClient / AsyncTCPNetworkClient iterator on scripted socket+selector+lock with an integer fake clock validated by TLC",
        "DESIGN.md section 4 (C11)",
        "Elapsed fake time is compared exactly: the sum of all waits of a call never exceeds T, T=0 never waits, TimeoutError only when the "
        "budget is used up and nothing complete is available; every wait and every timeout argument is logged and must match the model.",
        "Trusted: TLC; processing time is zero on the fake clock. Blocking TLS transport timeouts are exercised under C08/C09.",
    ),
    "C05": (
        "exploration",
        "TLA+ spec Datagram (no buffer variable: one outcome per datagram, depending on that datagram only) model-checked by TLC; generated packets "
        "and seeded interleavings of valid and malformed datagrams through DatagramProtocol, blocking/async datagram endpoints and the UDP client, for "
        "every serializer in one-shot mode, logged and validated by TLC against DatagramTrace",
        "DESIGN.md section 4 (C05)",
        "The input space (packet values, malformed payloads) is explored by seeded generation, not by TLC; every execution is decided by the "
        "TLC-checked trace specification: exactly one datagram per send whose payload round-trips, exactly one packet or parse error per received "
        "datagram, no merging/splitting/carry-over.",
        "Trusted: TLC; Python equality computed by the harness; loopback UDP not dropping the few datagrams of a scenario.",
    ),
    "C06": (
        "exploration",
        "TLA+ spec ParseTotal (outcome alphabet of a parse step + progress law) model-checked by TLC as the oracle; seeded mutation fuzzing "
        "(12 operators + structurally extreme documents up to the limit) of every serializer in one-shot / incremental / buffered mode, every parse "
        "call logged and validated by TLC against ParseTotalTrace; watchdog turns hangs into rejected traces",
        "DESIGN.md section 3 (C06) and section 9",
        "TLC cannot enumerate JSON/zlib/pickle byte strings meaningfully: the fuzzer explores, the specification decides every step (only packet, "
        "need-more or a protocol parse error with >= 1 byte consumed are behaviours).",
        "Trusted: TLC; the mutation operators' reach. pickle is fuzzed through a restricted unpickler; cbor/msgpack are not importable offline.",
    ),
    "C13": (
        "model_checking",
        "TLA+ spec CancelScope (reference semantics as an interpreter over programs-as-data) model-checked by TLC on a systematic family of small "
        "programs x external-cancel ticks (totality, caught=>cancelled, unwinding has a cause, never through a shield); generated scope programs "
        "executed on the real asyncio backend in virtual time, every observable step validated by TLC against CancelScopeTrace",
        "DESIGN.md section 6 (C13)",
        "The semantics is exactly as strong as the property and nondeterministic where the property is (exact timer ties, catch-or-propagate when "
        "an enclosing scope is cancelled too); TLC decides for every recorded program execution whether it is one of the allowed behaviours, "
        "including scope ids, cancelled_caught / cancel_called, the exception leaving each scope, virtual time and task.cancelling() at the end.",
        "Trusted: TLC; the virtual-time event loop of the harness. Programs are single-task (task-group children are not generated). Known finding "
        "F8 (external cancellation lost behind ignore_cancellation + cancelled scope) is listed in known_findings.json.",
    ),
    "C08": (
        "model_checking",
        "TLA+ spec TLSChannel (lock discipline of _retry_ssl_method, reader+writer task per side, bounded pipe) model-checked by TLC for deadlock, "
        "conservation and completion; sessions of the real AsyncTLSStreamTransport against an independent ssl.SSLObject peer over fragmenting in-memory "
        "pipes (and of the blocking SSLStreamTransport against a threaded stdlib peer) logged and validated by TLC against TLSStreamTrace",
        "DESIGN.md section 5 (C08)",
        "TLC decides the lock discipline exhaustively for small record counts (it exhibits the bounded-pipe deadlock F10 and proves the unbounded "
        "case deadlock-free and live); the stream law (bytes read = bytes written, in order, nothing unread at the end, ciphertext only on the wire) is "
        "decided by TLC on every recorded session; the virtual-time loop turns a stall into a rejected trace.",
        "Trusted: TLC, OpenSSL (environment), the independent peer. Known finding F10 (deadlock with both writers blocked on a bounded pipe) is "
        "listed in known_findings.json.",
    ),
    "C09": (
        "fault_enumeration",
        "TLA+ spec TLSTruncation (allowed observations of a reader behind a cut ciphertext stream) model-checked by TLC; one live TLS session per "
        "cut offset x standard_compatible x role x {async transport over in-memory pipes, blocking transport behind a forwarding proxy}; observed "
        "sequences validated by TLC against TLSTruncationTrace (on the library-built TLS clients also what recv_packet answers its caller at the end and "
        "when asked again: the first answer lasts); close sends close_notify (independent peer)",
        "DESIGN.md section 5 (C09)",
        "Every enumerated cut (quick: all record boundaries +-2 and a stride; thorough: every byte offset) is executed on the real transports and "
        "decided by the TLC-checked trace specification: a cut stream never ends with a clean end-of-stream in standard mode, the complete stream "
        "does, non-standard mode reports end-of-stream.",
        "Trusted: TLC, OpenSSL. Contexts have OP_IGNORE_UNEXPECTED_EOF cleared (with a user context that keeps it OpenSSL itself reports truncation "
        "as a clean shutdown).",
    ),
    "C14": (
        "fault_enumeration",
        "TLA+ spec ClosePaths (obligation of a close path under cancellation at any step / failing inner transports) model-checked by TLC; every "
        "close path of the real code re-run with the closing task cancelled immediately before each of its steps and with each inner transport "
        "failing, peers answering / stalling / vanished; runs validated by TLC against ClosePathsTrace",
        "DESIGN.md section 5 (C14)",
        "Cancellation is injected before every task step of every modelled close path (TLS aclose with answering / stalled / vanished peer, TLS "
        "wrap, aclose_forcefully, stapled transports, socket adapter, endpoint, async TCP/UDP clients) and every inner close failure is injected; "
        "each run must close every wrapped transport by the time the closing task is finished and a second close must be prompt.",
        "Trusted: TLC; the step-counting coroutine wrapper; recording in-memory inner transports. Server-side client close paths are covered by "
        "the server checks. Known finding F9 is listed in known_findings.json.",
    ),
    "C15": (
        "model_checking",
        "TLA+ spec StreamServer (what the request handler of one connection may observe) model-checked by TLC; hook logs of the real "
        "AsyncTCPNetworkServer (low-level AsyncStreamServer + build_lowlevel_stream_server_handler + server-side client) on an in-memory listener in "
        "virtual time, under seeded request streams / chunkings / delays / handler shapes, validated by TLC against StreamServerTrace",
        "DESIGN.md section 7 (C15)",
        "TLC proves on the model that requests and parse errors reach the generators in stream order exactly once across restarts, that a timeout "
        "is only thrown when no complete request waits, that generators are closed once; every recorded connection of the real server is decided "
        "against that specification event by event (request identity, error position, timeout duration, closing sequence).",
        "Trusted: TLC; the in-memory listener/transport; the virtual-time loop. Bounds: 1-5 requests per connection, one connection per scenario.",
    ),
    "C17": (
        "fault_enumeration",
        "TLA+ spec Isolation (containment law: server stays up, healthy clients answered in order, faulty connection closed, hook order; datagram: "
        "fresh handler) model-checked by TLC; every (hook position x exception class) cell, every connection set-up fault and a TLS connection dropped "
        "without close notification after an exchange (copying and buffered protocol; nothing may be thrown into handle()) executed on the real "
        "AsyncTCPNetworkServer (plain + TLS) and AsyncUDPNetworkServer with two healthy clients before/during/after the fault; merged logs validated "
        "by TLC against IsolationTrace",
        "DESIGN.md section 7 (C17)",
        "Each enumerated cell is one execution of the real server in virtual time (a 60 s handshake timeout is free); TLC decides per cell that the "
        "healthy clients' request/response sequences are those of a fault-free run, that the server is still serving, that the failing connection "
        "is closed and that on_disconnection ran iff on_connection had completed.",
        "Trusted: TLC; in-memory listeners; the independent TLS peer. KeyboardInterrupt/SystemExit and task cancellation are not client failures.",
    ),
    "C18": (
        "model_checking",
        "TLA+ spec Lifecycle (standalone server: locks, events, threads portal, asynchronous set-up guard) model-checked by TLC (deadlock, termination, "
        "CloseCloses, ShutdownStops, AtMostOneServing); histories of the real asynchronous TCP/UDP servers (seeded interleavings of 3 actors x 1-3 calls "
        "in virtual time) and of the real standalone server (threads, scripted schedules) validated by TLC against the lifecycle laws of LifecycleTrace",
        "DESIGN.md section 7 (C18)",
        "TLC explores every interleaving of two serving threads, a closer and a stopper on the standalone model (it exhibits F5 on the model as "
        "written and proves the waiting variant); the laws (one serving call at a time, refusals exactly when due, shutdown returns only when "
        "serving stopped, no listener after a returned close, every call returns) are decided by TLC on every recorded history.",
        "Trusted: TLC; in-memory listeners; real-thread schedules rely on short sleeps to land in the intended windows. Known finding F5 is listed "
        "in known_findings.json.",
    ),
}

NOT_YET = "check not built yet in this revision of /verif (planned: see DESIGN.md section 0); not claimed until its check exists"


def build() -> dict:
    props = [json.loads(l) for l in open(os.path.join(common.VERIF, "properties.jsonl"))]
    checks = []
    na = []
    for p in props:
        pid = p["id"]
        if pid in CLAIMED:
            level, technique, ref, text, note = CLAIMED[pid]
            checks.append(
                {
                    "property_id": pid,
                    "quick_cmd": f"cd /verif && {PY} -m vf.check {pid} --tier quick",
                    "thorough_cmd": f"cd /verif && {PY} -m vf.check {pid} --tier thorough",
                    "evidence_file": f"/verif/evidence/{pid}.json",
                    "replay_cmd_template": f"cd /verif && {PY} -m vf.check {pid} --replay {{path}}",
                    "engine": "tlc+replay",
                    "level_claimed": {"category": level, "text": text, "design_ref": ref},
                    "level_note": note,
                    "technique": technique,
                }
            )
        else:
            na.append({"property_id": pid, "reason": NOT_YET})
    return {
        "version": 1,
        "setup_cmd": f"cd /verif && {PY} -m vf.setup_check",
        "hooks": {
            "guard": common.GUARD,
            "enable": f"checks set {common.GUARD}=1 in their own process and import easynetwork from /repo/src (working tree); "
            "no source hook exists so far, the variable is reserved",
            "baseline_off_cmd": f"cd /repo && env -u {common.GUARD} /venv/bin/python -m pytest -ra -q -p no:cacheprovider --timeout=900 "
            "--continue-on-collection-errors",
            "source_commits": [],
            "add_only": True,
        },
        "engines": [
            {
                "name": "tlc+replay",
                "path": "/verif/vf",
                "serves_properties": sorted(CLAIMED),
                "kind_free_text": "explicit TLA+ specifications under /verif/spec checked with TLC 1.8; bound to the implementation by "
                "spec->code replay of TLC behaviours and code->spec batch trace validation",
            },
            {
                "name": "extras",
                "path": "/verif/vf/extra.py",
                "serves_properties": [],
                "kind_free_text": "specifications beyond the listed properties (FutureBridge.tla: lowlevel.futures.unwrap_future; TaskHandle.tla: Task.join / "
                "join_or_cancel / wait of the asyncio backend; Endpoint.tla: the stream packet endpoints, async and blocking; Stapled.tla: the four stapled transports over harness-owned halves; exact replay of TLC behaviours; SuiteTraces: traces of the repository's own functional tests against EndpointTrace.tla / LifecycleTrace.tla); `cd /verif && /venv/bin/python -m vf.extra`; reports in evidence/extra/, never a property alarm",
            },
        ],
        "checks": checks,
        "not_applicable": na,
        "notes": "See DESIGN.md. Known findings: /verif/known_findings.json. Seeded changes used to test the checks: /verif/seeded/.",
    }


def main() -> None:
    m = build()
    with open(os.path.join(common.VERIF, "MANIFEST.json"), "w") as f:
        json.dump(m, f, indent=1)
    try:
        import jsonschema  # type: ignore[import-not-found]

        jsonschema.validate(m, json.load(open("/root/.vp/MANIFEST.schema.json")))
        print("MANIFEST.json written and validated")
    except ImportError:
        print("MANIFEST.json written (jsonschema not available for validation)")


if __name__ == "__main__":
    main()
