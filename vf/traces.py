"""Code -> spec: batch validation of recorded implementation traces by TLC.

A trace file is a JSON array of traces; every trace is an object with at least `events` (array of objects with a
uniform field set) plus per-trace constants.  The trace specification (`<Spec>Trace.tla`) has the shape of DESIGN.md
appendix A.1: `tid` chosen in Init, position `l`, a register per trace updated from a CONSTRAINT, and a POSTCONDITION
that prints `<<"REJECTED", [tid |-> furthest event reached]>>` for the traces that are not behaviours.
"""

from __future__ import annotations

import dataclasses
import json
import os
import tempfile
from collections.abc import Mapping, Sequence
from typing import Any

from . import tlaval, tlc


@dataclasses.dataclass
class BatchResult:
    ntraces: int
    nevents: int
    rejected: dict[int, int]  # 0-based trace index -> 1-based index of the first event that could not be matched
    tlc: tlc.TLCResult


def uniform(events: Sequence[Mapping[str, Any]], defaults: Mapping[str, Any]) -> list[dict[str, Any]]:
    out = []
    for e in events:
        d = dict(defaults)
        for k, v in e.items():
            if k not in defaults:
                raise KeyError(f"event field {k!r} has no default (fields must be uniform)")
            d[k] = v
        out.append(d)
    return out


def _find_rejected(out: str) -> dict[int, int]:
    import re

    m = re.search(r'<<\s*"REJECTED"', out)
    if m is None:
        return {}
    i = m.start()
    # bracket matching
    depth = 0
    j = i
    while j < len(out):
        if out.startswith("<<", j):
            depth += 1
            j += 2
            continue
        if out.startswith(">>", j):
            depth -= 1
            j += 2
            if depth == 0:
                break
            continue
        j += 1
    val = tlaval.parse_value(out[i:j])
    m = val[1]
    if isinstance(m, tuple):  # function over 1..n printed as a tuple
        return {k: v for k, v in enumerate(m)}
    return {int(k) - 1: int(v) for k, v in m.items()}


def validate(
    module: str,
    traces: Sequence[Mapping[str, Any]],
    *,
    cfg_text: str | None = None,
    timeout: float = 240,
    chunk: int = 4000,
    jvm_props: Sequence[str] = (),
    heap: str = "2g",
    parallel: int = 1,
) -> BatchResult:
    """Validate traces against spec/<module>.tla (which must read IOEnv.TRACE_FILE)."""
    total = BatchResult(len(traces), sum(len(t["events"]) for t in traces), {}, tlc.TLCResult(ok=True))
    if cfg_text is None:
        cfg_text = "SPECIFICATION Spec\nCONSTRAINT Constr\nPOSTCONDITION Post\nCHECK_DEADLOCK FALSE\n"

    def one(base: int) -> tuple[int, dict[int, int], tlc.TLCResult]:
        part = list(traces[base : base + chunk])
        with tempfile.TemporaryDirectory(prefix="vf_tr_") as d:
            tf = os.path.join(d, "traces.json")
            with open(tf, "w") as f:
                json.dump(part, f)
            cfg = os.path.join(d, "trace.cfg")
            with open(cfg, "w") as f:
                f.write(cfg_text)
            res = tlc.run_tlc(module, cfg, workers=1, timeout=timeout, env={"TRACE_FILE": tf}, jvm_props=jvm_props, heap=heap)
        rej = _find_rejected(res.stdout)
        if not res.ok and not rej and res.violation != "Postcondition false":
            # an invariant of the trace spec was violated: report through the counterexample's tid
            tid = None
            for st in res.trace:
                if "tid" in st["state"]:
                    tid = st["state"]["tid"]
            if tid is None:
                raise tlc.TLCError(f"trace validation of {module} failed without a trace id:\n{res.stdout[-3000:]}")
            lpos = res.trace[-1]["state"].get("l", 1) if res.trace else 1
            rej = {int(tid) - 1: -int(lpos)}  # negative: an invariant failed in the state reached after event l-1
            res.stdout += f"\nINVARIANT-VIOLATION {res.violation}"
        if not res.ok and not rej:
            raise tlc.TLCError(f"trace validation of {module}: postcondition false but no REJECTED record:\n{res.stdout[-3000:]}")
        return base, rej, res

    bases = list(range(0, len(traces), chunk))
    if parallel > 1 and len(bases) > 1:
        from concurrent.futures import ThreadPoolExecutor

        with ThreadPoolExecutor(max_workers=parallel) as ex:
            results = list(ex.map(one, bases))
    else:
        results = [one(b) for b in bases]
    for base, rej, res in results:
        for k, v in rej.items():
            total.rejected[base + k] = v
        total.tlc.generated += res.generated
        total.tlc.distinct += res.distinct
        total.tlc.wall_s += res.wall_s
        total.tlc.stdout = res.stdout
        if res.violation and res.violation != "Postcondition false":
            total.tlc.violation = res.violation
    total.tlc.ok = not total.rejected
    return total
