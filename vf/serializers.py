"""Table of serializer / protocol instantiations exercised by the stream round-trip (C01), datagram (C05) and totality (C06) checks."""

from __future__ import annotations

import collections
import dataclasses
import random
import string
from collections.abc import Callable
from typing import Any

Point = collections.namedtuple("Point", ["x", "y", "name"])


@dataclasses.dataclass
class Entry:
    name: str
    make: Callable[[], Any]  # -> serializer
    gen: Callable[[random.Random], Any]  # -> a valid packet
    incremental: bool = True
    buffered: bool = False
    converter: Callable[[], Any] | None = None
    eq: Callable[[Any, Any], bool] = lambda a, b: a == b and type(a) is type(b) or a == b
    # datagrams that the serializer's documented format excludes whatever its parser says (a token without a valid checksum)
    excluded: Callable[[random.Random, Any], list[bytes]] | None = None

    def stream_protocol(self) -> Any:
        from easynetwork.protocol import StreamProtocol

        return StreamProtocol(self.make(), self.converter() if self.converter else None)

    def buffered_protocol(self) -> Any:
        from easynetwork.protocol import BufferedStreamProtocol

        return BufferedStreamProtocol(self.make(), self.converter() if self.converter else None)

    def datagram_protocol(self) -> Any:
        from easynetwork.protocol import DatagramProtocol

        return DatagramProtocol(self.make(), self.converter() if self.converter else None)


def _unsigned_tokens(inner_make: Callable[[], Any], alphabet: str) -> Callable[[random.Random, Any], list[bytes]]:
    """Base64EncoderSerializer(checksum=...): tokens that carry a document the wrapped serializer accepts but no valid digest."""

    def f(rng: random.Random, packet: Any) -> list[bytes]:
        import base64

        enc = base64.standard_b64encode if alphabet == "standard" else base64.urlsafe_b64encode
        inner = inner_make()
        body = inner.serialize(packet)
        small = inner.serialize(rng.choice([0, 7, True, None, "a", [], {}]))
        return [enc(small), enc(body[:31]), enc(body), enc(small + bytes(32)), enc(small + bytes(rng.randrange(256) for _ in range(rng.randint(1, 31 - min(len(small), 30)))))]

    return f


def _text(rng: random.Random, lo: int = 1, hi: int = 12, alphabet: str = string.ascii_letters + " ") -> str:
    return "".join(rng.choice(alphabet) for _ in range(rng.randint(lo, hi)))


def _json_value(rng: random.Random, depth: int = 0) -> Any:
    kinds = ["int", "str", "uni", "esc", "float", "bool", "null"] + (["list", "dict"] * 2 if depth < 3 else [])
    k = rng.choice(kinds)
    if k == "int":
        return rng.randint(-1000, 10**6)
    if k == "float":
        return rng.choice([0.5, -2.25, 1e10, 3.0])
    if k == "str":
        return _text(rng, 0, 8)
    if k == "uni":
        return rng.choice(["héllo", "€", "\U0001f600x", "éè"])
    if k == "esc":
        return rng.choice(['a"b', "back\\slash", 'end\\', '\\"', "{[", "}]", 'q"{"'])
    if k == "bool":
        return rng.random() < 0.5
    if k == "null":
        return None
    if k == "list":
        return [_json_value(rng, depth + 1) for _ in range(rng.randint(0, 3))]
    return {_text(rng, 1, 4): _json_value(rng, depth + 1) for _ in range(rng.randint(0, 3))}


def _json_container(rng: random.Random) -> Any:
    v = _json_value(rng)
    return v if isinstance(v, (dict, list)) else {"v": v}


import pickle as _pickle


class _PyUnpickler(_pickle._Unpickler):  # type: ignore[name-defined,misc]
    """The pure-Python unpickler: mutated pickles are fed to these serializers (C05, C06); the C implementation answers some one-byte
    corruptions by allocating gigabytes (see DESIGN.md R.4)."""


def entries() -> list[Entry]:
    from easynetwork.converter import AbstractPacketConverter
    from easynetwork.exceptions import DeserializeError, PacketConversionError
    from easynetwork.serializers.base_stream import AutoSeparatedPacketSerializer, FileBasedPacketSerializer, FixedSizePacketSerializer
    from easynetwork.serializers.composite import StapledBufferedIncrementalPacketSerializer, StapledIncrementalPacketSerializer
    from easynetwork.serializers.json import JSONEncoderConfig, JSONSerializer
    from easynetwork.serializers.line import StringLineSerializer
    from easynetwork.serializers.pickle import PickleSerializer
    from easynetwork.serializers.struct import NamedTupleStructSerializer, StructSerializer
    from easynetwork.serializers.wrapper.base64 import Base64EncoderSerializer
    from easynetwork.serializers.wrapper.compressor import BZ2CompressorSerializer, ZlibCompressorSerializer

    class Upper(AutoSeparatedPacketSerializer[str, str]):
        def __init__(self) -> None:
            super().__init__(b"|;|", limit=4096)

        def serialize(self, packet: str) -> bytes:
            return packet.encode("utf-8")

        def deserialize(self, data: bytes) -> str:
            try:
                return data.decode("utf-8")
            except UnicodeError as exc:
                raise DeserializeError(str(exc)) from exc

    class SelfOverlap(AutoSeparatedPacketSerializer[str, str]):
        """A separator that overlaps itself (b"aa": its proper prefix b"a" is also a suffix)."""

        def __init__(self) -> None:
            super().__init__(b"aa", limit=4096)

        def serialize(self, packet: str) -> bytes:
            return packet.encode("ascii")

        def deserialize(self, data: bytes) -> str:
            return data.decode("ascii", "replace")

    def gen_no_double_a(rng: random.Random) -> str:
        out = ""
        for _ in range(rng.randint(1, 6)):
            out += rng.choice("bca" if not out.endswith("a") else "bc")
        return out

    def accepted(make: Callable[[], Any], gen: Callable[[random.Random], Any]) -> Callable[[random.Random], Any]:
        """Only packets the serializer accepts are valid packets: draw again when it refuses one with ValueError."""

        def g(rng: random.Random) -> Any:
            ser = make()
            for _ in range(50):
                p = gen(rng)
                try:
                    wire = b"".join(ser.incremental_serialize(p))
                except ValueError:
                    continue
                # (data that already ends with the separator is taken as terminated - the separator is not doubled: by design such a
                # packet does not come back with its ending, it is not a packet of this framing)
                if wire == ser.serialize(p) + ser.separator:
                    return p
            return p

        return g

    class Fixed(FixedSizePacketSerializer[bytes, bytes]):
        def __init__(self) -> None:
            super().__init__(5)

        def serialize(self, packet: bytes) -> bytes:
            return packet

        def deserialize(self, data: bytes) -> bytes:
            if len(data) != 5:
                raise DeserializeError("bad size")
            return data

    class LengthPrefixed(FileBasedPacketSerializer[bytes, bytes]):
        def __init__(self) -> None:
            super().__init__(expected_load_error=(ValueError,), limit=4096)

        def dump_to_file(self, packet: bytes, file: Any) -> None:
            file.write(len(packet).to_bytes(2, "big") + packet)

        def load_from_file(self, file: Any) -> bytes:
            h = file.read(2)
            if len(h) < 2:
                raise EOFError
            n = int.from_bytes(h, "big")
            if n > 3000:
                raise ValueError("length out of range")
            data = file.read(n)
            if len(data) < n:
                raise EOFError
            return data

    from easynetwork.exceptions import IncrementalDeserializeError
    from easynetwork.serializers.abc import AbstractIncrementalPacketSerializer

    class TLV(AbstractIncrementalPacketSerializer[str, str]):
        """Only the incremental half is written: serialize() / deserialize() are the inherited defaults (built on the incremental methods)."""

        def incremental_serialize(self, packet: str) -> Any:
            body = packet.encode("utf-8")
            yield len(body).to_bytes(1, "big")
            yield body

        def incremental_deserialize(self) -> Any:
            data = yield
            while not data:
                data = yield
            n = data[0]
            data = data[1:]
            while len(data) < n:
                data += yield
            body, rest = data[:n], data[n:]
            try:
                return body.decode("utf-8"), rest
            except UnicodeError as exc:
                raise IncrementalDeserializeError(str(exc), remaining_data=rest) from exc

    class PointConverter(AbstractPacketConverter[Point, dict[str, Any]]):
        def create_from_dto_packet(self, packet: Any) -> Point:
            try:
                return Point(packet["x"], packet["y"], packet["name"])
            except (KeyError, TypeError) as exc:
                raise PacketConversionError(str(exc)) from exc

        def convert_to_dto_packet(self, obj: Point) -> dict[str, Any]:
            return {"x": obj.x, "y": obj.y, "name": obj.name}

    class IntLineConverter(AbstractPacketConverter[int, str]):
        def create_from_dto_packet(self, packet: str) -> int:
            try:
                return int(packet)
            except ValueError as exc:
                raise PacketConversionError(str(exc)) from exc

        def convert_to_dto_packet(self, obj: int) -> str:
            return str(obj)

    def gen_point(rng: random.Random) -> Point:
        return Point(rng.randint(-5, 5), rng.randint(0, 1000), _text(rng, 0, 6))

    def gen_line(rng: random.Random) -> str:
        return _text(rng, 1, 20, string.ascii_letters + string.digits + " \t")

    def gen_struct(rng: random.Random) -> tuple[Any, ...]:
        return (rng.randint(-(2**31), 2**31 - 1), rng.randint(0, 65535), bytes(rng.randrange(256) for _ in range(3)))

    def gen_bytes(n_lo: int, n_hi: int) -> Callable[[random.Random], bytes]:
        return lambda rng: bytes(rng.randrange(256) for _ in range(rng.randint(n_lo, n_hi)))

    PT = collections.namedtuple("PT", ["a", "b", "s"])
    out = [
        Entry("JSONSerializer(lines)", lambda: JSONSerializer(), _json_value),
        Entry("JSONSerializer(lines,ensure_ascii=False)", lambda: JSONSerializer(encoder_config=JSONEncoderConfig(ensure_ascii=False), encoding="utf-8"), _json_value),
        Entry("JSONSerializer(raw)", lambda: JSONSerializer(use_lines=False), _json_value),
        # small limits with packets that fit individually: a read (or a leftover plus a read) holding several of them is bigger than
        # the limit - the limit is about ONE frame, not about what happens to be in the buffer
        Entry("JSONSerializer(raw,limit=40)", lambda: JSONSerializer(use_lines=False, limit=40), lambda rng: [rng.randint(0, 999), _text(rng, 0, 8, string.ascii_letters)]),
        Entry("JSONSerializer(lines,limit=40)", lambda: JSONSerializer(limit=40), lambda rng: [rng.randint(0, 999), _text(rng, 0, 8, string.ascii_letters)]),
        Entry("StringLineSerializer(LF,limit=24)", lambda: StringLineSerializer("LF", limit=24), lambda rng: _text(rng, 0, 12, string.ascii_letters), buffered=True),
        Entry("JSONSerializer(raw,utf-8)", lambda: JSONSerializer(use_lines=False, encoder_config=JSONEncoderConfig(ensure_ascii=False), encoding="utf-8"), _json_value),
        # lines may contain (and end with) the characters of the *other* newline conventions: they are ordinary payload
        Entry("StringLineSerializer(LF)", lambda: StringLineSerializer("LF"), lambda rng: gen_line(rng) + rng.choice(["", "", "\r", "\r\r", "\rx"]), buffered=True),
        Entry(
            "StringLineSerializer(CRLF,keep_end)",
            lambda: StringLineSerializer("CRLF", keep_end=True),
            lambda rng: gen_line(rng) + rng.choice(["", "", "\n", "\r", "\n\r", "\rx\n"]) + "\r\n",
            buffered=True,
        ),
        Entry("StringLineSerializer(CRLF)", lambda: StringLineSerializer("CRLF"), lambda rng: gen_line(rng) + rng.choice(["", "\n", "\r", "\n\n"]), buffered=True),
        Entry(
            "StringLineSerializer(CR,utf-8)",
            lambda: StringLineSerializer("CR", encoding="utf-8"),
            lambda rng: rng.choice(["hé", "€€", "z"]) + _text(rng, 0, 4) + rng.choice(["", "\n", "\n\n"]),
            buffered=True,
        ),
        # a codec that reports malformed input with the base class UnicodeError (not UnicodeDecodeError)
        Entry("StringLineSerializer(LF,encoding=punycode)", lambda: StringLineSerializer("LF", encoding="punycode"), lambda rng: _text(rng, 1, 8, string.ascii_lowercase + "éü"), buffered=True),
        Entry("StructSerializer(>iH3s)", lambda: StructSerializer(">iH3s"), gen_struct, buffered=True),
        Entry(
            "NamedTupleStructSerializer",
            lambda: NamedTupleStructSerializer(PT, {"a": "i", "b": "H", "s": "4s"}, format_endianness="!"),
            lambda rng: PT(rng.randint(-100, 100), rng.randint(0, 9), _text(rng, 1, 4, string.ascii_lowercase)),
            buffered=True,
        ),
        # fields whose value begins with NUL bytes (only the trailing padding is the serializer's to remove)
        Entry(
            "NamedTupleStructSerializer(bytes field)",
            lambda: NamedTupleStructSerializer(PT, {"a": "i", "b": "H", "s": "4s"}, format_endianness="!", encoding=None),
            lambda rng: PT(rng.randint(-100, 100), rng.randint(0, 9), rng.choice([b"\x00", b"\x00\x00", b"", b"\x00\x01"]) [: rng.randint(0, 2)] + bytes(rng.randrange(1, 256) for _ in range(rng.randint(1, 2)))),
            buffered=True,
        ),
        Entry(
            "NamedTupleStructSerializer(debug)",
            lambda: NamedTupleStructSerializer(PT, {"a": "i", "b": "H", "s": "6s"}, format_endianness="<", debug=True),
            lambda rng: PT(rng.randint(-100, 100), rng.randint(0, 9), rng.choice(["", "\0", "\0\0"]) + _text(rng, 1, 3, string.ascii_lowercase)),
            buffered=True,
        ),
        # debug=True: the error objects carry more information, built on the failure path
        Entry("JSONSerializer(lines,debug)", lambda: JSONSerializer(debug=True), _json_value),
        Entry("JSONSerializer(raw,debug)", lambda: JSONSerializer(use_lines=False, debug=True), _json_value),
        Entry("StringLineSerializer(LF,debug)", lambda: StringLineSerializer("LF", debug=True), gen_line, buffered=True),
        Entry("StructSerializer(<hB,debug)", lambda: StructSerializer("<hB", debug=True), lambda rng: (rng.randint(-3000, 3000), rng.randint(0, 255)), buffered=True),
        Entry("Zlib(JSON,debug)", lambda: ZlibCompressorSerializer(JSONSerializer(debug=True), debug=True), _json_value, buffered=True),
        Entry("Base64(line,debug)", lambda: Base64EncoderSerializer(StringLineSerializer(debug=True), debug=True), gen_line, buffered=True),
        Entry("PickleSerializer(debug)", lambda: PickleSerializer(unpickler_cls=_PyUnpickler, debug=True), _json_value, incremental=False),
        Entry("FixedSizePacketSerializer(subclass,5)", Fixed, gen_bytes(5, 5), buffered=True),
        # packets may end with a proper prefix of the separator ("|", "|;"): whatever the serializer accepts has to come back unchanged
        Entry("AutoSeparatedPacketSerializer(subclass,'|;|')", Upper, accepted(Upper, lambda rng: _text(rng, 1, 8, string.ascii_letters + "|;é") + rng.choice(["", "", "|", "|;", ";", ";|"])), buffered=True),
        Entry("AutoSeparatedPacketSerializer(subclass,'aa')", SelfOverlap, accepted(SelfOverlap, gen_no_double_a), buffered=True),
        Entry("FileBasedPacketSerializer(subclass)", LengthPrefixed, gen_bytes(0, 20), buffered=True),
        Entry("AbstractIncrementalPacketSerializer(subclass, default one-shot methods)", TLV, lambda rng: _text(rng, 0, 12, string.ascii_letters + "é"), buffered=False),
        Entry("Base64(JSON)", lambda: Base64EncoderSerializer(JSONSerializer()), _json_value, buffered=True),
        Entry("Base64(pickle,checksum,standard)", lambda: Base64EncoderSerializer(PickleSerializer(unpickler_cls=_PyUnpickler), alphabet="standard", checksum=True), _json_value, buffered=True, excluded=_unsigned_tokens(lambda: PickleSerializer(unpickler_cls=_PyUnpickler), "standard")),
        Entry("Base64(JSON,checksum=key)", lambda: Base64EncoderSerializer(JSONSerializer(), checksum=__import__("base64").urlsafe_b64encode(b"k" * 32)), _json_value, buffered=True, excluded=_unsigned_tokens(lambda: JSONSerializer(), "urlsafe")),
        Entry("Zlib(JSON)", lambda: ZlibCompressorSerializer(JSONSerializer()), _json_value, buffered=True),
        Entry("Zlib(pickle,level1)", lambda: ZlibCompressorSerializer(PickleSerializer(unpickler_cls=_PyUnpickler), compress_level=1), _json_value, buffered=True),
        Entry("BZ2(JSON)", lambda: BZ2CompressorSerializer(JSONSerializer()), _json_value, buffered=True),
        Entry("BZ2(line,level1)", lambda: BZ2CompressorSerializer(StringLineSerializer(), compress_level=1), gen_line, buffered=True),
        Entry("StapledIncremental(JSON raw / JSON raw)", lambda: StapledIncrementalPacketSerializer(JSONSerializer(use_lines=False), JSONSerializer(use_lines=False)), _json_container),
        Entry("StapledBuffered(line / line)", lambda: StapledBufferedIncrementalPacketSerializer(StringLineSerializer(), StringLineSerializer()), gen_line, buffered=True),
        Entry("StreamProtocol(JSON lines)+converter", lambda: JSONSerializer(), gen_point, converter=PointConverter),
        Entry("BufferedStreamProtocol(line)+converter", lambda: StringLineSerializer(), lambda rng: rng.randint(-(10**6), 10**6), buffered=True, converter=IntLineConverter),
        Entry("PickleSerializer", lambda: PickleSerializer(unpickler_cls=_PyUnpickler), _json_value, incremental=False),
    ]
    try:  # optional dependencies: absent in the offline sandbox
        from easynetwork.serializers.cbor import CBORSerializer

        CBORSerializer()
        out.append(Entry("CBORSerializer", lambda: CBORSerializer(), _json_value, buffered=True))
    except Exception:  # noqa: BLE001
        pass
    try:
        from easynetwork.serializers.msgpack import MessagePackSerializer

        MessagePackSerializer()
        out.append(Entry("MessagePackSerializer", lambda: MessagePackSerializer(), _json_value, buffered=True))
    except Exception:  # noqa: BLE001
        pass
    return out
