"""Deterministic environment for the blocking (selector based) transports: scripted socket, scripted selector, fake clock."""

from __future__ import annotations

import errno
import selectors
import socket
import time
from collections.abc import Callable, Iterator
from contextlib import contextmanager
from typing import Any


class SpinDetected(BaseException):
    """The code under test keeps calling the socket without any progress (non-termination oracle)."""


class FakeClock:
    def __init__(self) -> None:
        self.now = 5000.0

    def __call__(self) -> float:
        return self.now


@contextmanager
def patched_clock(clock: FakeClock) -> Iterator[None]:
    orig = time.perf_counter
    time.perf_counter = clock  # type: ignore[assignment]
    try:
        yield
    finally:
        time.perf_counter = orig  # type: ignore[assignment]


class Env:
    """Shared script + log of one scenario."""

    def __init__(self, clock: FakeClock) -> None:
        self.clock = clock
        self.events: list[dict[str, Any]] = []
        self.send_script: list[tuple[Any, ...]] = []  # ("accept", k) | ("eagain",) | ("eintr",) | ("error", errno)
        self.recv_script: list[tuple[Any, ...]] = []  # ("data", bytes) | ("eagain",) | ("eintr",) | ("eof",) | ("error", errno)
        self.select_script: list[tuple[Any, ...]] = []  # ("ready", elapsed) | ("timeout",)
        self.wire = bytearray()
        self.calls_without_progress = 0
        self.spin_limit = 2000
        self.log_call: Callable[[dict[str, Any]], None] = self.events.append

    def tick(self) -> None:
        self.calls_without_progress += 1
        if self.calls_without_progress > self.spin_limit:
            raise SpinDetected(f"{self.calls_without_progress} consecutive socket/selector calls without progress")

    def progress(self) -> None:
        self.calls_without_progress = 0


class ScriptedSocket(socket.socket):
    """A real (unix) socket object whose I/O methods follow a script; nothing reaches the kernel."""

    env: Env
    hide_sendmsg = False

    @classmethod
    def create(cls, env: Env, *, hide_sendmsg: bool = False) -> "ScriptedSocket":
        a, b = socket.socketpair()
        b.close()
        s = cls(a.family, a.type, a.proto, fileno=a.detach())
        s.env = env
        s.hide_sendmsg = hide_sendmsg
        s.setblocking(False)
        return s

    def __getattribute__(self, name: str) -> Any:
        if name == "sendmsg" and object.__getattribute__(self, "hide_sendmsg"):
            raise AttributeError(name)
        return super().__getattribute__(name)

    # -- sending
    def _send_step(self, kind: str, offered: int, views: list[memoryview]) -> int:
        env = self.env
        env.tick()
        if offered == 0:
            step = ("accept", 0)  # sending nothing never blocks
        else:
            step = env.send_script.pop(0) if env.send_script else ("accept", offered)
        if step[0] == "eagain":
            env.log_call({"ev": "attempt", "api": kind, "offered": offered, "k": -1})
            raise BlockingIOError(errno.EAGAIN, "scripted EAGAIN")
        if step[0] == "eintr":
            env.log_call({"ev": "attempt", "api": kind, "offered": offered, "k": -1})
            raise InterruptedError(errno.EINTR, "scripted EINTR")
        if step[0] == "error":
            env.log_call({"ev": "attempt", "api": kind, "offered": offered, "k": -2})
            raise OSError(step[1], "scripted error")
        k = min(int(step[1]), offered)
        if offered > 0:
            k = max(k, 1)
        left = k
        for v in views:
            if left <= 0:
                break
            n = min(left, len(v))
            env.wire += bytes(v[:n])
            left -= n
        if k > 0:
            env.progress()
        env.log_call({"ev": "attempt", "api": kind, "offered": offered, "k": k})
        return k

    def send(self, data: Any, flags: int = 0) -> int:  # type: ignore[override]
        with memoryview(data) as v:
            vb = v.cast("B") if v.itemsize != 1 or v.ndim != 1 else v
            return self._send_step("send", len(vb), [vb])

    def sendmsg(self, buffers: Any, *a: Any) -> int:  # type: ignore[override]
        views = [memoryview(b).cast("B") for b in buffers]
        return self._send_step("sendmsg", sum(len(v) for v in views), views)

    # -- receiving
    def _recv_step(self, bufsize: int) -> bytes:
        env = self.env
        env.tick()
        if not env.recv_script:
            env.log_call({"ev": "recv", "k": -1})
            raise BlockingIOError(errno.EAGAIN, "scripted EAGAIN (script exhausted)")
        step = env.recv_script[0]
        if step[0] in ("eagain", "eintr"):
            env.recv_script.pop(0)
            env.log_call({"ev": "recv", "k": -1})
            raise (BlockingIOError if step[0] == "eagain" else InterruptedError)(errno.EAGAIN, "scripted")
        if step[0] == "eof":
            env.log_call({"ev": "recv", "k": 0})
            return b""
        if step[0] == "error":
            env.recv_script.pop(0)
            raise OSError(step[1], "scripted error")
        data: bytes = step[1]
        out = data[:bufsize]
        rest = data[bufsize:]
        if rest:
            env.recv_script[0] = ("data", rest)
        else:
            env.recv_script.pop(0)
        env.progress()
        env.log_call({"ev": "recv", "k": len(out)})
        return out

    def recv(self, bufsize: int, flags: int = 0) -> bytes:  # type: ignore[override]
        return self._recv_step(bufsize)

    def recv_into(self, buffer: Any, nbytes: int = 0, flags: int = 0) -> int:  # type: ignore[override]
        with memoryview(buffer) as v:
            vb = v.cast("B") if v.itemsize != 1 or v.ndim != 1 else v
            data = self._recv_step(len(vb) if not nbytes else min(nbytes, len(vb)))
            vb[: len(data)] = data
            return len(data)


class ScriptedSelector(selectors.BaseSelector):
    """select(timeout) follows env.select_script and advances the fake clock."""

    def __init__(self, env: Env) -> None:
        self.env = env
        self._keys: dict[Any, selectors.SelectorKey] = {}

    def register(self, fileobj: Any, events: int, data: Any = None) -> selectors.SelectorKey:
        fd = fileobj if isinstance(fileobj, int) else fileobj.fileno()
        key = selectors.SelectorKey(fileobj, fd, events, data)
        self._keys[fileobj] = key
        return key

    def unregister(self, fileobj: Any) -> selectors.SelectorKey:
        return self._keys.pop(fileobj)

    def get_map(self) -> Any:
        return self._keys

    def select(self, timeout: float | None = None) -> list[tuple[selectors.SelectorKey, int]]:
        env = self.env
        env.tick()
        step = env.select_script.pop(0) if env.select_script else ("ready", 0)
        key = next(iter(self._keys.values()))
        if timeout is None:
            elapsed = float(step[1]) if step[0] == "ready" else 1.0
            env.clock.now += elapsed
            env.log_call({"ev": "wait", "w": -1, "e": int(elapsed), "ready": True, "event": key.events})
            env.progress() if elapsed > 0 else None
            return [(key, key.events)]
        if step[0] == "late":
            # the selector comes back late (poll rounding, the thread was not scheduled): more time passed than was asked for
            elapsed = timeout + float(step[1])
            env.clock.now += elapsed
            env.progress()
            env.log_call({"ev": "wait", "w": timeout, "e": elapsed, "ready": True, "event": key.events})
            return [(key, key.events)]
        if step[0] == "ready":
            elapsed = min(float(step[1]), timeout)
            env.clock.now += elapsed
            if elapsed > 0:
                env.progress()
            env.log_call({"ev": "wait", "w": timeout, "e": elapsed, "ready": True, "event": key.events})
            return [(key, key.events)]
        env.clock.now += timeout
        if timeout > 0:
            env.progress()
        env.log_call({"ev": "wait", "w": timeout, "e": timeout, "ready": False, "event": key.events})
        return []
