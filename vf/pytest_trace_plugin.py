"""pytest plugin (`-p vf.pytest_trace_plugin`, PYTHONPATH=/verif) that records what the repository's OWN functional tests do to

  * the packet endpoints over a stream (AsyncStreamEndpoint, StreamEndpoint): every recv_packet / send_packet / send_eof / close call and
    how it ended - one trace per endpoint object, validated afterwards against EndpointTrace.tla;
  * the standalone servers (StandaloneTCPNetworkServer, StandaloneUDPNetworkServer): serve_forever / shutdown / server_close calls from
    whatever threads the tests use, with is_serving() / open listeners observed at the returns - one history per server object,
    validated against LifecycleTrace.tla (the specification C18 uses for its own histories).

Nothing in /repo is edited: the classes are wrapped from outside when the plugin is configured, and only in the pytest process that
loads it.  The log is written to $VERIF_TRACE_OUT at the end of the session.
"""

from __future__ import annotations

import asyncio
import functools
import itertools
import json
import os
import threading
from typing import Any

_lock = threading.Lock()
_serial = itertools.count(1)
_calls = itertools.count(1)
_obj: dict[int, int] = {}  # id(object) -> serial of the object currently living at that address
_endpoints: dict[int, dict[str, Any]] = {}
_servers: dict[int, dict[str, Any]] = {}
_current_test = [""]


def _classify(exc: BaseException, closed: bool) -> str:
    from easynetwork.exceptions import BusyResourceError

    if isinstance(exc, BusyResourceError):
        return "busy"
    if isinstance(exc, asyncio.CancelledError):
        return "cancelled"
    if isinstance(exc, TimeoutError):
        return "timeout"
    if isinstance(exc, ConnectionAbortedError) and "end-of-stream" in str(exc) and not closed:
        return "eof"
    if isinstance(exc, OSError):
        return "gone" if closed else "error:" + type(exc).__name__
    if isinstance(exc, RuntimeError) and "send_eof" in str(exc):
        return "runtime"  # (a serializer that crashes on purpose also ends in a RuntimeError: that one is "error:RuntimeError")
    return "error:" + type(exc).__name__


def _is_closed(ep: Any) -> bool:
    try:
        return bool(ep.is_closing() if hasattr(ep, "is_closing") else ep.is_closed())
    except Exception:  # noqa: BLE001
        return False


def _wrap_init(cls: Any, table: dict[int, dict[str, Any]], extra: dict[str, Any]) -> None:
    orig = cls.__init__

    @functools.wraps(orig)
    def __init__(self: Any, *a: Any, **kw: Any) -> None:
        orig(self, *a, **kw)
        with _lock:
            n = next(_serial)
            _obj[id(self)] = n
            table[n] = dict(extra, test=_current_test[0], events=[])

    cls.__init__ = __init__


def _ep_event(self: Any, **e: Any) -> None:
    with _lock:
        n = _obj.get(id(self))
        if n is not None and n in _endpoints:
            _endpoints[n]["events"].append(e)


def _wrap_endpoint_method(cls: Any, name: str, op: str, is_async: bool) -> None:
    orig = getattr(cls, name)
    if is_async:

        @functools.wraps(orig)
        async def awrapper(self: Any, *a: Any, **kw: Any) -> Any:
            c = next(_calls)
            _ep_event(self, ev="call", op=op, c=c, out="")
            try:
                r = await orig(self, *a, **kw)
            except BaseException as exc:
                _ep_event(self, ev="ret", op=op, c=c, out=_classify(exc, _is_closed(self)))
                raise
            _ep_event(self, ev="ret", op=op, c=c, out="packet" if op == "recv" else "ok")
            return r

        setattr(cls, name, awrapper)
    else:

        @functools.wraps(orig)
        def wrapper(self: Any, *a: Any, **kw: Any) -> Any:
            c = next(_calls)
            _ep_event(self, ev="call", op=op, c=c, out="")
            try:
                r = orig(self, *a, **kw)
            except BaseException as exc:
                _ep_event(self, ev="ret", op=op, c=c, out=_classify(exc, _is_closed(self)))
                raise
            _ep_event(self, ev="ret", op=op, c=c, out="packet" if op == "recv" else "ok")
            return r

        setattr(cls, name, wrapper)


# ---- standalone servers ----
def _srv_event(self: Any, kind: str, out: str = "", observe: bool = False) -> None:
    with _lock:
        n = _obj.get(id(self))
        if n is None or n not in _servers:
            return
        h = _servers[n]
        actors = h.setdefault("_actors", {})
        a = actors.setdefault(threading.get_ident(), len(actors) + 1)
        e = {"ev": kind, "a": a, "out": out, "serving": False, "listening": False}
    if observe:
        try:
            e["serving"] = bool(self.is_serving())
            e["listening"] = bool(self.get_sockets()) if hasattr(self, "get_sockets") else False
        except Exception:  # noqa: BLE001
            pass
    with _lock:
        h["events"].append(e)


class _Up:
    def __init__(self, server: Any, inner: Any) -> None:
        self.server, self.inner, self.ident = server, inner, threading.get_ident()

    def set(self) -> None:
        # set() runs in the server's event-loop thread, which is the thread that called serve_forever()
        _srv_event(self.server, "up")
        if self.inner is not None:
            self.inner.set()


def _wrap_server(cls: Any) -> None:
    from easynetwork.exceptions import ServerAlreadyRunning, ServerClosedError

    serve, shutdown, close = cls.serve_forever, cls.shutdown, cls.server_close

    @functools.wraps(serve)
    def serve_forever(self: Any, *a: Any, is_up_event: Any = None, **kw: Any) -> None:
        _srv_event(self, "serve_call")
        try:
            serve(self, *a, is_up_event=_Up(self, is_up_event), **kw)
        except ServerAlreadyRunning:
            _srv_event(self, "serve_ret", "already_running")
            raise
        except ServerClosedError:
            _srv_event(self, "serve_ret", "closed_error")
            raise
        except BaseException as exc:
            _srv_event(self, "serve_ret", "error:" + type(exc).__name__)
            raise
        _srv_event(self, "serve_ret", "returned")

    @functools.wraps(shutdown)
    def shutdown_(self: Any, *a: Any, **kw: Any) -> None:
        timed = bool(a) and a[0] is not None or kw.get("timeout") is not None
        _srv_event(self, "shutdown_call")
        try:
            shutdown(self, *a, **kw)
        except BaseException as exc:
            _srv_event(self, "shutdown_abandoned", "error:" + type(exc).__name__)
            raise
        # (a shutdown(timeout=...) that gave up waiting is not a shutdown that returned)
        _srv_event(self, "shutdown_ret" if not (timed and self.is_serving()) else "shutdown_abandoned", observe=True)

    @functools.wraps(close)
    def server_close(self: Any, *a: Any, **kw: Any) -> None:
        _srv_event(self, "close_call")
        try:
            close(self, *a, **kw)
        except BaseException as exc:
            _srv_event(self, "close_ret", "error:" + type(exc).__name__, observe=True)
            raise
        _srv_event(self, "close_ret", "returned", observe=True)

    cls.serve_forever, cls.shutdown, cls.server_close = serve_forever, shutdown_, server_close


def pytest_configure(config: Any) -> None:
    from easynetwork.lowlevel.api_async.endpoints.stream import AsyncStreamEndpoint
    from easynetwork.lowlevel.api_sync.endpoints.stream import StreamEndpoint
    from easynetwork.servers.standalone_tcp import StandaloneTCPNetworkServer
    from easynetwork.servers.standalone_udp import StandaloneUDPNetworkServer

    _wrap_init(AsyncStreamEndpoint, _endpoints, {"async": True})
    for name, op in (("recv_packet", "recv"), ("send_packet", "send"), ("send_eof", "eof"), ("aclose", "close")):
        _wrap_endpoint_method(AsyncStreamEndpoint, name, op, True)
    _wrap_init(StreamEndpoint, _endpoints, {"async": False})
    for name, op in (("recv_packet", "recv"), ("send_packet", "send"), ("send_eof", "eof"), ("close", "close")):
        _wrap_endpoint_method(StreamEndpoint, name, op, False)
    for cls, udp in ((StandaloneTCPNetworkServer, False), (StandaloneUDPNetworkServer, True)):
        _wrap_init(cls, _servers, {"udp": udp})
        _wrap_server(cls)


def pytest_runtest_setup(item: Any) -> None:
    _current_test[0] = item.nodeid


def pytest_sessionfinish(session: Any, exitstatus: Any) -> None:
    out = os.environ.get("VERIF_TRACE_OUT")
    if not out:
        return
    with _lock:
        for h in _servers.values():
            h.pop("_actors", None)
        data = {"endpoints": list(_endpoints.values()), "servers": list(_servers.values())}
    with open(out, "w") as f:
        json.dump(data, f)
