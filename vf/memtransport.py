"""In-memory asynchronous transports (streams, datagrams, listeners) with scripted fragmentation,
back-pressure, truncation and failures.  They are legitimate implementations of the library's transport ABCs,
so everything layered on top (endpoints, TLS, clients, servers) runs unmodified."""

from __future__ import annotations

import asyncio
import errno
from collections import deque
from collections.abc import Awaitable, Callable, Coroutine, Iterable, Mapping
from typing import Any

from easynetwork.lowlevel.api_async.backend.abc import AsyncBackend, TaskGroup
from easynetwork.lowlevel.api_async.transports.abc import (
    AsyncDatagramListener,
    AsyncDatagramTransport,
    AsyncListener,
    AsyncStreamTransport,
)


class MemPipe:
    """One direction of a byte stream."""

    def __init__(self, *, capacity: int | None = None, fragment: int | Callable[[], int] | None = None, cut_after: int | None = None) -> None:
        self.buf = bytearray()
        self.eof = False  # writer closed / stream cut
        self.reset: BaseException | None = None  # error to raise in the reader once the buffer is empty
        self.capacity = capacity
        self.fragment = fragment
        self.cut_after = cut_after  # deliver only the first k bytes ever written, then EOF
        self.total_written = 0
        self.total_read = 0
        self._readers: deque[asyncio.Future[None]] = deque()
        self._writers: deque[asyncio.Future[None]] = deque()
        self.log: list[bytes] = []  # every chunk written (before cut), for wire inspection
        self.hold = False  # harness gate: reader does not see data while hold is True

    # -- helpers
    def _wake(self, q: deque[asyncio.Future[None]]) -> None:
        while q:
            f = q.popleft()
            if not f.done():
                f.set_result(None)

    def wake_readers(self) -> None:
        self._wake(self._readers)

    def wake_writers(self) -> None:
        self._wake(self._writers)

    def release(self) -> None:
        self.hold = False
        self.wake_readers()

    async def _wait(self, q: deque[asyncio.Future[None]]) -> None:
        f = asyncio.get_running_loop().create_future()
        q.append(f)
        try:
            await f
        finally:
            try:
                q.remove(f)
            except ValueError:
                pass

    # -- writer side
    def feed(self, data: bytes) -> None:
        """Synchronous, unbounded write (used by harness peers)."""
        self.log.append(bytes(data))
        if self.cut_after is not None:
            room = self.cut_after - self.total_written
            self.total_written += len(data)
            data = data[: max(room, 0)]
            if self.total_written >= self.cut_after:
                self.buf += data
                self.eof = True
                self.wake_readers()
                return
        else:
            self.total_written += len(data)
        self.buf += data
        self.wake_readers()

    async def write(self, data: bytes) -> None:
        if self.capacity is None:
            if self.eof and self.cut_after is None:
                raise ConnectionResetError(errno.ECONNRESET, "peer closed")
            self.feed(data)
            return
        view = memoryview(bytes(data))
        while len(view):
            if self.eof and self.cut_after is None:
                raise ConnectionResetError(errno.ECONNRESET, "peer closed")
            room = self.capacity - len(self.buf)
            if room <= 0:
                await self._wait(self._writers)
                continue
            self.feed(bytes(view[:room]))
            view = view[room:]

    def close_write(self) -> None:
        self.eof = True
        self.wake_readers()

    # -- reader side
    def available(self) -> int:
        return 0 if self.hold else len(self.buf)

    async def read(self, n: int) -> bytes:
        while True:
            if not self.hold and self.buf:
                k = n
                frag = self.fragment() if callable(self.fragment) else self.fragment
                if frag is not None:
                    k = min(k, max(1, frag))
                data = bytes(self.buf[:k])
                del self.buf[:k]
                self.total_read += len(data)
                self.wake_writers()
                return data
            if not self.hold and self.reset is not None:
                raise self.reset
            if not self.hold and self.eof:
                return b""
            await self._wait(self._readers)


class MemStreamTransport(AsyncStreamTransport):
    def __init__(
        self,
        backend: AsyncBackend,
        rx: MemPipe,
        tx: MemPipe,
        *,
        extra: Mapping[Any, Callable[[], Any]] | None = None,
        send_hook: Callable[[bytes], Awaitable[None]] | None = None,
        recv_hook: Callable[[], Awaitable[None]] | None = None,
        close_hook: Callable[[], Awaitable[None]] | None = None,
        per_chunk: bool = True,
    ) -> None:
        super().__init__()
        self._backend = backend
        self.rx = rx
        self.tx = tx
        self._extra = dict(extra or {})
        self.send_hook = send_hook
        self.recv_hook = recv_hook
        self.close_hook = close_hook
        self.per_chunk = per_chunk
        self.closing = False
        self.closed = False
        self.close_calls = 0
        self.send_calls: list[bytes] = []
        self.eof_sent = False

    # -- AsyncBaseTransport
    async def aclose(self) -> None:
        self.close_calls += 1
        self.closing = True
        try:
            if self.close_hook is not None:
                await self.close_hook()
        finally:
            if not self.closed:
                self.closed = True
                self.tx.close_write()
                self.rx.wake_readers()
        await self._backend.coro_yield()

    def is_closing(self) -> bool:
        return self.closing

    def backend(self) -> AsyncBackend:
        return self._backend

    @property
    def extra_attributes(self) -> Mapping[Any, Callable[[], Any]]:
        return self._extra

    def _check_open(self) -> None:
        if self.closing:
            raise OSError(errno.EBADF, "transport closed")

    async def recv(self, bufsize: int) -> bytes:
        self._check_open()
        if self.recv_hook is not None:
            await self.recv_hook()
        data = await self.rx.read(bufsize)
        if self.closed:
            raise OSError(errno.ECONNABORTED, "transport closed during recv")
        return data

    async def recv_into(self, buffer: Any) -> int:
        with memoryview(buffer) as view:
            data = await self.recv(view.nbytes)
            view.cast("B")[: len(data)] = data
            return len(data)

    async def send_all(self, data: bytes | bytearray | memoryview) -> None:
        self._check_open()
        data = bytes(data)
        if self.eof_sent:
            raise OSError(errno.EPIPE, "write end closed")
        self.send_calls.append(data)
        if self.send_hook is not None:
            await self.send_hook(data)
        await self.tx.write(data)
        if self.closed:
            raise OSError(errno.ECONNABORTED, "transport closed during send")

    async def send_all_from_iterable(self, iterable_of_data: Iterable[bytes | bytearray | memoryview]) -> None:
        if not self.per_chunk:
            return await super().send_all_from_iterable(iterable_of_data)
        for chunk in list(iterable_of_data):
            await self.send_all(chunk)

    async def send_eof(self) -> None:
        self._check_open()
        self.eof_sent = True
        self.tx.close_write()
        await self._backend.coro_yield()


def stream_pair(backend: AsyncBackend, **pipe_kwargs: Any) -> tuple[MemStreamTransport, MemStreamTransport]:
    a2b = MemPipe(**pipe_kwargs)
    b2a = MemPipe(**pipe_kwargs)
    return MemStreamTransport(backend, b2a, a2b), MemStreamTransport(backend, a2b, b2a)


class MemDatagramTransport(AsyncDatagramTransport):
    def __init__(self, backend: AsyncBackend, *, extra: Mapping[Any, Callable[[], Any]] | None = None) -> None:
        super().__init__()
        self._backend = backend
        self.inbox: deque[bytes | BaseException] = deque()
        self.sent: list[bytes] = []
        self._waiters: deque[asyncio.Future[None]] = deque()
        self.closing = False
        self._extra = dict(extra or {})
        self.peer: MemDatagramTransport | None = None

    def deliver(self, item: bytes | BaseException) -> None:
        self.inbox.append(item)
        while self._waiters:
            f = self._waiters.popleft()
            if not f.done():
                f.set_result(None)

    async def recv(self) -> bytes:
        while True:
            if self.closing:
                raise OSError(errno.EBADF, "transport closed")
            if self.inbox:
                item = self.inbox.popleft()
                if isinstance(item, BaseException):
                    raise item
                return item
            f = asyncio.get_running_loop().create_future()
            self._waiters.append(f)
            try:
                await f
            finally:
                try:
                    self._waiters.remove(f)
                except ValueError:
                    pass

    async def send(self, data: bytes | bytearray | memoryview) -> None:
        if self.closing:
            raise OSError(errno.EBADF, "transport closed")
        data = bytes(data)
        self.sent.append(data)
        if self.peer is not None:
            self.peer.deliver(data)
        await self._backend.coro_yield()

    async def aclose(self) -> None:
        self.closing = True
        while self._waiters:
            f = self._waiters.popleft()
            if not f.done():
                f.set_result(None)
        await self._backend.coro_yield()

    def is_closing(self) -> bool:
        return self.closing

    def backend(self) -> AsyncBackend:
        return self._backend

    @property
    def extra_attributes(self) -> Mapping[Any, Callable[[], Any]]:
        return self._extra


class MemListener(AsyncListener[MemStreamTransport]):
    """Hands out connections pushed by the harness."""

    def __init__(self, backend: AsyncBackend, *, extra: Mapping[Any, Callable[[], Any]] | None = None) -> None:
        super().__init__()
        self._backend = backend
        self.pending: deque[Any] = deque()
        self._waiter: asyncio.Future[None] | None = None
        self.closing = False
        self._extra = dict(extra or {})
        self.serving = False

    def push(self, conn: Any) -> None:
        self.pending.append(conn)
        if self._waiter is not None and not self._waiter.done():
            self._waiter.set_result(None)

    async def serve(self, handler: Callable[[Any], Coroutine[Any, Any, None]], task_group: TaskGroup | None = None) -> Any:
        async with self._backend.create_task_group() if task_group is None else _null(task_group) as tg:
            self.serving = True
            try:
                while True:
                    if self.closing:
                        raise OSError(errno.EBADF, "listener closed")
                    while self.pending:
                        tg.start_soon(handler, self.pending.popleft())
                    self._waiter = asyncio.get_running_loop().create_future()
                    try:
                        await self._waiter
                    finally:
                        self._waiter = None
            finally:
                self.serving = False

    async def aclose(self) -> None:
        self.closing = True
        if self._waiter is not None and not self._waiter.done():
            self._waiter.set_result(None)
        await self._backend.coro_yield()

    def is_closing(self) -> bool:
        return self.closing

    def backend(self) -> AsyncBackend:
        return self._backend

    @property
    def extra_attributes(self) -> Mapping[Any, Callable[[], Any]]:
        return self._extra


class _null:
    def __init__(self, v: Any) -> None:
        self.v = v

    async def __aenter__(self) -> Any:
        return self.v

    async def __aexit__(self, *a: Any) -> None:
        return None


class MemDatagramListener(AsyncDatagramListener[Any]):
    def __init__(self, backend: AsyncBackend, *, extra: Mapping[Any, Callable[[], Any]] | None = None) -> None:
        super().__init__()
        self._backend = backend
        self.pending: deque[tuple[bytes, Any]] = deque()
        self._waiter: asyncio.Future[None] | None = None
        self.closing = False
        self.sent: list[tuple[bytes, Any]] = []
        self._extra = dict(extra or {})

    def push(self, data: bytes, addr: Any) -> None:
        self.pending.append((data, addr))
        if self._waiter is not None and not self._waiter.done():
            self._waiter.set_result(None)

    async def serve(self, handler: Callable[[bytes, Any], Coroutine[Any, Any, None]], task_group: TaskGroup | None = None) -> Any:
        async with self._backend.create_task_group() if task_group is None else _null(task_group) as tg:
            while True:
                if self.closing:
                    raise OSError(errno.EBADF, "listener closed")
                while self.pending:
                    data, addr = self.pending.popleft()
                    tg.start_soon(handler, data, addr)
                self._waiter = asyncio.get_running_loop().create_future()
                try:
                    await self._waiter
                finally:
                    self._waiter = None

    async def send_to(self, data: bytes | bytearray | memoryview, address: Any) -> None:
        if self.closing:
            raise OSError(errno.EBADF, "listener closed")
        self.sent.append((bytes(data), address))
        await self._backend.coro_yield()

    async def aclose(self) -> None:
        self.closing = True
        if self._waiter is not None and not self._waiter.done():
            self._waiter.set_result(None)
        await self._backend.coro_yield()

    def is_closing(self) -> bool:
        return self.closing

    def backend(self) -> AsyncBackend:
        return self._backend

    @property
    def extra_attributes(self) -> Mapping[Any, Callable[[], Any]]:
        return self._extra
