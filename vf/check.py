"""CLI: python -m vf.check <property id> --tier quick|thorough [--replay file]

Exit status: 0 = property held on everything explored (known findings are printed), 1 = violation
(`VIOLATION property=<id> replay=<path>`), 2 = the machinery itself failed (named clause on stderr).
"""

from __future__ import annotations

import argparse
import importlib
import json
import os
import sys
import traceback

from . import common

DRIVERS = {
    "C01": "c01_roundtrip",
    "C02": "c02_framing",
    "C03": "c03_recv_endpoint",
    "C04": "c04_send_all",
    "C05": "c05_datagram",
    "C06": "c06_parse_total",
    "C07": "c07_bound",
    "C08": "c08_tls",
    "C09": "c09_tls_truncation",
    "C10": "c10_recv_cancel",
    "C11": "c11_budget",
    "C12": "c12_send_lock",
    "C13": "c13_cancel_scope",
    "C14": "c14_close_paths",
    "C15": "c15_stream_server",
    "C16": "c16_datagram_server",
    "C17": "c17_isolation",
    "C18": "c18_lifecycle",
    "C19": "c19_connect_race",
    "C20": "c20_flow_control",
}


def main(argv: list[str] | None = None) -> int:
    ap = argparse.ArgumentParser()
    ap.add_argument("prop")
    ap.add_argument("--tier", default=os.environ.get("VERIF_TIER", "quick"), choices=["quick", "thorough"])
    ap.add_argument("--replay", default=None)
    args = ap.parse_args(argv)
    os.environ.setdefault("PYTHONHASHSEED", "0")
    try:
        common.use_repo()
        mod = importlib.import_module(f"vf.drivers.{DRIVERS[args.prop]}")
    except Exception:
        traceback.print_exc()
        print(f"MACHINERY-ERROR property={args.prop}: cannot load driver / repository", file=sys.stderr)
        return 2
    if args.replay:
        with open(args.replay) as f:
            data = json.load(f)
        return int(mod.replay(data))
    chk = common.Check(args.prop, args.tier, mod.LEVEL)
    try:
        mod.run(chk)
    except Exception as exc:
        traceback.print_exc()
        chk.machinery_errors.append(f"{type(exc).__name__}: {exc}")
    return chk.finish()


if __name__ == "__main__":
    sys.exit(main())
