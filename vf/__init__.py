"""Verification framework for EasyNetwork: TLA+ specifications bound to the implementation."""
