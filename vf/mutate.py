"""Seeded mutation of valid byte streams into hostile network input (C05 malformed datagrams, C06 totality)."""

from __future__ import annotations

import random


def mutations(valid: bytes, rng: random.Random, n: int) -> list[bytes]:
    out: list[bytes] = []
    L = len(valid)
    for _ in range(n):
        k = rng.randrange(12)
        b = bytearray(valid)
        if k == 0 and L:
            del b[rng.randrange(L) :]  # truncation
        elif k == 1 and L:
            i = rng.randrange(L)
            b[i] ^= 1 << rng.randrange(8)  # bit flip
        elif k == 2 and L:
            i = rng.randrange(L)
            b[i:i] = b[max(0, i - rng.randint(1, 4)) : i]  # duplicate a few bytes
        elif k == 3 and L:
            i = rng.randrange(L)
            del b[i : i + rng.randint(1, 3)]  # drop a few bytes (separators, header bytes ...)
        elif k == 4:
            i = rng.randrange(L + 1)
            b[i:i] = rng.choice([b"\xff", b"\xc3", b"\xe2\x82", b"\xf0\x9f", b"\x00", b"\xed\xa0\x80"])  # invalid / partial UTF-8
        elif k == 5:
            i = rng.randrange(L + 1)
            b[i:i] = rng.choice([b"\n", b"\r\n", b"\r", b"|;|", b"\n\n"])  # extra separators
        elif k == 6 and L:
            for _ in range(rng.randint(2, 6)):
                b[rng.randrange(L)] = rng.randrange(256)  # several random bytes
        elif k == 7:
            b = bytearray(rng.randrange(256) for _ in range(rng.randint(0, 40)))  # pure noise
        elif k == 8 and L:
            i = rng.randrange(L)
            b[i:i] = rng.choice([b"=", b"==", b"!", b"*", b"A"])  # bad base64 quanta
        elif k == 9:
            b = bytearray(valid * rng.randint(2, 3))[: rng.randint(1, max(1, 3 * L))]  # repeated / overlapping frames
        elif k == 10 and L:
            i, j = sorted((rng.randrange(L), rng.randrange(L)))
            b[i:j] = bytes(reversed(b[i:j]))
        else:
            b = bytearray(valid) + bytearray(rng.randrange(256) for _ in range(rng.randint(1, 8)))  # trailing garbage
        out.append(bytes(b))
    return out


def single_byte_sweep(valid: bytes, stride: int = 1) -> list[bytes]:
    """Every position (or every stride-th) x a small alphabet of replacement bytes: deterministic, so that 'the one byte that matters'
    (a digit turned into 0, a length byte, an opcode) is always hit."""
    out: list[bytes] = []
    for i in range(0, len(valid), stride):
        for v in {0x00, 0x30, 0x29, 0xFF, valid[i] ^ 0x01, valid[i] ^ 0x20, (valid[i] + 1) & 0xFF}:
            if v != valid[i]:
                b = bytearray(valid)
                b[i] = v
                out.append(bytes(b))
    return out


def extreme_inputs(rng: random.Random, limit: int) -> list[bytes]:
    """Structurally extreme input up to the configured limit: deep nesting, very long tokens."""
    depth = min(limit // 2 - 8, 30000)
    out = [
        b"[" * depth + b"]" * depth + b"\n",
        b"[" * depth,
        b'{"a":' * min(depth // 3, 8000) + b"1" + b"}" * min(depth // 3, 8000) + b"\n",
        b'"' + b"a" * (limit - 8) + b'"\n',
        b"1" * (limit - 8) + b"\n",
        b'"' + b"\\" * (limit // 2) + b'"\n',
        b" " * (limit - 8) + b"\n",
        b"\n" * 500,
        b"x" * (limit + 50),
        b"-" * 1000 + b"\n",
        b"[" + b"1," * (limit // 4) + b"1]\n",
    ]
    return out
