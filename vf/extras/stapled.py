"""Stapled.tla bound to the four stapled transports (AsyncStapledStreamTransport, AsyncStapledDatagramTransport, StapledStreamTransport,
StapledDatagramTransport) by replaying every edge of the TLC state graph: the halves are contract-abiding transports owned by the harness
(their own close may return, raise, or be interrupted by the caller's cancellation), the composite is the real one, and after every action the
projection {state of each half, chunks written / delivered, outcome of the call, is_closing()} must equal the specification's state.  Calls that
reach the wrong half (possible when the send half is itself a full-duplex transport) are counted and must stay at zero."""

from __future__ import annotations

import asyncio
import os
import tempfile
from typing import Any

from .. import graph, tlc


class _Closed(Exception):
    pass


class _Err(Exception):
    pass


class _Shared:
    """What the harness knows about the two halves."""

    def __init__(self) -> None:
        self.sh = "open"
        self.rh = "open"
        self.written = 0
        self.fed = 0
        self.delivered = 0
        self.stray = 0
        self.fs = "ok"
        self.fr = "ok"
        self.eof_supported = True

    # --- send half
    def s_write(self) -> None:
        if self.sh == "closed":
            raise _Closed()
        if self.sh == "eof":
            raise _Err("write after send_eof")
        self.written += 1

    def s_eof(self) -> None:
        from easynetwork.exceptions import UnsupportedOperation

        if not self.eof_supported:
            raise UnsupportedOperation("no half-close here")
        if self.sh == "closed":
            raise _Closed()
        self.sh = "eof"

    # --- receive half
    def r_read(self) -> bytes:
        if self.rh == "closed":
            raise _Closed()
        if self.delivered < self.fed:
            self.delivered += 1
            return b"x"
        return b""


def _async_classes() -> dict[str, Any]:
    from easynetwork.lowlevel.api_async.backend._asyncio.backend import AsyncIOBackend
    from easynetwork.lowlevel.api_async.transports import abc as tr

    backend = AsyncIOBackend()

    class Base:
        def __init__(self, sh: _Shared, side: str) -> None:
            self.s = sh
            self.side = side

        async def aclose(self) -> None:
            fault = self.s.fs if self.side == "S" else self.s.fr
            if self.side == "S":
                self.s.sh = "closed"
            else:
                self.s.rh = "closed"
            if fault == "raise":
                raise _Err(f"close of half {self.side}")
            if fault == "cancel":
                task = asyncio.current_task()
                assert task is not None
                task.cancel()
                await asyncio.sleep(0)

        def is_closing(self) -> bool:
            return (self.s.sh if self.side == "S" else self.s.rh) == "closed"

        def backend(self) -> Any:
            return backend

        @property
        def extra_attributes(self) -> Any:
            return {}

    class SW(Base, tr.AsyncStreamWriteTransport):
        async def send_all(self, data: Any) -> None:
            self.s.s_write()

    class SR(Base, tr.AsyncStreamReadTransport):
        async def recv_into(self, buffer: Any) -> int:
            if self.side == "S":
                self.s.stray += 1
                return 0
            data = self.s.r_read()
            memoryview(buffer)[: len(data)] = data
            return len(data)

    class SFull(Base, tr.AsyncStreamTransport):
        async def send_all(self, data: Any) -> None:
            if self.side == "R":
                self.s.stray += 1
                return
            self.s.s_write()

        async def recv_into(self, buffer: Any) -> int:
            if self.side == "S":
                self.s.stray += 1
                return 0
            data = self.s.r_read()
            memoryview(buffer)[: len(data)] = data
            return len(data)

        async def send_eof(self) -> None:
            if self.side == "R":
                self.s.stray += 1
                return
            self.s.s_eof()

    class DW(Base, tr.AsyncDatagramWriteTransport):
        async def send(self, data: Any) -> None:
            self.s.s_write()

    class DR(Base, tr.AsyncDatagramReadTransport):
        async def recv(self) -> bytes:
            return self.s.r_read()

    class DFull(Base, tr.AsyncDatagramTransport):
        async def send(self, data: Any) -> None:
            if self.side == "R":
                self.s.stray += 1
                return
            self.s.s_write()

        async def recv(self) -> bytes:
            if self.side == "S":
                self.s.stray += 1
                return b""
            return self.s.r_read()

    return {"SW": SW, "SR": SR, "SFull": SFull, "DW": DW, "DR": DR, "DFull": DFull}


def _sync_classes() -> dict[str, Any]:
    from easynetwork.lowlevel.api_sync.transports import abc as tr

    class Base:
        def __init__(self, sh: _Shared, side: str) -> None:
            self.s = sh
            self.side = side

        def close(self) -> None:
            fault = self.s.fs if self.side == "S" else self.s.fr
            if self.side == "S":
                self.s.sh = "closed"
            else:
                self.s.rh = "closed"
            if fault == "raise":
                raise _Err(f"close of half {self.side}")

        def is_closed(self) -> bool:
            return (self.s.sh if self.side == "S" else self.s.rh) == "closed"

        @property
        def extra_attributes(self) -> Any:
            return {}

    class SW(Base, tr.StreamWriteTransport):
        def send(self, data: Any, timeout: float) -> int:
            self.s.s_write()
            return len(data)

    class SR(Base, tr.StreamReadTransport):
        def recv_into(self, buffer: Any, timeout: float) -> int:
            data = self.s.r_read()
            memoryview(buffer)[: len(data)] = data
            return len(data)

    class SFull(Base, tr.StreamTransport):
        def send(self, data: Any, timeout: float) -> int:
            if self.side == "R":
                self.s.stray += 1
                return len(data)
            self.s.s_write()
            return len(data)

        def recv_into(self, buffer: Any, timeout: float) -> int:
            if self.side == "S":
                self.s.stray += 1
                return 0
            data = self.s.r_read()
            memoryview(buffer)[: len(data)] = data
            return len(data)

        def send_eof(self) -> None:
            if self.side == "R":
                self.s.stray += 1
                return
            self.s.s_eof()

    class DW(Base, tr.DatagramWriteTransport):
        def send(self, data: Any, timeout: float) -> None:
            self.s.s_write()

    class DR(Base, tr.DatagramReadTransport):
        def recv(self, timeout: float) -> bytes:
            return self.s.r_read()

    class DFull(Base, tr.DatagramTransport):
        def send(self, data: Any, timeout: float) -> None:
            if self.side == "R":
                self.s.stray += 1
                return
            self.s.s_write()

        def recv(self, timeout: float) -> bytes:
            if self.side == "S":
                self.s.stray += 1
                return b""
            return self.s.r_read()

    return {"SW": SW, "SR": SR, "SFull": SFull, "DW": DW, "DR": DR, "DFull": DFull}


class Impl:
    def __init__(self, mode: str, kind: str, full: bool, eof_supported: bool) -> None:
        self.mode, self.kind = mode, kind
        self.s = _Shared()
        self.s.eof_supported = eof_supported
        self.last = "none"
        self.ncalls = 0
        if mode == "async":
            from easynetwork.lowlevel.api_async.transports import composite

            cls = _async_classes()
            self.loop: asyncio.AbstractEventLoop | None = asyncio.new_event_loop()
            comp = composite.AsyncStapledStreamTransport if kind == "stream" else composite.AsyncStapledDatagramTransport
        else:
            from easynetwork.lowlevel.api_sync.transports import composite  # type: ignore[no-redef]

            cls = _sync_classes()
            self.loop = None
            comp = composite.StapledStreamTransport if kind == "stream" else composite.StapledDatagramTransport  # type: ignore[attr-defined]
        p = "S" if kind == "stream" else "D"
        send_half = cls[p + "Full"](self.s, "S") if full else cls[p + "W"](self.s, "S")
        # the receive half is a full transport too when the send half is: a call misdirected either way is seen
        recv_half = cls[p + "Full"](self.s, "R") if full else cls[p + "R"](self.s, "R")
        self.t = comp(send_half, recv_half)

    def _run(self, fn: Any, *args: Any) -> Any:
        """Returns the value; sets self.last for failures."""
        try:
            if self.loop is not None:

                async def call() -> Any:
                    return await fn(*args)

                task = self.loop.create_task(call())
                try:
                    self.loop.run_until_complete(task)
                except asyncio.CancelledError:
                    self.last = "cancelled"
                    return None
                return task.result()
            return fn(*args)
        except _Closed:
            self.last = "closed"
        except _Err:
            self.last = "err"
        return None

    def apply(self, action: str, args: tuple[Any, ...]) -> None:
        t, sync = self.t, self.mode == "sync"
        tm = (1.0,) if sync else ()
        self.ncalls += 1
        if action == "Feed":
            self.s.fed += 1
        elif action == "Send":
            self.last = "ok"
            if self.kind == "datagram":
                self._run(t.send, b"x", *tm)
            elif self.ncalls % 3 == 0:
                self._run(t.send_all, b"x", *tm)
            elif self.ncalls % 3 == 1:
                self._run(t.send_all_from_iterable, [b"x"], *tm)
            elif sync:
                self._run(t.send, b"x", *tm)
            else:
                self._run(t.send_all, memoryview(b"x"), *tm)
        elif action == "Recv":
            self.last = "?"
            if self.kind == "datagram":
                r = self._run(t.recv, *tm)
            elif self.ncalls % 2 == 0:
                r = self._run(t.recv, 16, *tm)
            else:
                buf = bytearray(16)
                n = self._run(t.recv_into, buf, *tm)
                r = None if n is None else bytes(buf[:n])
            if self.last == "?":
                self.last = "data" if r == b"x" else ("eof" if r == b"" else f"unexpected {r!r}")
        elif action == "SendEof":
            self.last = "ok"
            self._run(t.send_eof)
        elif action == "Close":
            self.s.fs, self.s.fr = (("ok", "raise", "cancel")[a] for a in args)
            self.last = "ok"
            self._run(t.aclose if not sync else t.close)
            self.s.fs = self.s.fr = "ok"
        else:
            raise AssertionError(action)

    def project(self) -> dict[str, Any]:
        closing = self.t.is_closed() if self.mode == "sync" else self.t.is_closing()
        return {"sh": self.s.sh, "rh": self.s.rh, "written": self.s.written, "delivered": self.s.delivered, "last": self.last, "closing": closing, "stray": self.s.stray}

    def close(self) -> None:
        if self.loop is not None:
            self.loop.close()


def _spec_projection(st: dict[str, Any]) -> dict[str, Any]:
    return {
        "sh": st["sh"],
        "rh": st["rh"],
        "written": st["written"],
        "delivered": st["delivered"],
        "last": st["last"],
        "closing": st["sh"] == "closed" and st["rh"] == "closed",
        "stray": 0,
    }


CONFIGS = [
    # kind, FullDuplex, EofSupported
    ("stream", True, True),
    ("stream", True, False),
    ("stream", False, False),
    ("datagram", True, False),
    ("datagram", False, False),
]


def run(tier: str, seed: int) -> dict[str, Any]:
    report: dict[str, Any] = {
        "name": "Stapled",
        "target": "easynetwork lowlevel stapled transports (async and blocking, stream and datagram) over harness-owned halves",
        "violations": [],
        "model": {},
        "replay": {},
    }
    maxdata = "2" if tier == "quick" else "3"
    for mode in ("async", "sync"):
        for kind, full, eofs in CONFIGS:
            key = f"{mode}/{kind}/{'duplex' if full else 'simplex'}{'/eof' if eofs else ''}"
            consts = {
                "Kind": f'"{kind}"',
                "FullDuplex": "TRUE" if full else "FALSE",
                "EofSupported": "TRUE" if eofs else "FALSE",
                "SendFaults": "{0, 1, 2}" if mode == "async" else "{0, 1}",
                "RecvFaults": "{0, 1}",
                "MaxData": maxdata,
            }
            with tempfile.TemporaryDirectory(prefix="vf_st_") as d:
                cfg = os.path.join(d, "mc.cfg")
                tlc.write_cfg(
                    cfg,
                    spec="Spec",
                    constants=consts,
                    invariants=["TypeOK", "CloseIsTotal", "NothingInvented"],
                    properties=["EofLeavesReceiveAlone", "NoWriteOnceEnded", "ClosedIsFinal", "ClosedAnswers"],
                    check_deadlock=False,
                )
                res = tlc.run_tlc("Stapled", cfg, timeout=300)
                report["model"][key] = {"constants": consts, "distinct_states": res.distinct, "ok": res.ok, "violation": res.violation}
                if not res.ok:
                    report["violations"].append(f"TLC ({key}): {res.violation}")
                    continue
                cfg2 = os.path.join(d, "dump.cfg")
                tlc.write_cfg(cfg2, spec="Spec", constants=consts, check_deadlock=False)
                g, _ = graph.dump_graph("Stapled", cfg2, timeout=300)
            paths = graph.edge_cover_paths(g, max_len=12, seed=seed)
            ncmp = nbad = 0
            for root, path in paths:
                impl = Impl(mode, kind, full, eofs)
                done: list[str] = []
                try:
                    for action, args, dst in path:
                        done.append(f"{action}({', '.join(map(str, args))})")
                        impl.apply(action, args)
                        got, want = impl.project(), _spec_projection(g.states[dst])
                        ncmp += 1
                        if got != want:
                            raise AssertionError(f"implementation {got} / specification {want}")
                except AssertionError as exc:
                    nbad += 1
                    if nbad <= 3:
                        report["violations"].append(f"{key}: after {' '.join(done)}: {exc}")
                except Exception as exc:  # noqa: BLE001
                    nbad += 1
                    if nbad <= 3:
                        report["violations"].append(f"{key}: after {' '.join(done)}: unexpected {exc!r}")
                finally:
                    impl.close()
            report["replay"][key] = {
                "graph_states": len(g.states),
                "graph_edges": g.nedges,
                "behaviours": len(paths),
                "comparisons": ncmp,
                "diverging_behaviours": nbad,
            }
    return report
