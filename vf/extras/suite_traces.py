"""The repository's own functional tests as a source of traces (the CCF recipe: the tests already exercise the code, their assertions
are what is weak).  The client, end-to-end and standalone-server test modules of the pinned suite run in a pytest subprocess with
vf/pytest_trace_plugin.py loaded; every packet endpoint and every standalone server the tests create yields one trace, validated by TLC
against EndpointTrace.tla and LifecycleTrace.tla.  A test failing for reasons of its own does not matter here: only the traces are judged.
"""

from __future__ import annotations

import json
import os
import subprocess
import tempfile
from typing import Any

from .. import common, traces

TRACE_CFG = "INIT TInit\nNEXT TNext\nCONSTRAINT Constr\nPOSTCONDITION Post\nCHECK_DEADLOCK FALSE\n"
MODULES = [
    "tests/functional_test/test_communication/test_sync/test_server/test_standalone.py",
    "tests/functional_test/test_communication/test_sync/test_client/test_tcp.py",
    "tests/functional_test/test_communication/test_async/test_client/test_tcp.py",
    "tests/functional_test/test_communication/test_end2end.py",
]
EP_EVD = {"ev": "", "op": "", "c": 0, "out": ""}
SRV_EVD = {"ev": "", "a": 0, "out": "", "serving": False, "listening": False}


def run(tier: str, seed: int) -> dict[str, Any]:
    report: dict[str, Any] = {
        "name": "SuiteTraces",
        "target": "traces recorded from the repository's own functional tests (packet endpoints -> EndpointTrace, standalone servers -> LifecycleTrace)",
        "violations": [],
        "model": {},
        "replay": {},
    }
    repo = common.REPO  # the package under test (may be a scratch copy: VERIF_REPO)
    tests_root = "/repo"  # the tests always come from /repo
    with tempfile.TemporaryDirectory(prefix="vf_suite_") as d:
        out = os.path.join(d, "traces.json")
        env = dict(os.environ, VERIF_TRACE_OUT=out, PYTHONPATH=os.pathsep.join([os.path.join(repo, "src"), common.VERIF, os.environ.get("PYTHONPATH", "")]))
        cmd = ["/venv/bin/python", "-m", "pytest", "-q", "-p", "no:cacheprovider", "-p", "vf.pytest_trace_plugin", "--timeout=300", *MODULES]
        try:
            p = subprocess.run(cmd, cwd=tests_root, env=env, capture_output=True, text=True, timeout=2400)
            summary = (p.stdout.strip().splitlines() or ["?"])[-1]
        except subprocess.TimeoutExpired:
            report["violations"].append("pytest did not finish within 2400 s")
            return report
        if not os.path.exists(out):
            report["violations"].append(f"the trace plugin wrote nothing (pytest: {summary})")
            return report
        data = json.load(open(out))
    report["replay"]["pytest"] = summary
    if len(data["endpoints"]) < 50 or len(data["servers"]) < 10:
        report["violations"].append(f"only {len(data['endpoints'])} endpoint traces and {len(data['servers'])} server histories were recorded (pytest: {summary})")
    # ---- endpoints ----
    eps = [t for t in data["endpoints"] if t["events"]]
    slim = [{"async": bool(t["async"]), "events": traces.uniform(t["events"], EP_EVD)} for t in eps]
    res = traces.validate("EndpointTrace", slim, cfg_text=TRACE_CFG, parallel=4, chunk=200)
    outs: dict[str, int] = {}
    for t in eps:
        for e in t["events"]:
            if e["ev"] == "ret":
                outs[e["op"] + ":" + e["out"]] = outs.get(e["op"] + ":" + e["out"], 0) + 1
    report["replay"]["endpoints"] = {"traces": len(eps), "events": res.nevents, "rejected": len(res.rejected), "answers": outs, "tlc_states": res.tlc.distinct}
    for idx, pos in sorted(res.rejected.items())[:10]:
        t = eps[idx]
        report["violations"].append(f"endpoint trace of {t['test']}: event #{pos} {t['events'][pos - 1] if 0 < pos <= len(t['events']) else None} is not allowed by EndpointTrace; events={[(e['ev'], e['op'], e['c'], e['out']) for e in t['events']][:40]}")
    # ---- standalone servers ----
    srvs = []
    skipped = 0
    for t in data["servers"]:
        evs = [e for e in t["events"] if e["ev"] != "shutdown_abandoned"]
        if not evs:
            continue
        if any(e["out"].startswith("error:") for e in evs):
            skipped += 1  # the test made serve_forever / server_close fail on purpose: not a lifecycle answer the laws speak about
            continue
        srvs.append(dict(t, events=evs))
    slim = [{"events": traces.uniform(t["events"], SRV_EVD)} for t in srvs]
    res2 = traces.validate("LifecycleTrace", slim, cfg_text=TRACE_CFG, parallel=4, chunk=200)
    report["replay"]["standalone_servers"] = {"histories": len(srvs), "skipped_injected_failures": skipped, "events": res2.nevents, "rejected": len(res2.rejected), "tlc_states": res2.tlc.distinct}
    for idx, pos in sorted(res2.rejected.items())[:10]:
        t = srvs[idx]
        report["violations"].append(f"server history of {t['test']}: event #{pos} {t['events'][pos - 1] if 0 < pos <= len(t['events']) else None} violates LifecycleTrace; events={[(e['ev'], e['a'], e['out'], e['serving'], e['listening']) for e in t['events']]}")
    return report
