"""Specifications beyond the twenty listed properties (growth of the model over the rest of the library).  Run with
`python -m vf.extra`; their results never raise a property alarm: they are reported under their own names."""
