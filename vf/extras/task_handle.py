"""TaskHandle.tla bound to the Task objects of the asyncio backend (TaskGroup.start) by exact replay of TLC behaviours, one model
per way of waiting (join / join_or_cancel / wait): see future_bridge.py for the scheme (environment actions performed one or two at a
time inside one loop iteration, then the loop runs to quiescence, then the projections are compared)."""

from __future__ import annotations

import asyncio
import os
import tempfile
from typing import Any

from .. import graph, tlc
from .future_bridge import _macro_paths as _generic_macro_paths  # noqa: F401  (same walk, different action names)

ENV = {"Finish", "CancelTask", "CancelWaiter"}
STEPS = {"TaskStep", "WaiterStep"}


class Impl:
    def __init__(self, op: str) -> None:
        from easynetwork.lowlevel.api_async.backend._asyncio.backend import AsyncIOBackend

        self.loop = asyncio.new_event_loop()
        self.op = op
        self.body: asyncio.Future[str] | None = None
        self.handle: Any = None
        self.waiter: asyncio.Task[Any] | None = None
        self.outcome = "waiting"
        self.tsk = "running"
        backend = AsyncIOBackend()

        async def body() -> str:
            self.body = self.loop.create_future()
            try:
                r = await self.body
                self.tsk = "result"
                return r
            except asyncio.CancelledError:
                self.tsk = "cancelled"
                raise
            except ValueError:
                self.tsk = "error"
                raise

        async def waiter() -> None:
            try:
                if op == "join":
                    await self.handle.join()
                    self.outcome = "ret_result"
                elif op == "joc":
                    await self.handle.join_or_cancel()
                    self.outcome = "ret_result"
                else:
                    r = await self.handle.wait()
                    self.outcome = "ret_none" if r is None else "ret_other"
            except asyncio.CancelledError:
                self.outcome = "cancelled"
            except ValueError:
                self.outcome = "ret_error"

        async def main() -> None:
            try:
                async with backend.create_task_group() as tg:
                    self.handle = await tg.start(body)
                    self.waiter = self.loop.create_task(waiter())
                    await self.stop.wait()
            except BaseException:  # noqa: BLE001  (the body's ValueError leaves the group as an ExceptionGroup)
                pass

        self.stop = asyncio.Event()
        self.main = self.loop.create_task(main())
        self.settle()

    def settle(self) -> None:
        for _ in range(25):
            self.loop.run_until_complete(asyncio.sleep(0))

    def apply(self, action: str, args: tuple[Any, ...]) -> None:
        assert self.body is not None and self.waiter is not None
        if action == "Finish":
            if args[0] == "result":
                self.body.set_result("R")
            else:
                self.body.set_exception(ValueError("E"))
        elif action == "CancelTask":
            self.handle.cancel()
        elif action == "CancelWaiter":
            self.waiter.cancel()
        else:
            raise AssertionError(action)

    def project(self) -> dict[str, Any]:
        return {"tsk": self.tsk if self.handle.done() else "running", "w": self.outcome}

    def close(self) -> None:
        try:
            self.stop.set()
            if self.handle is not None and not self.handle.done():
                self.handle.cancel()
            if self.waiter is not None and not self.waiter.done():
                self.waiter.cancel()
            self.settle()
        finally:
            self.loop.close()


def _macro_paths(g: graph.Graph) -> list[list[tuple[str, tuple[Any, ...], int]]]:
    def closure(n: int) -> int:
        # TaskStep / WaiterStep until none is enabled; the model is confluent for these two (checked by TLC: a single quiescent successor)
        seen = 0
        while True:
            nxt = [v for a, _args, v in g.out[n] if a in STEPS]
            if not nxt or seen > 20:
                return n
            n = nxt[0]
            seen += 1

    out: list[list[tuple[str, tuple[Any, ...], int]]] = []

    def rec(n: int, prefix: list[tuple[str, tuple[Any, ...], int]], depth: int) -> None:
        envs = [(a, args, v) for a, args, v in g.out[n] if a in ENV]
        if not envs or depth > 5:
            if prefix:
                out.append(prefix)
            return
        for a, args, v in envs:
            rec(closure(v), prefix + [(a, args, -1), ("settle", (), closure(v))], depth + 1)
            for a2, args2, v2 in [(x, y, z) for x, y, z in g.out[v] if x in ENV]:
                rec(closure(v2), prefix + [(a, args, -1), (a2, args2, -1), ("settle", (), closure(v2))], depth + 1)

    rec(closure(g.init[0]), [], 0)
    return out


def run(tier: str, seed: int) -> dict[str, Any]:
    report: dict[str, Any] = {"name": "TaskHandle", "target": "easynetwork asyncio backend: Task.join / join_or_cancel / wait", "violations": [], "model": {}, "replay": {}}
    for op in ("join", "joc", "wait"):
        with tempfile.TemporaryDirectory(prefix="vf_th_") as d:
            cfg = os.path.join(d, "mc.cfg")
            consts = {"Op": f'"{op}"'}
            tlc.write_cfg(cfg, spec="Spec", constants=consts, invariants=["ShieldedWaits", "Faithful", "JocWaitsForTheTask"], properties=["Answers"], check_deadlock=False)
            res = tlc.run_tlc("TaskHandle", cfg, timeout=300)
            report["model"][op] = {"distinct_states": res.distinct, "ok": res.ok, "violation": res.violation}
            if not res.ok:
                report["violations"].append(f"TLC ({op}): {res.violation}")
                continue
            cfg2 = os.path.join(d, "dump.cfg")
            tlc.write_cfg(cfg2, spec="Spec", constants=consts, check_deadlock=False)
            g, _ = graph.dump_graph("TaskHandle", cfg2)
        paths = _macro_paths(g)
        ncmp = 0
        for path in paths:
            impl = Impl(op)
            done: list[str] = []
            try:
                for action, args, dst in path:
                    if action == "settle":
                        impl.settle()
                        st = g.states[dst]
                        got, want = impl.project(), {"tsk": st["tsk"], "w": st["w"]}
                        ncmp += 1
                        if got != want:
                            report["violations"].append(f"{op}: after {' '.join(done)}: implementation {got} / specification {want}")
                            break
                    else:
                        done.append(f"{action}({', '.join(map(str, args))})")
                        impl.apply(action, args)
            except AssertionError as exc:
                report["violations"].append(f"{op}: after {' '.join(done)}: {exc!r}")
            finally:
                impl.close()
        report["replay"][op] = {"graph_states": len(g.states), "behaviours": len(paths), "comparisons": ncmp}
    return report
