"""FutureBridge.tla bound to lowlevel.futures.unwrap_future by exact replay of TLC behaviours.

TLC explores the model (future states x task states x cancellation requests, all interleavings) and dumps its state graph.  Every
behaviour that a harness can realise - environment actions (worker starts / finishes the future, executor cancels it, task.cancel())
performed one or two at a time inside one event-loop iteration, then the loop runs until the waiting task is suspended again - is
executed on the real unwrap_future() with a hand-driven concurrent.futures.Future, and the projection of the real state (future
state, outcome of the call, whether a rejected cancellation is handed back at the next checkpoint) is compared with the model state.
The same behaviours are run once more with the future completed from another thread (the threads-portal path of the callback).
"""

from __future__ import annotations

import asyncio
import concurrent.futures
import os
import tempfile
import threading
from typing import Any

from .. import graph, tlc

ENV = {"Start", "Finish", "ExtCancel", "CancelReq"}


class Impl:
    def __init__(self, threaded: bool) -> None:
        from easynetwork.lowlevel.api_async.backend._asyncio.backend import AsyncIOBackend
        from easynetwork.lowlevel.futures import unwrap_future

        self.threaded = threaded
        self.loop = asyncio.new_event_loop()
        self.fut: concurrent.futures.Future[str] = concurrent.futures.Future()
        self.outcome = "pending"
        self.later_cancel = False
        backend = AsyncIOBackend()

        async def runner() -> None:
            try:
                await unwrap_future(self.fut, backend)
                self.outcome = "ret_result"
            except asyncio.CancelledError:
                self.outcome = "cancelled"
                return
            except concurrent.futures.CancelledError:
                self.outcome = "fut_cancelled"
            except ValueError:
                self.outcome = "ret_error"
            try:
                await asyncio.sleep(0)  # the next checkpoint: a rejected cancellation comes back here
                await asyncio.sleep(0)
            except asyncio.CancelledError:
                self.later_cancel = True

        self.task = self.loop.create_task(runner())
        self.settle()

    def settle(self) -> None:
        if self.threaded:
            self.loop.run_until_complete(asyncio.sleep(0.01))
        for _ in range(25):
            self.loop.run_until_complete(asyncio.sleep(0))

    def apply(self, action: str, args: tuple[Any, ...]) -> None:
        if action == "Start":
            assert self.fut.set_running_or_notify_cancel()
        elif action == "Finish":
            fn = (lambda: self.fut.set_result("R")) if args[0] == "result" else (lambda: self.fut.set_exception(ValueError("E")))
            if self.threaded:
                t = threading.Thread(target=fn)
                t.start()
                t.join()
            else:
                fn()
        elif action == "ExtCancel":
            assert self.fut.cancel()
        elif action == "CancelReq":
            self.task.cancel()
        else:
            raise AssertionError(action)

    def project(self) -> dict[str, Any]:
        f = self.fut
        if f.cancelled():
            fs = "cancelled"
        elif f.running():
            fs = "running"
        elif f.done():
            fs = "error" if f.exception() is not None else "result"
        else:
            fs = "pending"
        return {"fut": fs, "task": self.outcome, "deferred_seen": self.later_cancel}

    def close(self) -> None:
        try:
            if not self.task.done():
                if not self.fut.done():
                    self.fut.cancel()
                self.task.cancel()
                self.settle()
        finally:
            self.loop.close()


def _spec_projection(st: dict[str, Any]) -> dict[str, Any]:
    task = st["task"]
    terminal = task in ("ret_result", "ret_error", "cancelled", "fut_cancelled")
    return {
        "fut": st["fut"],
        "task": task if terminal else "pending",
        # a rejected cancellation is handed back at the checkpoint that follows the call (only observable once the call has returned)
        "deferred_seen": bool(st["deferred"]) and task in ("ret_result", "ret_error"),
    }


def _macro_paths(g: graph.Graph) -> list[list[tuple[str, tuple[Any, ...], int]]]:
    """Behaviours of the form (1 or 2 environment actions without a task step in between, then task steps until none is enabled)*."""

    def step_closure(n: int) -> tuple[int, int]:
        k = 0
        while True:
            nxt = [v for a, _args, v in g.out[n] if a == "Step"]
            if not nxt:
                return n, k
            n = nxt[0]
            k += 1

    out: list[list[tuple[str, tuple[Any, ...], int]]] = []

    def rec(n: int, prefix: list[tuple[str, tuple[Any, ...], int]], depth: int) -> None:
        envs = [(a, args, v) for a, args, v in g.out[n] if a in ENV]
        if not envs or depth > 6:
            if prefix:
                out.append(prefix)
            return
        for a, args, v in envs:
            q, _ = step_closure(v)
            rec(q, prefix + [(a, args, -1), ("settle", (), q)], depth + 1)
            for a2, args2, v2 in [(x, y, z) for x, y, z in g.out[v] if x in ENV]:
                q2, _ = step_closure(v2)
                rec(q2, prefix + [(a, args, -1), (a2, args2, -1), ("settle", (), q2)], depth + 1)

    root, _ = step_closure(g.init[0])
    rec(root, [], 0)
    return out


def run(tier: str, seed: int) -> dict[str, Any]:
    report: dict[str, Any] = {"name": "FutureBridge", "target": "easynetwork.lowlevel.futures.unwrap_future", "violations": []}
    with tempfile.TemporaryDirectory(prefix="vf_fb_") as d:
        cfg = os.path.join(d, "mc.cfg")
        consts = {"MaxCancels": "2" if tier == "quick" else "3"}
        tlc.write_cfg(cfg, spec="Spec", constants=consts, invariants=["NoEarlyReturn", "AcceptedMeansFutureCancelled", "RunningIsAwaited", "RejectedIsDeferred"], properties=["Answers"], check_deadlock=False)
        res = tlc.run_tlc("FutureBridge", cfg, timeout=300)
        report["model"] = {"constants": consts, "distinct_states": res.distinct, "ok": res.ok, "violation": res.violation}
        if not res.ok:
            report["violations"].append(f"TLC: {res.violation}")
            return report
        cfg2 = os.path.join(d, "dump.cfg")
        tlc.write_cfg(cfg2, spec="Spec", constants=consts, check_deadlock=False)
        g, _ = graph.dump_graph("FutureBridge", cfg2)
    paths = _macro_paths(g)
    nsteps = 0
    for threaded in (False, True):
        for path in paths:
            if threaded and any(path[i][0] in ENV and path[i + 1][0] in ENV for i in range(len(path) - 1)):
                continue  # two actions inside one loop iteration cannot be arranged from another thread
            impl = Impl(threaded)
            done: list[str] = []
            try:
                for action, args, dst in path:
                    if action == "settle":
                        impl.settle()
                        got, want = impl.project(), _spec_projection(g.states[dst])
                        nsteps += 1
                        if got != want:
                            report["violations"].append(f"{'threaded ' if threaded else ''}after {' '.join(done)}: implementation {got} / specification {want}")
                            break
                    else:
                        done.append(f"{action}({', '.join(map(str, args))})")
                        impl.apply(action, args)
            except AssertionError as exc:
                report["violations"].append(f"after {' '.join(done)}: {exc!r}")
            finally:
                impl.close()
    report["replay"] = {"graph_states": len(g.states), "graph_edges": g.nedges, "behaviours": len(paths), "comparisons": nsteps, "threaded_variant": True}
    return report
