"""Endpoint.tla bound to the packet endpoints over a connected stream by exact replay of TLC behaviours.

Four implementations of the same specification: AsyncStreamEndpoint on the asyncio backend's stream transport (Async = TRUE) and the blocking
StreamEndpoint on SocketStreamTransport called with timeout = 0 (Async = FALSE), each with the plain and the buffered receiver, all over a real
AF_UNIX socket pair whose other end the harness holds.  After every action of a behaviour (a call by one of two actors, or something the
peer does) everything that can run has run and the projection - how each actor's last call ended, which calls are pending, closed or
not, packets delivered so far - is compared with the specification's state; at the end of the behaviour what the peer received is compared
with the packets the specification says were sent, and the peer sees the end of the stream exactly when send_eof / aclose were accepted.
"""

from __future__ import annotations

import asyncio
import math
import os
import socket
import tempfile
from typing import Any

from .. import graph, tlc

BIG = "x" * 400_000
SMALL = "small"


def _protocol(buffered: bool) -> Any:
    from easynetwork.protocol import BufferedStreamProtocol, StreamProtocol
    from easynetwork.serializers.line import StringLineSerializer

    return (BufferedStreamProtocol if buffered else StreamProtocol)(StringLineSerializer())


def _classify(exc: BaseException, closed: bool) -> str:
    from easynetwork.exceptions import BusyResourceError

    if isinstance(exc, BusyResourceError):
        return "busy"
    if isinstance(exc, asyncio.CancelledError):
        return "cancelled"
    if isinstance(exc, TimeoutError):
        return "timeout"
    if isinstance(exc, ConnectionError):
        if closed:
            return "gone"
        return "eof" if isinstance(exc, ConnectionAbortedError) and "end-of-stream" in str(exc) else "connerr:" + type(exc).__name__
    if isinstance(exc, RuntimeError):
        return "runtime"
    if isinstance(exc, OSError) and closed:
        return "gone"  # the blocking transport answers EBADF once closed
    return "other:" + type(exc).__name__


class _Base:
    def __init__(self) -> None:
        self.a, self.b = socket.socketpair()
        self.a.setblocking(False)
        self.b.setblocking(False)
        self.a.setsockopt(socket.SOL_SOCKET, socket.SO_SNDBUF, 4096)
        self.out: dict[int, str] = {1: "none", 2: "none"}
        self.ngot = 0
        self.npeer = 0
        self.peer_rx = bytearray()
        self.peer_eof = False

    def peer(self, action: str) -> None:
        if action == "PeerSend":
            self.b.sendall(b"pkt%d\n" % self.npeer)
            self.npeer += 1
        elif action == "PeerHalf":
            self.b.sendall(b"pk")
        elif action == "PeerRest":
            self.b.sendall(b"t%d\n" % self.npeer)
            self.npeer += 1
        elif action == "PeerEof":
            self.b.shutdown(socket.SHUT_WR)
        else:
            raise AssertionError(action)

    def got_packet(self, a: int, pkt: Any) -> None:
        want = f"pkt{self.ngot}"
        assert pkt == want, f"recv_packet returned {pkt!r:.40}, the next packet of the stream is {want!r}"
        self.ngot += 1
        self.out[a] = "packet"

    def peer_read(self) -> None:
        while not self.peer_eof:
            try:
                d = self.b.recv(1 << 20)
            except BlockingIOError:
                return
            except ConnectionError:
                self.peer_eof = True
                return
            if not d:
                self.peer_eof = True
                return
            self.peer_rx += d

    def check_peer(self, sent: list[str], eof_expected: bool) -> None:
        want = b"".join((BIG if k == "big" else SMALL).encode() + b"\n" for k in sent)
        assert bytes(self.peer_rx) == want, f"the peer received {len(self.peer_rx)} bytes ({bytes(self.peer_rx[:30])!r}...), the accepted sends are {sent}"
        assert self.peer_eof == eof_expected, f"the peer {'sees' if self.peer_eof else 'does not see'} the end of the stream, send_eof/close accepted: {eof_expected}"


class AsyncImpl(_Base):
    def __init__(self, buffered: bool) -> None:
        from easynetwork.lowlevel.api_async.backend._asyncio.backend import AsyncIOBackend
        from easynetwork.lowlevel.api_async.endpoints.stream import AsyncStreamEndpoint

        super().__init__()
        self.loop = asyncio.new_event_loop()
        self.tasks: dict[int, asyncio.Task[None]] = {}
        self.kind: dict[int, str] = {}

        async def build() -> Any:
            tr = await AsyncIOBackend().wrap_stream_socket(self.a)
            return AsyncStreamEndpoint(tr, _protocol(buffered), max_recv_size=1024)

        self.ep = self.loop.run_until_complete(build())

    def settle(self) -> None:
        for _ in range(12):
            self.loop.run_until_complete(asyncio.sleep(0))

    def _call(self, a: int, kind: str, big: bool = False) -> None:
        ep = self.ep

        async def run() -> None:
            self.out[a] = "pending"
            try:
                if kind == "recv":
                    self.got_packet(a, await ep.recv_packet())
                    return
                if kind == "send":
                    await ep.send_packet(BIG if big else SMALL)
                elif kind == "eof":
                    await ep.send_eof()
                else:
                    await ep.aclose()
                self.out[a] = "ok"
            except AssertionError:
                raise
            except BaseException as exc:  # noqa: BLE001
                self.out[a] = _classify(exc, ep.is_closing())

        assert a not in self.tasks or self.tasks[a].done(), "harness: actor already has a pending call"
        self.kind[a] = kind
        self.tasks[a] = self.loop.create_task(run())

    def apply(self, action: str, args: tuple[Any, ...]) -> None:
        if action.startswith("Peer") and action != "PeerDrain":
            self.peer(action)
        elif action == "PeerDrain":
            t = next(t for a, t in self.tasks.items() if self.kind[a] == "send" and not t.done())
            for _ in range(20000):
                if t.done():
                    break
                self.peer_read()
                self.loop.run_until_complete(asyncio.sleep(0))
            assert t.done(), "the pending send_packet() does not end although the peer reads everything"
        elif action == "CancelRecv":
            t = next(t for a, t in self.tasks.items() if self.kind[a] == "recv" and not t.done())
            t.cancel()
        elif action == "Recv":
            self._call(args[0], "recv")
        elif action == "Send":
            self._call(args[0], "send", bool(args[1]))
        elif action == "SendEof":
            self._call(args[0], "eof")
        elif action == "Close":
            self._call(args[0], "close")
        else:
            raise AssertionError(action)
        self.settle()
        for t in self.tasks.values():
            if t.done() and not t.cancelled() and t.exception() is not None:
                raise t.exception()  # type: ignore[misc]

    def project(self) -> dict[str, Any]:
        pend = {a: self.kind[a] for a, t in self.tasks.items() if not t.done()}
        return {
            "out": dict(self.out),
            "rwait": next((a for a, k in pend.items() if k == "recv"), 0),
            "swait": next((a for a, k in pend.items() if k == "send"), 0),
            "closed": bool(self.ep.is_closing()),
            "ngot": self.ngot,
        }

    def finish(self, st: dict[str, Any]) -> None:
        if st["swait"]:
            self.apply("PeerDrain", ())
        self.settle()
        self.peer_read()
        self.check_peer(list(st["sent"]), bool(st["eofSent"] or st["closed"]))

    def close(self) -> None:
        try:
            for t in self.tasks.values():
                t.cancel()
            self.settle()
            self.loop.run_until_complete(asyncio.wait_for(self.ep.aclose(), 5))
        except BaseException:  # noqa: BLE001
            pass
        finally:
            self.loop.close()
            self.a.close()
            self.b.close()


class SyncImpl(_Base):
    def __init__(self, buffered: bool) -> None:
        from easynetwork.lowlevel.api_sync.endpoints.stream import StreamEndpoint
        from easynetwork.lowlevel.api_sync.transports.socket import SocketStreamTransport

        super().__init__()
        self.ep = StreamEndpoint(SocketStreamTransport(self.a, math.inf), _protocol(buffered), max_recv_size=1024)

    def apply(self, action: str, args: tuple[Any, ...]) -> None:
        ep = self.ep
        if action.startswith("Peer"):
            self.peer(action)
            return
        a = args[0]
        try:
            if action == "Recv":
                self.got_packet(a, ep.recv_packet(timeout=0))
                return
            if action == "Send":
                ep.send_packet(SMALL, timeout=0)
            elif action == "SendEof":
                ep.send_eof()
            elif action == "Close":
                ep.close()
            else:
                raise AssertionError(action)
            self.out[a] = "ok"
        except AssertionError:
            raise
        except BaseException as exc:  # noqa: BLE001
            self.out[a] = _classify(exc, ep.is_closed())

    def project(self) -> dict[str, Any]:
        return {"out": dict(self.out), "rwait": 0, "swait": 0, "closed": bool(self.ep.is_closed()), "ngot": self.ngot}

    def finish(self, st: dict[str, Any]) -> None:
        self.peer_read()
        self.check_peer(list(st["sent"]), bool(st["eofSent"] or st["closed"]))

    def close(self) -> None:
        try:
            self.ep.close()
        except BaseException:  # noqa: BLE001
            pass
        self.a.close()
        self.b.close()


def _spec_projection(st: dict[str, Any]) -> dict[str, Any]:
    o = st["out"]
    out = {i + 1: v for i, v in enumerate(o)} if isinstance(o, (tuple, list)) else {int(a): v for a, v in dict(o).items()}
    out.setdefault(2, "none")
    return {"out": out, "rwait": st["rwait"], "swait": st["swait"], "closed": bool(st["closed"]), "ngot": st["ngot"]}


_G: Any = None  # the graph being replayed (read by the forked workers)


def _replay_one(arg: tuple[str, bool, int, Any]) -> tuple[int, str | None]:
    mode, buffered, root, path = arg
    g = _G
    impl: Any = (AsyncImpl if mode == "async" else SyncImpl)(buffered)
    done: list[str] = []
    ncmp = 0
    try:
        last = g.states[root]
        for action, args, dst in path:
            done.append(f"{action}({', '.join(map(str, args))})")
            impl.apply(action, args)
            last = g.states[dst]
            got, want = impl.project(), _spec_projection(last)
            ncmp += 1
            if got != want:
                raise AssertionError(f"implementation {got} / specification {want}")
        impl.finish(last)
    except AssertionError as exc:
        return ncmp, f"{mode} endpoint, {'buffered' if buffered else 'plain'} receiver, after {' '.join(done)}: {exc}"
    except Exception as exc:  # noqa: BLE001
        return ncmp, f"{mode} endpoint, {'buffered' if buffered else 'plain'} receiver, after {' '.join(done)}: harness/implementation error {exc!r}"
    finally:
        impl.close()
    return ncmp, None


def run(tier: str, seed: int) -> dict[str, Any]:
    global _G
    from ..common import pmap

    quick = tier == "quick"
    report: dict[str, Any] = {
        "name": "Endpoint",
        "target": "easynetwork lowlevel AsyncStreamEndpoint (asyncio stream transport) and StreamEndpoint (SocketStreamTransport), plain and buffered receiver",
        "violations": [],
        "model": {},
        "replay": {},
    }
    for mode in ("async", "sync"):
        if mode == "async":
            consts = {"Actors": "{1, 2}", "Async": "TRUE", "MaxOps": "3" if quick else "4", "MaxPeer": "2"}
        else:
            consts = {"Actors": "{1}", "Async": "FALSE", "MaxOps": "5" if quick else "7", "MaxPeer": "2"}
        with tempfile.TemporaryDirectory(prefix="vf_ep_") as d:
            cfg = os.path.join(d, "mc.cfg")
            tlc.write_cfg(
                cfg,
                spec="Spec",
                constants=consts,
                invariants=["TypeOK", "ExactlyOnce", "PendingIsPending"],
                properties=["StickyEof", "StickyClose", "NoPacketAfterEof", "NothingSentAfterEof"],
                check_deadlock=False,
            )
            res = tlc.run_tlc("Endpoint", cfg, timeout=900)
            report["model"][mode] = {"constants": consts, "distinct_states": res.distinct, "ok": res.ok, "violation": res.violation}
            if not res.ok:
                report["violations"].append(f"TLC ({mode}): {res.violation}")
                continue
            cfg2 = os.path.join(d, "dump.cfg")
            tlc.write_cfg(cfg2, spec="Spec", constants=consts, check_deadlock=False)
            g, _ = graph.dump_graph("Endpoint", cfg2, timeout=900)
        _G = g
        paths = graph.edge_cover_paths(g, max_len=14, seed=seed)
        for buffered in (False, True):
            results = pmap(_replay_one, [(mode, buffered, root, path) for root, path in paths])
            bad = [msg for _n, msg in results if msg]
            report["violations"] += bad[:10]
            report["replay"][f"{mode}/{'buffered' if buffered else 'plain'}"] = {
                "graph_states": len(g.states),
                "graph_edges": g.nedges,
                "behaviours": len(paths),
                "comparisons": sum(n for n, _m in results),
                "diverging_behaviours": len(bad),
            }
    _G = None
    return report
