"""State graphs dumped by TLC (`-dump dot,actionlabels`) and behaviours extracted from them."""

from __future__ import annotations

import dataclasses
import os
import random
import re
import shutil
import tempfile
from collections import deque
from collections.abc import Iterator, Mapping, Sequence
from typing import Any

from . import tlaval, tlc

_RE_NODE = re.compile(r'^(-?\d+) \[label="(.*?)"(,style = filled)?(,tooltip=".*")?\]\s*;?$')
_RE_EDGE = re.compile(r'^(-?\d+) -> (-?\d+) \[label="(.*?)",')


@dataclasses.dataclass
class Graph:
    states: dict[int, dict[str, Any]]
    init: list[int]
    out: dict[int, list[tuple[str, tuple[Any, ...], int]]]  # node -> [(action, args, dst)]
    nedges: int = 0

    def edges(self) -> Iterator[tuple[int, str, tuple[Any, ...], int]]:
        for u, lst in self.out.items():
            for a, args, v in lst:
                yield u, a, args, v


def _unescape(s: str) -> str:
    return s.replace("\\\\", "\x00").replace("\\n", "\n").replace('\\"', '"').replace("\x00", "\\")


def parse_label(label: str) -> tuple[str, tuple[Any, ...]]:
    """`Acquire(2)` -> ("Acquire", (2,)); `Foo` -> ("Foo", ())."""
    m = re.match(r"^(\w+)(?:\((.*)\))?$", label, re.S)
    if not m:
        return label, ()
    name, args = m.group(1), m.group(2)
    if args is None or args.strip() == "":
        return name, ()
    val = tlaval.parse_value("<<" + args + ">>")
    return name, tuple(val)


def parse_dot(path: str) -> Graph:
    states: dict[int, dict[str, Any]] = {}
    init: list[int] = []
    out: dict[int, list[tuple[str, tuple[Any, ...], int]]] = {}
    nedges = 0
    with open(path) as f:
        for line in f:
            line = line.rstrip("\n")
            m = _RE_EDGE.match(line)
            if m:
                u, v = int(m.group(1)), int(m.group(2))
                name, args = parse_label(_unescape(m.group(3)))
                out.setdefault(u, []).append((name, args, v))
                nedges += 1
                continue
            m = _RE_NODE.match(line)
            if m:
                nid = int(m.group(1))
                if nid not in states:
                    states[nid] = tlaval.parse_state(_unescape(m.group(2)))
                if m.group(3):
                    if nid not in init:
                        init.append(nid)
    for nid in states:
        out.setdefault(nid, [])
    return Graph(states, init, out, nedges)


def dump_graph(
    module: str,
    cfg_path: str,
    *,
    timeout: float = 600,
    env: Mapping[str, str] | None = None,
    extra_args: Sequence[str] = (),
) -> tuple[Graph, tlc.TLCResult]:
    """Run TLC with -dump and parse the resulting graph. Liveness properties must not be in cfg (dump + liveness is slow)."""
    d = tempfile.mkdtemp(prefix="vf_dump_")
    try:
        base = os.path.join(d, "graph")
        res = tlc.run_tlc(
            module,
            cfg_path,
            timeout=timeout,
            env=env,
            extra_args=["-dump", "dot,actionlabels", base, *extra_args],
        )
        g = parse_dot(base + ".dot")
        return g, res
    finally:
        shutil.rmtree(d, ignore_errors=True)


Path = list[tuple[str, tuple[Any, ...], int]]  # [(action, args, dst_node)] starting from an init node


def edge_cover_paths(g: Graph, *, max_len: int = 64, seed: int = 0) -> list[tuple[int, Path]]:
    """A set of behaviours (init node, path) such that every edge of the graph is on at least one of them."""
    rng = random.Random(seed)
    # BFS tree
    parent: dict[int, tuple[int, str, tuple[Any, ...]] | None] = {}
    q: deque[int] = deque()
    for i in g.init:
        parent[i] = None
        q.append(i)
    while q:
        u = q.popleft()
        for a, args, v in g.out[u]:
            if v not in parent:
                parent[v] = (u, a, args)
                q.append(v)

    def prefix(u: int) -> tuple[int, Path]:
        rev: Path = []
        cur = u
        while parent[cur] is not None:
            pu, a, args = parent[cur]  # type: ignore[misc]
            rev.append((a, args, cur))
            cur = pu
        rev.reverse()
        return cur, rev

    covered: set[tuple[int, int]] = set()  # (u, index in out[u])
    paths: list[tuple[int, Path]] = []
    order = sorted(parent, key=lambda n: len(prefix(n)[1]), reverse=True) if len(parent) < 20000 else list(parent)
    for u in order:
        for idx in range(len(g.out[u])):
            if (u, idx) in covered:
                continue
            root, p = prefix(u)
            # mark prefix edges as covered too
            cur = root
            for a, args, v in p:
                for j, (a2, args2, v2) in enumerate(g.out[cur]):
                    if a2 == a and args2 == args and v2 == v:
                        covered.add((cur, j))
                        break
                cur = v
            # take this edge, then extend greedily through uncovered edges
            cur = u
            j = idx
            while True:
                a, args, v = g.out[cur][j]
                covered.add((cur, j))
                p.append((a, args, v))
                cur = v
                if len(p) >= max_len:
                    break
                cand = [k for k in range(len(g.out[cur])) if (cur, k) not in covered and g.out[cur][k][2] != cur]
                if not cand:
                    cand = [k for k in range(len(g.out[cur])) if (cur, k) not in covered]
                if not cand:
                    break
                j = rng.choice(cand)
            paths.append((root, p))
    return paths


def random_walks(g: Graph, n: int, *, max_len: int = 40, seed: int = 0) -> list[tuple[int, Path]]:
    rng = random.Random(seed)
    out: list[tuple[int, Path]] = []
    for _ in range(n):
        cur = rng.choice(g.init)
        root = cur
        p: Path = []
        while len(p) < max_len and g.out[cur]:
            a, args, v = rng.choice(g.out[cur])
            p.append((a, args, v))
            cur = v
        out.append((root, p))
    return out


def fn_get(f: Any, k: Any) -> Any:
    """TLC prints functions over 1..n as tuples."""
    if isinstance(f, tuple):
        return f[k - 1]
    return f[k]
