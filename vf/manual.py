"""Hand-driven coroutines: exact control over every resumption, no event loop.

Used for exact-state replay of TLC behaviours on objects that only need `backend.create_event()`
(FairLock) or nothing at all.  One `step()` of a ManualTask runs the coroutine from its current
suspension point to the next one, exactly like one `Task.__step` of asyncio/trio.
"""

from __future__ import annotations

import asyncio
from collections.abc import Coroutine
from typing import Any


class _Suspend:
    def __await__(self):  # type: ignore[no-untyped-def]
        yield self


class ManualEvent:
    """IEvent whose waiter is resumed by the harness, not by a scheduler."""

    def __init__(self, owner: Any = None) -> None:
        self._flag = False
        self.owner = owner

    def set(self) -> None:
        self._flag = True

    def is_set(self) -> bool:
        return self._flag

    async def wait(self) -> bool:
        if self._flag:
            return True
        await _Suspend()
        if not self._flag:
            raise AssertionError("harness resumed a waiter whose event is not set")
        return True


class ManualBackend:
    """Minimal stand-in for AsyncBackend: FairLock only needs create_event()."""

    def __init__(self) -> None:
        self.current: Any = None
        self.events: list[ManualEvent] = []

    def create_event(self) -> ManualEvent:
        ev = ManualEvent(self.current)
        self.events.append(ev)
        return ev


class ManualTask:
    def __init__(self, coro: Coroutine[Any, Any, Any]) -> None:
        self.coro = coro
        self.done = False
        self.result: Any = None
        self.exception: BaseException | None = None
        self.started = False

    def step(self, throw: BaseException | None = None) -> bool:
        """Run to the next suspension. Returns True if the coroutine finished."""
        assert not self.done
        try:
            if throw is not None:
                self.coro.throw(throw)
            else:
                self.coro.send(None)
        except StopIteration as exc:
            self.done = True
            self.result = exc.value
        except BaseException as exc:  # noqa: BLE001 - the harness wants to see everything
            self.done = True
            self.exception = exc
        self.started = True
        return self.done

    def cancel_step(self) -> bool:
        return self.step(asyncio.CancelledError())

    def close(self) -> None:
        if not self.done:
            self.coro.close()
            self.done = True
