"""RecvBuffer.tla replayed on the real StreamReaderBufferedProtocol (asyncio backend), every edge of the TLC state graph.

The protocol is built with a 4 KiB buffer (class attribute max_size; high / low water marks 3072 / 768 by the library's own formula), one
unit of the specification is 256 bytes.  A stub transport records pause_reading() / resume_reading(); Data(n) does what asyncio's
transport does (get_buffer, write, buffer_updated), Recv starts a task calling receive_data / receive_data_into and the loop runs until
nothing is scheduled.  After every action: units buffered, paused or not, pending or not, and - byte for byte - what the receive call
that just ended returned: it must be the oldest bytes not handed out yet.
"""

from __future__ import annotations

import asyncio
import os
import tempfile
from typing import Any

from . import graph, tlc
from .common import Check

UNIT = 256
CONSTS = {"Max": "16", "High": "12", "Low": "3", "MaxData": "26"}


class _Stub(asyncio.Transport):
    def __init__(self) -> None:
        super().__init__()
        self.paused = False
        self.closing = False

    def pause_reading(self) -> None:
        self.paused = True

    def resume_reading(self) -> None:
        self.paused = False

    def is_reading(self) -> bool:
        return not self.paused

    def is_closing(self) -> bool:
        return self.closing

    def get_extra_info(self, name: str, default: Any = None) -> Any:
        return default


class Impl:
    def __init__(self) -> None:
        from easynetwork.lowlevel.api_async.backend._asyncio.stream.socket import StreamReaderBufferedProtocol

        class Small(StreamReaderBufferedProtocol):
            max_size = 16 * UNIT

        self.loop = asyncio.new_event_loop()
        self.tr = _Stub()
        self.proto: Any = Small(loop=self.loop)
        self.proto.connection_made(self.tr)
        self.sent = 0  # bytes put in by Data so far
        self.taken = 0  # bytes handed out so far
        self.task: asyncio.Task[bytes] | None = None
        self.last: bytes | None = None

    @staticmethod
    def stream(lo: int, hi: int) -> bytes:
        return bytes((i * 7 + i // 251) % 256 for i in range(lo, hi))

    def settle(self) -> None:
        for _ in range(6):
            self.loop.run_until_complete(asyncio.sleep(0))
        if self.task is not None and self.task.done():
            self.last = self.task.result()
            self.task = None

    def apply(self, action: str, args: tuple[Any, ...]) -> None:
        self.last = None
        if action == "Data":
            n = args[0] * UNIT
            buf = memoryview(self.proto.get_buffer(-1))
            assert len(buf) >= n, f"get_buffer() offers {len(buf)} bytes, the specification lets the transport deliver {n}"
            buf[:n] = self.stream(self.sent, self.sent + n)
            self.sent += n
            self.proto.buffer_updated(n)
        elif action == "Recv":
            into, w = bool(args[0]), args[1] * UNIT

            async def call() -> bytes:
                if into:
                    b = bytearray(w)
                    k = await self.proto.receive_data_into(b)
                    return bytes(b[:k])
                return await self.proto.receive_data(w)

            assert self.task is None
            self.task = self.loop.create_task(call())
        elif action == "Eof":
            self.proto.eof_received()
        else:
            raise AssertionError(action)
        self.settle()
        if self.last is not None:
            want = self.stream(self.taken, self.taken + len(self.last))
            assert self.last == want, f"the receive call returned {len(self.last)} bytes that are not the oldest ones not handed out yet (offset {self.taken})"
            self.taken += len(self.last)

    def project(self) -> dict[str, Any]:
        nb = self.proto._get_read_buffer_size()
        return {
            "nb": nb // UNIT if nb % UNIT == 0 else nb / UNIT,
            "paused": bool(self.tr.paused),
            "pending": self.task is not None,
            "last": None if self.last is None else (len(self.last) // UNIT if len(self.last) % UNIT == 0 else len(self.last) / UNIT),
        }

    def close(self) -> None:
        try:
            if self.task is not None:
                self.task.cancel()
                self.loop.run_until_complete(asyncio.gather(self.task, return_exceptions=True))
        finally:
            self.loop.close()


def _spec_projection(st: dict[str, Any]) -> dict[str, Any]:
    none = int(CONSTS["Max"]) + 1
    return {"nb": st["nb"], "paused": bool(st["paused"]), "pending": st["pend"][0] != "none", "last": None if st["last"] == none else st["last"]}


def run(chk: Check) -> None:
    quick = chk.tier == "quick"
    with tempfile.TemporaryDirectory(prefix="vf_rb_") as d:
        cfg = os.path.join(d, "mc.cfg")
        tlc.write_cfg(cfg, spec="Spec", constants=CONSTS, invariants=["TypeOK", "PausedMeansBacklog", "HighMeansPaused", "NoWaitWithData"], check_deadlock=False)
        res = tlc.run_tlc("RecvBuffer", cfg, timeout=900)
        chk.add_model("RecvBuffer", res, CONSTS, "bounded buffer with read flow control: paused <=> backlog between the water marks, no wait with data")
        if not res.ok:
            chk.model_violation("RecvBuffer", res, CONSTS)
            return
        cfg2 = os.path.join(d, "dump.cfg")
        tlc.write_cfg(cfg2, spec="Spec", constants=CONSTS, check_deadlock=False)
        g, _ = graph.dump_graph("RecvBuffer", cfg2, timeout=900)
    paths = graph.edge_cover_paths(g, max_len=10, seed=chk.seed)
    if quick and len(paths) > 1500:
        import random

        paths = random.Random(chk.seed).sample(paths, 1500)
    ncmp = nbad = 0
    for root, path in paths:
        impl = Impl()
        done: list[str] = []
        try:
            for action, args, dst in path:
                done.append(f"{action}({', '.join(map(str, args))})")
                impl.apply(action, args)
                got, want = impl.project(), _spec_projection(g.states[dst])
                ncmp += 1
                if got != want:
                    raise AssertionError(f"implementation {got} / specification {want}")
        except AssertionError as exc:
            nbad += 1
            if nbad <= 8:
                chk.violation(
                    {"kind": "replay", "spec": "RecvBuffer", "what": "divergence"},
                    f"asyncio stream protocol (4 KiB buffer, units of 256 bytes) diverges from RecvBuffer after {' '.join(done)}: {exc}",
                    {"kind": "recv_buffer", "actions": [(a, list(ar)) for a, ar, _d in path]},
                )
        except Exception as exc:  # noqa: BLE001
            nbad += 1
            if nbad <= 8:
                chk.violation(
                    {"kind": "replay", "spec": "RecvBuffer", "what": "crash"},
                    f"asyncio stream protocol (4 KiB buffer, units of 256 bytes), after {' '.join(done)}: {type(exc).__name__}: {exc}",
                    {"kind": "recv_buffer", "actions": [(a, list(ar)) for a, ar, _d in path]},
                )
        finally:
            impl.close()
        chk.distinct.add(("recv_buffer", tuple((a, tuple(ar)) for a, ar, _d in path)))
    chk.traces += len(paths)
    chk.states += len(g.states)
    chk.extra["recv_buffer_replay"] = {"graph_states": len(g.states), "graph_edges": g.nedges, "behaviours": len(paths), "comparisons": ncmp, "diverging": nbad}
