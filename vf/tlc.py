"""Run TLC / SANY and parse their output."""

from __future__ import annotations

import dataclasses
import os
import re
import shutil
import subprocess
import tempfile
import time
from collections.abc import Mapping, Sequence
from typing import Any

from . import tlaval

VERIF = os.path.dirname(os.path.dirname(os.path.abspath(__file__)))
SPEC_DIR = os.path.join(VERIF, "spec")
JAR = "/opt/veriftools/tla/tla2tools.jar"
DEPS = "/opt/veriftools/tla/CommunityModules-deps.jar"


class TLCError(RuntimeError):
    """TLC failed for a reason that is not a property violation (machinery failure)."""


@dataclasses.dataclass
class TLCResult:
    ok: bool
    generated: int = 0
    distinct: int = 0
    depth: int = 0
    wall_s: float = 0.0
    violation: str | None = None  # e.g. "Invariant Foo is violated", "Deadlock reached", "Temporal properties were violated"
    trace: list[dict[str, Any]] = dataclasses.field(default_factory=list)  # [{"action": str, "state": {var: value}}]
    coverage: dict[str, tuple[int, int]] = dataclasses.field(default_factory=dict)  # action -> (distinct, total)
    stdout: str = ""
    printed: list[Any] = dataclasses.field(default_factory=list)  # values printed by PrintT
    cmd: str = ""

    @property
    def never_taken(self) -> list[str]:
        return sorted(a for a, (_, total) in self.coverage.items() if total == 0)


def _java_cmd(jvm_props: Sequence[str] = (), heap: str = "8g") -> list[str]:
    return [
        "java",
        "-XX:+UseParallelGC",
        f"-Xmx{heap}",
        f"-DTLA-Library={SPEC_DIR}",
        *jvm_props,
        "-cp",
        f"{JAR}:{DEPS}",
    ]


def write_cfg(
    path: str,
    *,
    spec: str | None = "Spec",
    init: str | None = None,
    next_: str | None = None,
    constants: Mapping[str, str] | None = None,
    invariants: Sequence[str] = (),
    properties: Sequence[str] = (),
    constraints: Sequence[str] = (),
    action_constraints: Sequence[str] = (),
    postcondition: str | None = None,
    check_deadlock: bool = True,
    view: str | None = None,
    symmetry: str | None = None,
) -> None:
    lines: list[str] = []
    if init is not None and next_ is not None:
        lines += [f"INIT {init}", f"NEXT {next_}"]
    elif spec is not None:
        lines.append(f"SPECIFICATION {spec}")
    if constants:
        lines.append("CONSTANTS")
        for k, v in constants.items():
            lines.append(f"  {k} {'<-' if v.startswith('<-') else '='} {v[2:].strip() if v.startswith('<-') else v}")
    for inv in invariants:
        lines.append(f"INVARIANT {inv}")
    for p in properties:
        lines.append(f"PROPERTY {p}")
    for c in constraints:
        lines.append(f"CONSTRAINT {c}")
    for c in action_constraints:
        lines.append(f"ACTION_CONSTRAINT {c}")
    if postcondition:
        lines.append(f"POSTCONDITION {postcondition}")
    if view:
        lines.append(f"VIEW {view}")
    if symmetry:
        lines.append(f"SYMMETRY {symmetry}")
    lines.append(f"CHECK_DEADLOCK {'TRUE' if check_deadlock else 'FALSE'}")
    with open(path, "w") as f:
        f.write("\n".join(lines) + "\n")


_RE_STATES = re.compile(r"(\d+) states generated, (\d+) distinct states found, (\d+) states left on queue")
_RE_DEPTH = re.compile(r"The depth of the complete state graph search is (\d+)")
_RE_STATE_HDR = re.compile(r"^State (\d+): (.*)$")
_RE_COV = re.compile(r"^<(\w+) line \d+, col \d+ to line \d+, col \d+ of module (\w+)>: (\d+):(\d+)")
_RE_ERR = re.compile(r"^Error: (.*)$")


def parse_output(out: str) -> TLCResult:
    res = TLCResult(ok=True, stdout=out)
    for m in _RE_STATES.finditer(out):
        res.generated, res.distinct = int(m.group(1)), int(m.group(2))
    m = _RE_DEPTH.search(out)
    if m:
        res.depth = int(m.group(1))
    lines = out.splitlines()
    # coverage
    for ln in lines:
        m = _RE_COV.match(ln)
        if m:
            name = m.group(1)
            d, t = int(m.group(3)), int(m.group(4))
            od, ot = res.coverage.get(name, (0, 0))
            res.coverage[name] = (max(od, d), max(ot, t))
    # errors
    errors = [m.group(1) for ln in lines if (m := _RE_ERR.match(ln))]
    viol = None
    for e in errors:
        if (
            ("is violated" in e and ("Invariant" in e or "Action property" in e or "property" in e.lower()))
            or "Deadlock reached" in e
            or "Temporal properties were violated" in e
            or ("Temporal property" in e and "was violated" in e)
        ):
            viol = e
            break
    if viol:
        res.ok = False
        res.violation = viol
        res.trace = _parse_trace(lines)
    elif errors and not all("The behavior up to this point" in e or "The following behavior" in e or "behavior constitutes" in e for e in errors):
        # Distinguish postcondition failure (used for trace validation: handled by caller) from real machinery errors
        if any("Postcondition" in e or "postcondition" in e.lower() for e in errors):
            res.ok = False
            res.violation = "Postcondition false"
        else:
            raise TLCError("TLC reported errors:\n" + "\n".join(errors) + "\n--- output tail ---\n" + "\n".join(lines[-60:]))
    elif "Model checking completed. No error has been found." not in out and "Finished in" not in out and "states generated" not in out:
        raise TLCError("TLC did not complete:\n" + "\n".join(lines[-60:]))
    # PrintT values: lines that start with << or ( or [ or " outside a trace are collected by callers via tlaval
    return res


def _parse_trace(lines: list[str]) -> list[dict[str, Any]]:
    trace: list[dict[str, Any]] = []
    i = 0
    n = len(lines)
    while i < n:
        m = _RE_STATE_HDR.match(lines[i])
        if not m:
            i += 1
            continue
        action = m.group(2).strip()
        am = re.match(r"<(\w+)", action)
        action_name = am.group(1) if am else action
        i += 1
        buf: list[str] = []
        while i < n and lines[i].strip() != "" and not _RE_STATE_HDR.match(lines[i]) and not lines[i].startswith("Error:"):
            buf.append(lines[i])
            i += 1
        text = "\n".join(buf)
        state: dict[str, Any] = {}
        if text.strip() and "Stuttering" not in action and not text.lstrip().startswith("Back to state"):
            try:
                state = tlaval.parse_state(text)
            except Exception:  # keep raw text if the value parser cannot cope
                state = {"_raw": text}
        trace.append({"action": action_name, "state": state})
    return trace


def run_tlc(
    module: str,
    cfg_path: str,
    *,
    workers: int | str = 16,
    timeout: float = 900,
    extra_args: Sequence[str] = (),
    env: Mapping[str, str] | None = None,
    jvm_props: Sequence[str] = (),
    coverage: bool = False,
    spec_dir: str = SPEC_DIR,
    heap: str = "8g",
    deadlock: bool | None = None,
) -> TLCResult:
    """Run TLC on spec_dir/module.tla with the given cfg. Scratch (metadir) is created and removed here."""
    meta = tempfile.mkdtemp(prefix="vf_tlc_")
    try:
        cmd = _java_cmd(jvm_props, heap) + [
            "tlc2.TLC",
            "-workers",
            str(workers),
            "-metadir",
            meta,
            "-noGenerateSpecTE",
            "-config",
            cfg_path,
        ]
        if coverage:
            cmd += ["-coverage", "1"]
        if deadlock is False:
            cmd += ["-deadlock"]
        cmd += list(extra_args)
        cmd.append(os.path.join(spec_dir, module + ".tla") if not os.path.isabs(module) else module)
        full_env = dict(os.environ)
        if env:
            full_env.update(env)
        t0 = time.time()
        try:
            p = subprocess.run(cmd, capture_output=True, text=True, timeout=timeout, env=full_env, cwd=meta)
        except subprocess.TimeoutExpired as exc:
            raise TLCError(f"TLC timed out after {timeout}s: {' '.join(cmd)}") from exc
        out = p.stdout + ("\n" + p.stderr if p.stderr.strip() else "")
        res = parse_output(out)
        res.wall_s = time.time() - t0
        res.cmd = " ".join(cmd)
        if p.returncode not in (0, 10, 11, 12, 13) and res.ok:
            raise TLCError(f"TLC exit code {p.returncode}:\n" + "\n".join(out.splitlines()[-60:]))
        return res
    finally:
        shutil.rmtree(meta, ignore_errors=True)


def sany(module_path: str) -> None:
    p = subprocess.run(
        _java_cmd() + ["tla2sany.SANY", module_path],
        capture_output=True,
        text=True,
        cwd=os.path.dirname(module_path),
    )
    out = p.stdout + p.stderr
    if p.returncode != 0 or "Semantic errors" in out or "***Parse Error***" in out or "Fatal errors" in out or "Could not" in out:
        raise TLCError(f"SANY failed on {module_path}:\n{out[-3000:]}")


def write_mc_module(dirpath: str, name: str, extends: str, definitions: Mapping[str, str]) -> str:
    """Write a wrapper module (constants as definitions, for values the cfg syntax cannot express). Returns its path."""
    path = os.path.join(dirpath, name + ".tla")
    body = "\n".join(f"{k} == {v}" for k, v in definitions.items())
    with open(path, "w") as f:
        f.write(f"---- MODULE {name} ----\nEXTENDS {extends}\n{body}\n====\n")
    return path
