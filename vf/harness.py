"""Harness helpers shared by the drivers: asyncio backend with injectable transports, settle(), socket pairs."""

from __future__ import annotations

import asyncio
import socket
from collections.abc import Callable
from typing import Any

from easynetwork.lowlevel.api_async.backend._asyncio.backend import AsyncIOBackend
from easynetwork.lowlevel.socket import INETSocketAttribute


class HarnessBackend(AsyncIOBackend):
    """The real asyncio backend, except that sockets handed to wrap_* / listeners may be replaced by in-memory transports."""

    def __init__(self) -> None:
        super().__init__()
        self.stream_factory: Callable[[socket.socket], Any] | None = None
        self.datagram_factory: Callable[[socket.socket], Any] | None = None
        self.tcp_listeners_factory: Callable[..., Any] | None = None
        self.udp_listeners_factory: Callable[..., Any] | None = None
        self.tcp_connection_factory: Callable[..., Any] | None = None

    async def wrap_stream_socket(self, socket: socket.socket) -> Any:  # type: ignore[override]
        if self.stream_factory is not None:
            return self.stream_factory(socket)
        return await super().wrap_stream_socket(socket)

    async def wrap_connected_datagram_socket(self, socket: socket.socket) -> Any:  # type: ignore[override]
        if self.datagram_factory is not None:
            return self.datagram_factory(socket)
        return await super().wrap_connected_datagram_socket(socket)

    async def create_tcp_listeners(self, *args: Any, **kwargs: Any) -> Any:  # type: ignore[override]
        if self.tcp_listeners_factory is not None:
            return self.tcp_listeners_factory(*args, **kwargs)
        return await super().create_tcp_listeners(*args, **kwargs)

    async def create_udp_listeners(self, *args: Any, **kwargs: Any) -> Any:  # type: ignore[override]
        if self.udp_listeners_factory is not None:
            return self.udp_listeners_factory(*args, **kwargs)
        return await super().create_udp_listeners(*args, **kwargs)

    async def create_tcp_connection(self, *args: Any, **kwargs: Any) -> Any:  # type: ignore[override]
        if self.tcp_connection_factory is not None:
            return await self.tcp_connection_factory(*args, **kwargs)
        return await super().create_tcp_connection(*args, **kwargs)


def socket_extra(sock: socket.socket) -> dict[Any, Callable[[], Any]]:
    """extra_attributes of a transport that pretends to sit on `sock` (a real, otherwise unused, INET socket)."""
    return {
        INETSocketAttribute.socket: lambda: sock,
        INETSocketAttribute.family: lambda: sock.family,
        INETSocketAttribute.sockname: lambda: sock.getsockname(),
        INETSocketAttribute.peername: lambda: sock.getpeername(),
    }


def loopback_tcp_pair() -> tuple[socket.socket, socket.socket]:
    srv = socket.socket(socket.AF_INET, socket.SOCK_STREAM)
    try:
        srv.bind(("127.0.0.1", 0))
        srv.listen(1)
        a = socket.socket(socket.AF_INET, socket.SOCK_STREAM)
        a.connect(srv.getsockname())
        b, _ = srv.accept()
    finally:
        srv.close()
    a.setblocking(False)
    b.setblocking(False)
    return a, b


def loopback_udp_pair() -> tuple[socket.socket, socket.socket]:
    a = socket.socket(socket.AF_INET, socket.SOCK_DGRAM)
    b = socket.socket(socket.AF_INET, socket.SOCK_DGRAM)
    a.bind(("127.0.0.1", 0))
    b.bind(("127.0.0.1", 0))
    a.connect(b.getsockname())
    b.connect(a.getsockname())
    a.setblocking(False)
    b.setblocking(False)
    return a, b


async def settle(max_iter: int = 2000) -> None:
    """Let every runnable task run until the loop has nothing ready (timers are not waited for)."""
    loop = asyncio.get_running_loop()
    for _ in range(max_iter):
        await asyncio.sleep(0)
        if not loop._ready:  # type: ignore[attr-defined]
            return
    raise RuntimeError("settle(): the loop never became quiescent (busy loop?)")


class Gate:
    """A one-shot-per-pass gate: `await gate.pass_()` suspends until the harness calls `open_once()`."""

    def __init__(self) -> None:
        self._waiters: list[asyncio.Future[None]] = []
        self._tokens = 0

    def waiting(self) -> int:
        return sum(1 for f in self._waiters if not f.done())

    async def pass_(self) -> None:
        if self._tokens > 0:
            self._tokens -= 1
            return
        f = asyncio.get_running_loop().create_future()
        self._waiters.append(f)
        try:
            await f
        finally:
            if f in self._waiters:
                self._waiters.remove(f)

    def open_once(self) -> None:
        for f in self._waiters:
            if not f.done():
                f.set_result(None)
                return
        self._tokens += 1


def asyncio_transport_of(adapter: Any) -> Any:
    """The asyncio transport object held by one of the backend's socket adapters, whatever the attribute is called."""
    import asyncio

    for name in dir(adapter):
        if name.startswith("__") and name.endswith("__"):
            continue
        try:
            value = getattr(adapter, name)
        except Exception:  # noqa: BLE001
            continue
        if isinstance(value, asyncio.BaseTransport):
            return value
    raise LookupError(f"no asyncio transport found on {adapter!r}")


def asyncio_transport_of_any(obj: Any, depth: int = 3) -> Any:
    """Like asyncio_transport_of, looking through one or two levels of wrapped objects (datagram adapter -> endpoint -> transport)."""
    import asyncio

    seen: set[int] = set()
    frontier = [obj]
    for _ in range(depth):
        nxt = []
        for o in frontier:
            if id(o) in seen:
                continue
            seen.add(id(o))
            for name in dir(o):
                if name.startswith("__") and name.endswith("__"):
                    continue
                try:
                    value = getattr(o, name)
                except Exception:  # noqa: BLE001
                    continue
                if isinstance(value, asyncio.BaseTransport):
                    return value
                if type(value).__module__.startswith("easynetwork") and not callable(value):
                    nxt.append(value)
        frontier = nxt
    raise LookupError(f"no asyncio transport found in {obj!r}")
