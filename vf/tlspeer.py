"""An independent TLS peer built directly on ssl.SSLObject / MemoryBIO (no EasyNetwork code), speaking over MemPipes.

Used opposite the library's AsyncTLSStreamTransport so that a symmetric bug cannot cancel out, and to recover the
plaintext / inspect the ciphertext the library hands to the wrapped transport.
"""

from __future__ import annotations

import os
import ssl
from typing import Any

from . import memtransport

CERT_DIR = os.path.join(os.path.dirname(os.path.dirname(os.path.abspath(__file__))), "certs")


def server_context() -> ssl.SSLContext:
    ctx = ssl.SSLContext(ssl.PROTOCOL_TLS_SERVER)
    ctx.load_cert_chain(os.path.join(CERT_DIR, "cert.pem"), os.path.join(CERT_DIR, "key.pem"))
    if hasattr(ssl, "OP_IGNORE_UNEXPECTED_EOF"):
        ctx.options &= ~ssl.OP_IGNORE_UNEXPECTED_EOF
    return ctx


def client_context() -> ssl.SSLContext:
    ctx = ssl.SSLContext(ssl.PROTOCOL_TLS_CLIENT)
    ctx.load_verify_locations(os.path.join(CERT_DIR, "cert.pem"))
    ctx.check_hostname = True
    if hasattr(ssl, "OP_IGNORE_UNEXPECTED_EOF"):
        ctx.options &= ~ssl.OP_IGNORE_UNEXPECTED_EOF
    return ctx


class Peer:
    def __init__(self, rx: memtransport.MemPipe, tx: memtransport.MemPipe, *, server_side: bool) -> None:
        self.rx, self.tx = rx, tx
        self.inc = ssl.MemoryBIO()
        self.out = ssl.MemoryBIO()
        ctx = server_context() if server_side else client_context()
        self.obj = ctx.wrap_bio(self.inc, self.out, server_side=server_side, server_hostname=None if server_side else "localhost")
        self.eof_seen = False

    async def _flush(self) -> None:
        data = self.out.read()
        if data:
            await self.tx.write(data)

    async def _call(self, fn: Any, *args: Any) -> Any:
        while True:
            try:
                r = fn(*args)
            except ssl.SSLWantReadError:
                await self._flush()
                data = await self.rx.read(65536)
                if data:
                    self.inc.write(data)
                else:
                    self.eof_seen = True
                    self.inc.write_eof()
                continue
            except ssl.SSLWantWriteError:
                await self._flush()
                continue
            await self._flush()
            return r

    async def handshake(self) -> None:
        await self._call(self.obj.do_handshake)

    async def read(self, n: int = 65536) -> bytes:
        """b'' on close_notify; raises ssl.SSLError on truncation."""
        try:
            return await self._call(self.obj.read, n)
        except ssl.SSLZeroReturnError:
            return b""

    async def read_exactly(self, n: int) -> bytes:
        buf = bytearray()
        while len(buf) < n:
            data = await self.read(n - len(buf))
            if not data:
                break
            buf += data
        return bytes(buf)

    async def write(self, data: bytes) -> None:
        view = memoryview(data)
        while len(view):
            k = await self._call(self.obj.write, view)
            view = view[k:]

    async def close_notify(self) -> None:
        """Send our close_notify (do not wait for the peer's)."""
        try:
            self.obj.unwrap()
        except (ssl.SSLWantReadError, ssl.SSLError):
            pass
        await self._flush()

    async def unwrap(self) -> None:
        await self._call(self.obj.unwrap)


def parse_records(data: bytes) -> tuple[bool, list[tuple[int, int]]]:
    """Is `data` a sequence of well-formed TLS records (possibly ending with a partial one)? -> (ok, [(type, length)])"""
    out = []
    pos = 0
    while pos + 5 <= len(data):
        typ, ver, ln = data[pos], data[pos + 1 : pos + 3], int.from_bytes(data[pos + 3 : pos + 5], "big")
        if typ not in (20, 21, 22, 23) or ver not in (b"\x03\x01", b"\x03\x03") or ln > 16384 + 256:
            return False, out
        out.append((typ, ln))
        pos += 5 + ln
    return True, out
