"""C17 part 2: connection set-up faults at the accept level (AcceptLoop.tla).

The real ListenerSocketAdapter (asyncio backend) runs on a listening socket whose accept() follows a script - connected sockets,
"connection vanished before accept" errors, descriptor-exhaustion errors, a fatal error - with a scripted set-up of every accepted
connection (stream built at once / after a while / never, peer already gone, set-up refused) and listener.aclose() at a scripted
moment of virtual time.  Every accepted socket is tracked: handed to the handler, closed, or leaked.  The log is validated by TLC
against AcceptLoopTrace: no accepted socket is left in limbo, capacity errors cost a pause and nothing else, nothing is accepted
after the close.
"""

from __future__ import annotations

import asyncio
import errno
import gc
import os
import random
import socket
import tempfile
import weakref
from typing import Any

from .. import tlc, traces, vloop
from ..common import Check

TRACE_CFG = "INIT TInit\nNEXT TNext\nCONSTANTS\n  Script = {}\n  SetupOutcomes = {\"ok\", \"fail\"}\nCONSTRAINT Constr\nPOSTCONDITION Post\nCHECK_DEADLOCK FALSE\n"
EVD = {"ev": "", "s": 0, "kind": "", "t": 0}


def model(chk: Check) -> bool:
    with tempfile.TemporaryDirectory(prefix="vf_c17a_") as d:
        defs = {
            "MCScript": 'UNION {[1..n -> {"ok", "ignorable", "capacity", "fatal"}] : n \\in 0..3}',
            "MCSetup": '{"ok", "fail"}',
        }
        mod = tlc.write_mc_module(d, "MC_AcceptLoop", "AcceptLoop", defs)
        cfg = os.path.join(d, "mc.cfg")
        tlc.write_cfg(
            cfg,
            spec="Spec",
            constants={"Script": "<- MCScript", "SetupOutcomes": "<- MCSetup"},
            invariants=["NoLeak"],
            properties=["NothingAfterEnd", "CapacityErrorIsSurvived", "StoppingEnds"],
            check_deadlock=False,
        )
        res = tlc.run_tlc(mod, cfg, timeout=600)
    chk.add_model("AcceptLoop", res, defs, "all accept scripts of length <= 3 x set-up outcomes x close at any moment: no socket in limbo, nothing accepted after the end")
    if not res.ok:
        chk.model_violation("AcceptLoop", res)
        return False
    return True


async def _scenario(seed: int) -> dict[str, Any]:
    from easynetwork.lowlevel.api_async.backend._asyncio.backend import AsyncIOBackend
    from easynetwork.lowlevel.api_async.backend._asyncio.stream.listener import AbstractAcceptedSocketFactory, ListenerSocketAdapter
    from easynetwork.lowlevel import constants

    rng = random.Random(seed)
    loop = asyncio.get_running_loop()
    t0 = loop.time()
    script = [rng.choice(["ok", "ok", "ok", "ignorable", "capacity", "capacity", "fatal"] if rng.random() < 0.3 else ["ok", "ok", "ok", "ignorable", "capacity"]) for _ in range(rng.randint(1, 6))]
    if "fatal" in script:
        script = script[: script.index("fatal") + 1]
    setups = [rng.choice(["ok", "ok", "slow_ok", "notconn", "refused", "never", "slow_refused"]) for _ in script]
    close_at = rng.choice([0, 30, 60, 150, 250, 400, 1000])
    fatal_errno = next(e for e in (errno.EFAULT, errno.ENOTSOCK, errno.EIO) if e not in constants.ACCEPT_CAPACITY_ERRNOS and e not in constants.IGNORABLE_ACCEPT_ERRNOS)
    events: list[dict[str, Any]] = []

    def now_ms() -> int:
        return int(round((loop.time() - t0) * 1000))

    def ev(name: str, **kw: Any) -> None:
        events.append({"ev": name, **kw})

    accepted: list[Any] = []  # (sid, weak reference, descriptor): the harness must not keep an accepted socket alive itself
    peers: list[socket.socket] = []
    handed: set[int] = set()

    class RecSocket(socket.socket):
        sid = 0

        def close(self) -> None:
            if self.fileno() != -1 and self.sid and self.sid not in handed:
                ev("sock_closed", s=self.sid)
            super().close()

    class ScriptedListener(socket.socket):
        pos = 0

        def accept(self) -> Any:  # type: ignore[override]
            if self.pos >= len(script):
                raise BlockingIOError(errno.EAGAIN, "no connection waiting")
            r = script[self.pos]
            self.pos += 1
            if r == "ok":
                a, b = socket.socketpair()
                rs = RecSocket(a.family, a.type, a.proto, fileno=a.detach())
                rs.sid = len(accepted) + 1
                accepted.append((rs.sid, weakref.ref(rs), rs.fileno()))
                peers.append(b)
                ev("accept", kind="ok", s=rs.sid, t=now_ms())
                return rs, ("127.0.0.1", 40000 + rs.sid)
            ev("accept", kind=r, t=now_ms())
            if r == "ignorable":
                raise OSError(errno.ECONNABORTED, os.strerror(errno.ECONNABORTED))
            if r == "capacity":
                raise OSError(errno.EMFILE, os.strerror(errno.EMFILE))
            raise OSError(fatal_errno, os.strerror(fatal_errno))

    class Stream:
        def __init__(self, sock: Any) -> None:
            self.sock = sock

    class Factory(AbstractAcceptedSocketFactory[Any]):
        def log_connection_error(self, logger: Any, exc: BaseException) -> None:
            pass

        async def connect(self, backend: Any, sock: Any) -> Any:
            ev("setup_start", s=sock.sid)
            how = setups[sock.sid - 1] if sock.sid - 1 < len(setups) else "ok"
            if how.startswith("slow"):
                await asyncio.sleep(rng.choice([0.02, 0.12, 0.3]))
            elif how == "never":
                await asyncio.sleep(3600)
            else:
                await asyncio.sleep(0)
            if how == "notconn":
                raise OSError(errno.ENOTCONN, os.strerror(errno.ENOTCONN))
            if how.endswith("refused"):
                raise ValueError("set-up refused")
            # from here on the socket belongs to the stream object (whose own finalizer / aclose() is answerable for it)
            handed.add(sock.sid)
            ev("handed", s=sock.sid)
            return Stream(sock)

    streams: list[Any] = []

    async def handler(stream: Any) -> None:
        streams.append(stream)
        await asyncio.sleep(3600)

    base = socket.socket(socket.AF_INET, socket.SOCK_STREAM)
    base.bind(("127.0.0.1", 0))
    base.listen(5)
    lsock = ScriptedListener(base.family, base.type, base.proto, fileno=base.detach())
    backend = AsyncIOBackend()
    listener = ListenerSocketAdapter(backend, lsock, Factory())
    serve = asyncio.ensure_future(listener.serve(handler))

    async def closer() -> None:
        await asyncio.sleep(close_at / 1000)
        if not serve.done() or True:
            ev("close")
            await listener.aclose()

    ct = asyncio.ensure_future(closer())
    await asyncio.wait([serve], timeout=30)
    if not serve.done():
        ev("serve_hangs")
        serve.cancel()
        await asyncio.gather(serve, return_exceptions=True)
    else:
        exc = serve.exception() if not serve.cancelled() else None
        while isinstance(exc, BaseExceptionGroup) and len(exc.exceptions) == 1:
            exc = exc.exceptions[0]  # serve() owns a task group here: what ends it may come wrapped
        if serve.cancelled():
            ev("serve_end", kind="cancelled")
        elif isinstance(exc, OSError) and exc.errno == errno.EBADF:
            ev("serve_end", kind="closed")
        elif isinstance(exc, OSError) and exc.errno == fatal_errno:
            ev("serve_end", kind="error")
        elif isinstance(exc, BaseExceptionGroup):
            ev("serve_end", kind="group:" + ",".join(type(e).__name__ for e in exc.exceptions))
        else:
            ev("serve_end", kind="other:" + type(exc).__name__)
    await asyncio.gather(ct, return_exceptions=True)
    for _ in range(5):
        await asyncio.sleep(0)
    del serve, ct
    gc.collect()
    for sid, ref, _fd in accepted:
        rs = ref()
        if sid in handed:
            fate = "handed"
        elif rs is None:
            fate = "closed" if any(e["ev"] == "sock_closed" and e["s"] == sid for e in events) else "dropped"
        else:
            fate = "closed" if rs.fileno() == -1 else "leaked"
        ev("final", s=sid, kind=fate)
        del rs
    ev("end")
    streams.clear()
    for sid, ref, _fd in accepted:
        rs = ref()
        if rs is not None:
            handed.add(sid)
            rs.close()
    for p in peers:
        p.close()
    try:
        lsock.close()
    except OSError:
        pass
    return {"script": script, "events": traces.uniform(events, EVD), "meta": f"accept loop seed={seed} accept script={script} set-ups={setups[:script.count('ok')]} listener closed at {close_at} ms"}


def _run_one(seed: int) -> dict[str, Any]:
    try:
        return vloop.run(lambda: _scenario(seed), spin_limit=5000)  # type: ignore[no-any-return]
    except vloop.VirtualDeadlock as exc:
        return {"script": [], "events": [dict(EVD, ev="deadlock")], "meta": f"accept loop seed={seed} VirtualDeadlock {exc}"}


def run(chk: Check) -> None:
    quick = chk.tier == "quick"
    if not model(chk):
        return
    from ..common import pmap

    rec: list[dict[str, Any]] = pmap(_run_one, [chk.seed * 30011 + i for i in range(300 if quick else 10000)])
    res = traces.validate("AcceptLoopTrace", [{"script": t["script"], "events": t["events"]} for t in rec], cfg_text=TRACE_CFG, parallel=4, chunk=400)
    chk.traces += len(rec)
    chk.states += res.tlc.distinct
    chk.transitions += res.tlc.generated
    for t in rec:
        chk.distinct.add(t["meta"].split(" ", 3)[3])
    finals: dict[str, int] = {}
    for t in rec:
        for e in t["events"]:
            if e["ev"] == "final":
                finals[e["kind"]] = finals.get(e["kind"], 0) + 1
    chk.extra["accept_loop"] = {"traces": len(rec), "events": res.nevents, "rejected": len(res.rejected), "accepted_sockets_by_fate": finals}
    for idx, pos in sorted(res.rejected.items())[:40]:
        t = rec[idx]
        failing = t["events"][pos - 1] if 0 < pos <= len(t["events"]) else None
        chk.violation(
            {"kind": "trace", "spec": "AcceptLoop", "event": (failing or {}).get("ev", "?"), "what": (failing or {}).get("kind", "")},
            f"accept loop: not a behaviour of AcceptLoop (event #{pos}: {failing}) -- {t['meta']} events={[(e['ev'], e['s'], e['kind'], e['t']) for e in t['events']]}",
            {"kind": "accept_loop", "meta": t["meta"], "events": t["events"]},
        )
