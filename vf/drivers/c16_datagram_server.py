"""C16 - datagram server: per-client FIFO, one active handler, nothing dropped.

DatagramServer.tla (the _ClientData queue/state machine, per-datagram tasks, handler generators, the done-hook restart) is
model-checked (safety, liveness "every datagram is eventually handled").  The real AsyncDatagramServer.serve() is then run on an
in-memory listener with gate-controlled handler generators under seeded random schedules of arrivals from several addresses,
handler progress, generator completion after k requests and yielded timeouts; for every address the hook log (with
_ClientData.state and the queue length read on the real object at every event) is validated against DatagramServerTrace by TLC.
"""

from __future__ import annotations

import asyncio
import os
import random
import tempfile
from typing import Any

from .. import harness, memtransport, tlc, traces, vloop
from ..common import Check

LEVEL = "model_checking"
TRACE_CFG = "INIT TInit\nNEXT TNext\nCONSTANTS\n  Params = {}\nCONSTRAINT Constr\nPOSTCONDITION Post\nCHECK_DEADLOCK FALSE\n"
INVS = ["OneGenerator", "Fifo", "StateConsistent", "OneOwner", "NoStrandedDatagram"]
EVD = {"ev": "", "id": 0, "state": "", "qlen": 0}


def _model(chk: Check, quick: bool) -> bool:
    with tempfile.TemporaryDirectory(prefix="vf_c16_") as d:
        n = 4 if quick else 5
        params = (
            "{[n |-> %d, plan |-> p, lockyields |-> ly, timeouts |-> t, aftertimeout |-> a] : "
            'p \\in {<<1>>, <<2>>, <<1, 2, 1>>, <<3, 1>>, <<%d>>}, ly \\in BOOLEAN, t \\in BOOLEAN, a \\in {"return", "continue"}}' % (n, n)
        )
        mod = tlc.write_mc_module(d, "MC_DatagramServer", "DatagramServer", {"MCParams": params})
        cfg = os.path.join(d, "mc.cfg")
        tlc.write_cfg(cfg, constants={"Params": "<- MCParams"}, invariants=INVS, properties=["AllHandled"], check_deadlock=True)
        res = tlc.run_tlc(mod, cfg, coverage=True, timeout=900)
    chk.add_model("DatagramServer", res, {"n": n, "plans": "<<1>>,<<2>>,<<1,2,1>>,<<3,1>>,<<n>>", "lockyields": "both", "timeouts": "both"}, "safety + AllHandled under weak fairness, deadlock check")
    if not res.ok:
        chk.model_violation("DatagramServer", res)
        return False
    return True


async def _scenario(seed: int) -> list[dict[str, Any]]:
    import easynetwork.lowlevel.api_async.servers.datagram as dg
    from easynetwork.lowlevel.api_async.backend._asyncio.backend import AsyncIOBackend
    from easynetwork.protocol import DatagramProtocol
    from easynetwork.serializers.json import JSONSerializer

    rng = random.Random(seed)
    backend = AsyncIOBackend()
    naddr = rng.choice([1, 2, 2, 3])
    addrs = [("10.0.0.%d" % (i + 1), 1000 + i) for i in range(naddr)]
    n_per = {a: rng.randint(1, 5) for a in addrs}
    plan = {a: [rng.randint(1, 3) for _ in range(rng.randint(1, 3))] for a in addrs}
    use_timeout = {a: rng.random() < 0.4 for a in addrs}
    after_timeout = {a: rng.choice(["return", "continue"]) for a in addrs}
    TAU = 1.0
    logs: dict[Any, list[dict[str, Any]]] = {a: [] for a in addrs}
    cds: dict[Any, Any] = {}
    gates = {a: harness.Gate() for a in addrs}
    ngen = {a: 0 for a in addrs}
    order: list[Any] = []  # addresses in order of _ClientData creation

    orig_cls = getattr(dg, "_ClientData", object)

    class RecordingClientData(orig_cls):  # type: ignore[misc,valid-type]
        __slots__ = ()

        def __init__(self, backend: Any) -> None:
            super().__init__(backend)
            created.append(self)

    created: list[Any] = []

    def cd_of(a: Any) -> Any:
        return cds.get(a)

    finished = [False]

    def log(a: Any, evname: str, id_: int = 0) -> None:
        if finished[0]:
            return  # teardown of the scenario (serve() is cancelled): not part of the trace
        cd = cd_of(a)
        st = "None"
        ql = 0
        if cd is not None:
            try:
                st = {None: "None", dg._ClientState.TASK_PENDING: "PENDING", dg._ClientState.TASK_RUNNING: "RUNNING"}[cd.state]
                ql = len(cd._datagram_queue)
            except (AttributeError, KeyError):
                st, ql = "", -1  # internals renamed: behaviour only
        else:
            st, ql = "", -1
        logs[a].append({"ev": evname, "id": id_, "state": st, "qlen": ql})

    async def handler(ctx: Any) -> Any:
        a = ctx.address
        if a not in cds:
            # the _ClientData of this address is the one created for its first datagram
            cds[a] = created[order.index(a)]
        ngen[a] += 1
        g = ngen[a]
        k = plan[a][g - 1] if g <= len(plan[a]) else plan[a][-1]
        log(a, "gen_start")
        served = 0
        try:
            while True:
                try:
                    req = yield (TAU if use_timeout[a] and served > 0 else None)
                except TimeoutError:
                    log(a, "gen_timeout")
                    if after_timeout[a] == "return":
                        return
                    continue
                served += 1
                log(a, "gen_got", int(req))
                await gates[a].pass_()
                if served >= k:
                    return
        finally:
            log(a, "gen_end")

    listener = memtransport.MemDatagramListener(backend)
    server = dg.AsyncDatagramServer(listener, DatagramProtocol(JSONSerializer()))
    dg._ClientData = RecordingClientData
    sent = {a: 0 for a in addrs}
    serve_task = asyncio.get_running_loop().create_task(server.serve(handler))
    problems: list[str] = []
    try:
        await harness.settle()
        blocked = rng.choice(addrs) if naddr > 1 and rng.random() < 0.5 else None
        steps = 0
        while steps < 400:
            steps += 1
            choices: list[tuple[str, Any]] = []
            for a in addrs:
                if sent[a] < n_per[a]:
                    choices.append(("arrive", a))
                if gates[a].waiting() and a != blocked:
                    choices.append(("open", a))
            if not choices:
                break
            if rng.random() < 0.15:
                choices.append(("time", None))
            kind, a = rng.choice(choices)
            if kind == "arrive":
                sent[a] += 1
                if a not in order:
                    order.append(a)
                log(a, "arrive", sent[a])
                listener.push(str(sent[a]).encode(), a)
                if rng.random() < 0.6:
                    await harness.settle()
            elif kind == "open":
                gates[a].open_once()
                await harness.settle()
            else:
                await asyncio.sleep(TAU + 0.25)
                await harness.settle()
        await harness.settle()
        # slow handling of one client does not block the others: they are complete while `blocked` is still suspended
        for a in addrs:
            if a != blocked:
                while gates[a].waiting():
                    gates[a].open_once()
                    await harness.settle()
                if use_timeout[a]:
                    await asyncio.sleep(TAU + 0.25)
                    await harness.settle()
                logs[a].append({"ev": "end", "id": 0, "state": "", "qlen": 0})
        if blocked is not None:
            for _ in range(20):
                if gates[blocked].waiting():
                    gates[blocked].open_once()
                await harness.settle()
            if use_timeout[blocked]:
                await asyncio.sleep(TAU + 0.25)
                await harness.settle()
            logs[blocked].append({"ev": "end", "id": 0, "state": "", "qlen": 0})
        if serve_task.done():
            problems.append(f"serve() ended: {serve_task.exception()!r}")
    finally:
        finished[0] = True
        dg._ClientData = orig_cls
        serve_task.cancel()
        try:
            await serve_task
        except BaseException:  # noqa: BLE001
            pass
        await listener.aclose()
    out = []
    for a in addrs:
        evs = traces.uniform(logs[a], EVD)
        # "end" carries no observation
        if problems:
            evs.append({"ev": "problem", "id": 0, "state": "", "qlen": 0})
        out.append(
            {
                "par": {"n": max(n_per[a], 1), "plan": plan[a], "lockyields": True, "timeouts": use_timeout[a], "aftertimeout": after_timeout[a]},
                "events": evs,
                "meta": f"seed={seed} addr={a} n={n_per[a]} plan={plan[a]} timeout={use_timeout[a]}/{after_timeout[a]} blocked={blocked == a} naddr={naddr} problems={problems}",
            }
        )
    return out


async def _real_listener_scenario(seed: int) -> list[dict[str, Any]]:
    """The real asyncio UDP listener adapter over loopback: datagrams that arrive before serve() is awaited, and after."""
    import socket

    import easynetwork.lowlevel.api_async.servers.datagram as dg
    from easynetwork.lowlevel.api_async.backend._asyncio.backend import AsyncIOBackend
    from easynetwork.protocol import DatagramProtocol
    from easynetwork.serializers.abc import AbstractPacketSerializer

    class Raw(AbstractPacketSerializer[bytes, bytes]):
        def serialize(self, packet: bytes) -> bytes:
            return packet

        def deserialize(self, data: bytes) -> bytes:
            return bytes(data)

    rng = random.Random(seed)
    backend = AsyncIOBackend()
    listeners = await backend.create_udp_listeners("127.0.0.1", 0)
    listener = listeners[0]
    from easynetwork.lowlevel.socket import INETSocketAttribute

    server_addr = listener.extra(INETSocketAttribute.sockname)
    nclients = rng.randint(1, 3)
    socks = []
    for _ in range(nclients):
        s = socket.socket(socket.AF_INET, socket.SOCK_DGRAM)
        s.bind(("127.0.0.1", 0))
        socks.append(s)
    addrs = [s.getsockname() for s in socks]
    before = {a: rng.randint(0, 4) for a in addrs}
    after = {a: rng.randint(0, 3) for a in addrs}
    logs: dict[Any, list[dict[str, Any]]] = {a: [] for a in addrs}
    sent = {a: 0 for a in addrs}
    empties: dict[Any, list[int]] = {a: [] for a in addrs}  # ids sent as zero-length datagrams, not delivered yet
    finished = [False]

    def log(a: Any, evname: str, id_: int = 0) -> None:
        if not finished[0] and a in logs:
            logs[a].append({"ev": evname, "id": id_, "state": "", "qlen": -1})

    async def handler(ctx: Any) -> Any:
        a = tuple(ctx.address[:2])
        log(a, "gen_start")
        try:
            req = yield None
            if req == b"":
                id_ = empties[a].pop(0) if empties.get(a) else -1  # a zero-length datagram is a datagram like any other
            else:
                id_ = int(req)
            log(a, "gen_got", id_)
            await asyncio.sleep(0)
        finally:
            log(a, "gen_end")

    def send_one(i: int) -> None:
        a = addrs[i]
        sent[a] += 1
        log(a, "arrive", sent[a])
        if rng.random() < 0.25:
            empties[a].append(sent[a])
            socks[i].sendto(b"", server_addr)
        else:
            socks[i].sendto(str(sent[a]).encode(), server_addr)

    server = dg.AsyncDatagramServer(listener, DatagramProtocol(Raw()))
    order = [i for i, a in enumerate(addrs) for _ in range(before[a])]
    rng.shuffle(order)
    for i in order:
        send_one(i)
    await asyncio.sleep(0.05)  # let the listener's protocol receive them: serve() is not awaited yet
    task = asyncio.get_running_loop().create_task(server.serve(handler))
    await asyncio.sleep(0.02)
    order = [i for i, a in enumerate(addrs) for _ in range(after[a])]
    rng.shuffle(order)
    for i in order:
        send_one(i)
        if rng.random() < 0.5:
            await asyncio.sleep(0.005)
    await asyncio.sleep(0.1)
    out = []
    for a in addrs:
        logs[a].append({"ev": "end", "id": 0, "state": "", "qlen": -1})
    finished[0] = True
    task.cancel()
    try:
        await task
    except BaseException:  # noqa: BLE001
        pass
    await server.aclose()
    for s in socks:
        s.close()
    for a in addrs:
        if sent[a] == 0:
            continue
        out.append(
            {
                "par": {"n": sent[a], "plan": [1], "lockyields": True, "timeouts": False, "aftertimeout": "return"},
                "events": traces.uniform(logs[a], EVD),
                "meta": f"real UDP listener seed={seed} addr={a} before_serve={before[a]} after={after[a]}",
            }
        )
    return out


async def _recovering_handler_scenario(timeouts: bool) -> tuple[list[Any], list[Any]]:
    """AsyncUDPNetworkServer with the request handler of the public API (AsyncDatagramRequestHandler.handle): a handler that catches what is
    thrown at its yield - a parse error, an idle timeout - and keeps going gets every later datagram of that client, on the same generator."""
    from easynetwork.exceptions import DatagramProtocolParseError
    from easynetwork.lowlevel.socket import INETSocketAttribute
    from easynetwork.protocol import DatagramProtocol
    from easynetwork.serializers.json import JSONSerializer
    from easynetwork.servers.async_udp import AsyncUDPNetworkServer
    from easynetwork.servers.handlers import AsyncDatagramRequestHandler

    import socket

    backend = harness.HarnessBackend()
    lsock = socket.socket(socket.AF_INET, socket.SOCK_DGRAM)
    lsock.bind(("127.0.0.1", 0))
    listeners: list[Any] = []
    seen: dict[Any, list[Any]] = {}

    class H(AsyncDatagramRequestHandler[Any, Any]):
        async def handle(self, client: Any) -> Any:
            from easynetwork.servers.handlers import INETClientAttribute

            log = seen.setdefault(client.extra(INETClientAttribute.remote_address).port, [])
            log.append("start")
            while True:
                try:
                    req = yield (0.5 if timeouts else None)
                except DatagramProtocolParseError:
                    log.append("parse-error")
                    continue
                except TimeoutError:
                    log.append("idle")
                    continue
                log.append(req)
                await client.send_packet(req)

    def make(*a: Any, **kw: Any) -> list[Any]:
        lst = memtransport.MemDatagramListener(
            backend, extra={INETSocketAttribute.socket: lambda: lsock, INETSocketAttribute.family: lambda: lsock.family, INETSocketAttribute.sockname: lambda: lsock.getsockname()}
        )
        listeners.append(lst)
        return [lst]

    backend.udp_listeners_factory = make
    server = AsyncUDPNetworkServer("127.0.0.1", 0, DatagramProtocol(JSONSerializer()), H(), backend=backend)
    up = asyncio.Event()
    task = asyncio.ensure_future(server.serve_forever(is_up_event=up))
    try:
        await asyncio.wait_for(up.wait(), 5)
        lst = listeners[-1]
        a, b = ("10.0.0.1", 1001), ("10.0.0.2", 1002)
        want_a: list[Any] = ["start"]
        for i, payload in enumerate([b"1", b"\xff\xfe", b"2", b"{", b"3", b"4"]):
            lst.push(payload, a)
            if i == 1:
                lst.push(b"100", b)
            await harness.settle()
            if timeouts and i == 2:
                await asyncio.sleep(0.6)  # nothing for a while: the handler is told, and keeps going
            try:
                want_a.append(__import__("json").loads(payload))
            except ValueError:
                want_a.append("parse-error")
        await harness.settle()
        got_a, got_b = seen.get(1001, []), seen.get(1002, [])
        if timeouts and "idle" not in got_a:
            got_a = got_a + ["<never told about the idle period>"]
        # (the idle notifications themselves are not datagrams: what is compared is what was delivered around them)
        return [[x for x in got_a if x != "idle"], [x for x in got_b if x != "idle"]], [want_a, ["start", 100]]
    finally:
        await server.shutdown()
        await asyncio.wait([task], timeout=5)
        await server.server_close()
        lsock.close()


async def _scoped_handler_scenario(order: str, eager_return: bool) -> list[Any]:
    """Low-level AsyncDatagramServer, a handler that bounds its wait with a cancel scope of its own around the yield (instead of yielding a
    timeout).  The scope is cancelled (what its deadline would do) and the second datagram arrives in a chosen order within the same / the
    neighbouring loop iterations - in particular while the cancelled client task has not run yet - and a third one later: all three are handled."""
    from easynetwork.lowlevel.api_async.servers import datagram as dg
    from easynetwork.protocol import DatagramProtocol
    from easynetwork.serializers.json import JSONSerializer

    backend = harness.HarnessBackend()
    loop = asyncio.get_running_loop()
    handled: list[Any] = []
    cur: dict[str, Any] = {}

    async def handler(ctx: Any) -> Any:
        while True:
            with backend.open_cancel_scope() as scope:
                cur["scope"] = scope
                req = yield
            if scope.cancelled_caught():
                if eager_return:
                    return  # the generator ends: the next datagram of this client starts a fresh one
                continue
            handled.append(req)

    listener = memtransport.MemDatagramListener(backend)
    server = dg.AsyncDatagramServer(listener, DatagramProtocol(JSONSerializer()))
    task = loop.create_task(server.serve(handler))
    try:
        await harness.settle()
        addr = ("10.0.0.1", 1001)
        listener.push(b"1", addr)
        await harness.settle()
        steps = {"push": lambda: listener.push(b"2", addr), "cancel": lambda: cur["scope"].cancel(), "hop": None}
        seq = order.split(",")

        def run_from(i: int) -> None:
            while i < len(seq):
                if seq[i] == "hop":
                    loop.call_soon(run_from, i + 1)
                    return
                steps[seq[i]]()
                i += 1

        loop.call_soon(run_from, 0)
        await asyncio.sleep(1.0)
        await harness.settle()
        listener.push(b"3", addr)
        await asyncio.sleep(1.0)
        await harness.settle()
        if task.done():
            handled.append(f"serve() ended: {task.exception()!r}")
    finally:
        task.cancel()
        await asyncio.gather(task, return_exceptions=True)
    return handled


async def _stray_cancel_scenario() -> list[Any]:
    """Low-level AsyncDatagramServer; the handler takes datagram 1 and awaits a future; datagrams 2 and 3 of the same client arrive and are
    queued; somebody else cancels the *future* (not the task, and the server is not shutting down), so the handler ends with a CancelledError
    nobody asked of it; then datagram 4 arrives.  Queued datagrams are handled, by the running generator or by a fresh one: all four."""
    from easynetwork.lowlevel.api_async.servers import datagram as dg
    from easynetwork.protocol import DatagramProtocol
    from easynetwork.serializers.json import JSONSerializer

    backend = harness.HarnessBackend()
    loop = asyncio.get_running_loop()
    handled: list[Any] = []
    cur: dict[str, Any] = {}

    async def handler(ctx: Any) -> Any:
        req = yield
        handled.append(req)
        if req == 1:
            cur["fut"] = loop.create_future()
            await cur["fut"]

    listener = memtransport.MemDatagramListener(backend)
    server = dg.AsyncDatagramServer(listener, DatagramProtocol(JSONSerializer()))
    task = loop.create_task(server.serve(handler))
    try:
        await harness.settle()
        addr = ("10.0.0.1", 1001)
        listener.push(b"1", addr)
        await harness.settle()
        listener.push(b"2", addr)
        listener.push(b"3", addr)
        await harness.settle()
        if "fut" in cur:
            cur["fut"].cancel()
        await asyncio.sleep(1.0)
        await harness.settle()
        listener.push(b"4", addr)
        await asyncio.sleep(1.0)
        await harness.settle()
        if task.done():
            handled.append(f"serve() ended: {task.exception()!r}")
    finally:
        task.cancel()
        await asyncio.gather(task, return_exceptions=True)
    return handled


async def _serve_twice_scenario() -> list[str]:
    """The UDP listener of the asyncio backend on a real socket: datagrams that arrive before serve() is awaited are handed over when it
    starts - once; a second serve() on the same listener (the server was stopped and serves again) does not see them again."""
    import socket

    from easynetwork.lowlevel.api_async.backend._asyncio.backend import AsyncIOBackend
    from easynetwork.lowlevel.socket import INETSocketAttribute

    backend = AsyncIOBackend()
    lst = (await backend.create_udp_listeners("127.0.0.1", 0))[0]
    peer = socket.socket(socket.AF_INET, socket.SOCK_DGRAM)
    delivered: list[list[str]] = [[], []]
    problems: list[str] = []
    try:
        addr = lst.extra(INETSocketAttribute.sockname)
        for p in (b"early-1", b"early-2"):
            peer.sendto(p, addr)
        await asyncio.sleep(0.05)
        for rnd in (0, 1):

            async def handler(data: bytes, a: Any, rnd: int = rnd) -> None:
                delivered[rnd].append(data.decode())

            task = asyncio.ensure_future(lst.serve(handler))
            await asyncio.sleep(0.05)
            if rnd == 0:
                peer.sendto(b"mid-3", addr)
            else:
                peer.sendto(b"late-4", addr)
            await asyncio.sleep(0.05)
            task.cancel()
            await asyncio.gather(task, return_exceptions=True)
        if delivered != [["early-1", "early-2", "mid-3"], ["late-4"]]:
            problems.append(f"first serve() got {delivered[0]}, second serve() got {delivered[1]}; sent early-1, early-2 (before the first serve), mid-3 (during it), late-4 (during the second)")
    finally:
        peer.close()
        await lst.aclose()
    return problems


def _run_one(seed: int) -> list[dict[str, Any]]:
    return vloop.run(lambda: _scenario(seed))  # type: ignore[no-any-return]


def run(chk: Check) -> None:
    quick = chk.tier == "quick"
    chk.rule = (
        "scenarios = seeded random schedules (arrivals from 1-3 addresses, handler progress through gates, generator completion after k requests, "
        "yielded timeouts that expire in virtual time, one address possibly blocked until the others are done); one trace per (scenario, address); "
        "distinct = distinct event sequences"
    )
    if not _model(chk, quick):
        return
    rec: list[dict[str, Any]] = []
    from ..common import pmap

    for part in pmap(_run_one, [chk.seed * 7919 + i for i in range(400 if quick else 12000)]):
        rec += part
    for i in range(12 if quick else 300):
        rec += asyncio.run(_real_listener_scenario(chk.seed * 13 + i))
    problems = asyncio.run(_serve_twice_scenario())
    chk.traces += 1
    chk.distinct.add(("serve_twice",))
    if problems:
        chk.violation({"kind": "listener", "what": "serve_twice"}, f"UDP listener (asyncio backend, real socket), serve() / stop / serve() again: {problems}", {"kind": "serve_twice"})
    for eager_return in (True, False):
        for order in ("push,cancel", "cancel,push", "push,hop,cancel", "cancel,hop,push", "push,hop,hop,cancel", "cancel,hop,hop,push"):
            handled = vloop.run(lambda: _scoped_handler_scenario(order, eager_return))
            chk.traces += 1
            chk.distinct.add(("scoped_handler", eager_return, order))
            if handled != [1, 2, 3]:
                chk.violation(
                    {"kind": "handler_api", "what": "scoped_handler"},
                    f"AsyncDatagramServer, a handler with a cancel scope of its own around its yield{' (returning when it is cancelled)' if eager_return else ''}; "
                    f"after datagram 1: [{order}] (push = datagram 2 arrives, cancel = the scope expires, hop = next loop iteration), then datagram 3: handled {handled}",
                    {"kind": "scoped_handler", "order": order, "eager_return": eager_return},
                )
    handled = vloop.run(_stray_cancel_scenario)
    chk.traces += 1
    chk.distinct.add(("stray_cancel",))
    if handled != [1, 2, 3, 4]:
        lost_only_the_queue = handled == [1, 4]
        chk.violation(
            {"kind": "handler_api", "what": "stray_cancel_drops_queue" if lost_only_the_queue else "stray_cancel"},
            "AsyncDatagramServer, a handler that ends with a CancelledError nobody asked of its task (it awaited a future a third party cancelled; no shutdown) "
            f"while datagrams 2 and 3 of its client are queued, then datagram 4: handled {handled}, expected [1, 2, 3, 4]",
            {"kind": "stray_cancel"},
        )
    for timeouts in (False, True):
        got, want = vloop.run(lambda: _recovering_handler_scenario(timeouts))
        chk.traces += 1
        chk.distinct.add(("recovering_handler", timeouts))
        if got != want:
            chk.violation(
                {"kind": "handler_api", "what": "recovering_handler"},
                f"AsyncUDPNetworkServer, a handler that catches the parse errors{' and idle timeouts' if timeouts else ''} thrown at its yield and keeps going: "
                f"the handlers of the two clients saw {got}, the datagrams sent are {want}",
                {"kind": "recovering_handler", "timeouts": timeouts},
            )
    from . import c16_eager

    erec: list[dict[str, Any]] = []
    for burst, eager in ((40, True), (400, True), (400, False)) if quick else ((40, True), (150, True), (400, True), (2000, True), (2000, False)):
        for t in c16_eager.run_in_child(burst, eager):
            t["events"] = traces.uniform(t["events"], EVD)
            erec.append(t)
    eres = traces.validate("DatagramFifoLaw", [{"events": t["events"]} for t in erec], cfg_text="INIT TInit\nNEXT TNext\nCONSTRAINT Constr\nPOSTCONDITION Post\nCHECK_DEADLOCK FALSE\n", parallel=2, chunk=50)
    chk.traces += len(erec)
    chk.extra["eager_task_factory"] = {"traces": len(erec), "events": eres.nevents, "rejected": len(eres.rejected)}
    for t in erec:
        chk.distinct.add(("eager", t["meta"]))
    for idx, pos in sorted(eres.rejected.items()):
        t = erec[idx]
        failing = t["events"][pos - 1] if 0 < pos <= len(t["events"]) else None
        chk.violation(
            {"kind": "trace", "spec": "DatagramFifoLaw", "what": "eager_task_factory", "event": (failing or {}).get("ev", "?")},
            f"datagram server on an eager-task loop: the per-address law is broken at event #{pos} of {len(t['events'])}: {failing} -- {t['meta']}",
            {"kind": "eager_trace", "meta": t["meta"], "events_around": t["events"][max(0, pos - 6) : pos + 3]},
        )
    slim = [{"par": t["par"], "events": t["events"]} for t in rec]
    res = traces.validate("DatagramServerTrace", slim, cfg_text=TRACE_CFG, parallel=12, chunk=300)
    chk.traces += len(rec)
    chk.evaluations = len(rec)
    chk.states += res.tlc.distinct
    chk.transitions += res.tlc.generated
    for t in rec:
        chk.distinct.add(tuple((e["ev"], e["id"], e["state"], e["qlen"]) for e in t["events"]))
    chk.sample({"meta": rec[1]["meta"], "events": [(e["ev"], e["id"], e["state"], e["qlen"]) for e in rec[1]["events"]]}, cap=4)
    chk.extra["scenario_traces"] = {"traces": len(rec), "events": res.nevents, "rejected": len(res.rejected), "with_timeouts": sum(1 for t in rec if t["par"]["timeouts"])}
    for idx, pos in sorted(res.rejected.items())[:40]:
        t = rec[idx]
        failing = t["events"][pos - 1] if 0 < pos <= len(t["events"]) else None
        chk.violation(
            {"kind": "trace", "spec": "DatagramServer", "event": failing["ev"] if failing else "?"},
            f"datagram server: not a behaviour of DatagramServer (event #{pos}: {failing}) -- {t['meta']}",
            {"kind": "dgserver_trace", "trace": slim[idx], "meta": t["meta"], "rejected_at": pos},
        )
    chk.assumptions += [
        "the listener starts one task per datagram in arrival order (in-memory listener; the real asyncio listener adapter does the same through task_group.start_soon)",
        "addresses are independent by construction (one _ClientData per address); cross-address progress is checked by keeping one address blocked",
    ]


def replay(data: dict[str, Any]) -> int:
    r = data["replay"]
    print(r.get("meta"))
    for i, e in enumerate(r["trace"]["events"], 1):
        print(i, e)
    return 0
