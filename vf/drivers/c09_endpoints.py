"""C09 part 3: the TLS transports that the library builds itself - inside the clients (ssl=True: library-made context; or a user context)
and inside the TCP servers (asynchronous and standalone) - with ssl_standard_compatible left unset, True or False.

The peer is a plain stdlib ssl socket in a thread.  Reading half: the peer sends one message and then drops the connection without a
close notification (or closes orderly); what the library's own TLS transport reports to its reader is recorded by a spy on its
recv / recv_into (data | eof | error) and validated against TLSTruncationTrace.  Writing half: the library side closes; what the
peer observes (clean / truncated) is validated against TLSCloseTrace.  "Unset" must mean standard-compatible.
"""

from __future__ import annotations

import asyncio
import contextlib
import os
import socket
import ssl
import threading
import time
from typing import Any

from .. import tlspeer, traces
from ..common import Check

MSG = b"hello from the peer\n"
EVD = {"ev": "", "n": 0, "ok": False}
TRACE_CFG = "INIT TInit\nNEXT TNext\nCONSTANTS\n  Params = {}\nCONSTRAINT Constr\nPOSTCONDITION Post\nCHECK_DEADLOCK FALSE\n"


@contextlib.contextmanager
def _spy(log: list[dict[str, Any]]) -> Any:
    """Record what the library's TLS transports report to their readers (class-level, non-invasive: outcomes are passed through)."""
    from easynetwork.lowlevel.api_async.transports.tls import AsyncTLSStreamTransport
    from easynetwork.lowlevel.api_sync.transports.socket import SSLStreamTransport

    lock = threading.Lock()

    def note(kind: str, n: int = 0) -> None:
        with lock:
            log.append({"ev": kind, "n": n, "ok": True})

    orig = {
        "arecv": AsyncTLSStreamTransport.recv,
        "arecv_into": AsyncTLSStreamTransport.recv_into,
        "recv": SSLStreamTransport.recv_noblock,
        "recv_into": SSLStreamTransport.recv_noblock_into,
    }

    async def arecv(self: Any, bufsize: int) -> bytes:
        try:
            data = await orig["arecv"](self, bufsize)
        except (ssl.SSLError, OSError):
            note("error")
            raise
        note("data", len(data)) if data else note("eof")
        return data

    async def arecv_into(self: Any, buffer: Any) -> int:
        try:
            n = await orig["arecv_into"](self, buffer)
        except (ssl.SSLError, OSError):
            note("error")
            raise
        note("data", n) if n else note("eof")
        return n

    def recv(self: Any, bufsize: int) -> bytes:
        try:
            data = orig["recv"](self, bufsize)
        except ssl.SSLError:
            note("error")
            raise
        except ConnectionError:
            note("error")
            raise
        note("data", len(data)) if data else note("eof")
        return data

    def recv_into(self: Any, buffer: Any) -> int:
        try:
            n = orig["recv_into"](self, buffer)
        except ssl.SSLError:
            note("error")
            raise
        except ConnectionError:
            note("error")
            raise
        note("data", n) if n else note("eof")
        return n

    AsyncTLSStreamTransport.recv = arecv  # type: ignore[method-assign]
    AsyncTLSStreamTransport.recv_into = arecv_into  # type: ignore[method-assign]
    SSLStreamTransport.recv_noblock = recv  # type: ignore[method-assign]
    SSLStreamTransport.recv_noblock_into = recv_into  # type: ignore[method-assign]
    try:
        yield
    finally:
        AsyncTLSStreamTransport.recv = orig["arecv"]  # type: ignore[method-assign]
        AsyncTLSStreamTransport.recv_into = orig["arecv_into"]  # type: ignore[method-assign]
        SSLStreamTransport.recv_noblock = orig["recv"]  # type: ignore[method-assign]
        SSLStreamTransport.recv_noblock_into = orig["recv_into"]  # type: ignore[method-assign]


def _peer_server(sock: socket.socket, behaviour: str, result: dict[str, str]) -> None:
    """TLS server side of one connection (stdlib only).  behaviour: "truncate" | "orderly" | "observe_close"."""
    try:
        sock.settimeout(10)
        s = tlspeer.server_context().wrap_socket(sock, server_side=True, suppress_ragged_eofs=False)
        s.sendall(MSG)
        if behaviour == "truncate":
            time.sleep(0.05)
            s.close()  # SSLSocket.close() does not unwrap: the TCP connection ends (FIN) without a TLS close notification
        elif behaviour == "orderly":
            try:
                s.unwrap()
            except (ssl.SSLError, OSError):
                pass
            s.close()
        else:
            try:
                while True:
                    if not s.recv(4096):
                        result["saw"] = "peer_clean"
                        break
            except (ssl.SSLError, OSError):
                result["saw"] = "peer_truncated"
            s.close()
    except Exception as exc:  # noqa: BLE001
        result["peer_error"] = f"{type(exc).__name__}: {exc}"


def _caller_outcome(exc: BaseException) -> str:
    """What recv_packet told its caller.  The high-level clients answer ECONNABORTED for every lost connection and chain the reason
    (`raise ... from exc`): the reason is what is classified - the endpoint's own end-of-stream report (ConnectionAbortedError that is not a
    TLS error) is the clean end of the stream, a TLS error anywhere in the chain is the truncation being reported."""
    if isinstance(exc, (TimeoutError, asyncio.TimeoutError)):
        return "caller_timeout"
    chain: list[BaseException] = []
    cur: BaseException | None = exc
    while cur is not None and cur not in chain:
        chain.append(cur)
        cur = cur.__cause__ or cur.__context__  # `raise ... from None` hides the reason from the traceback, not from here
    if any(isinstance(e, ssl.SSLError) for e in chain):
        return "caller_error"
    if len(chain) == 1 and isinstance(exc, ConnectionAbortedError):
        return "caller_unknown"  # a client that says ECONNABORTED and nothing else: either reason is possible, the specification takes both
    if isinstance(chain[-1], ConnectionAbortedError):
        return "caller_eof"
    return "caller_error"


def _pair() -> tuple[socket.socket, socket.socket]:
    srv = socket.socket()
    srv.bind(("127.0.0.1", 0))
    srv.listen(1)
    a = socket.socket()
    a.connect(srv.getsockname())
    b, _ = srv.accept()
    srv.close()
    return a, b


def _client_kw(mode: str, ctx_kind: str) -> dict[str, Any]:
    kw: dict[str, Any] = {"ssl": True if ctx_kind == "library" else tlspeer.client_context(), "server_hostname": "localhost"}
    if mode != "unset":
        kw["ssl_standard_compatible"] = mode == "true"
    return kw


def client_scenario(flavour: str, mode: str, ctx_kind: str, behaviour: str, buffered: bool) -> dict[str, Any]:
    """flavour: "async" | "blocking";  mode: "unset" | "true" | "false";  ctx_kind: "library" (ssl=True) | "user"."""
    from easynetwork.protocol import BufferedStreamProtocol, StreamProtocol
    from easynetwork.serializers.line import StringLineSerializer

    a, b = _pair()
    result: dict[str, str] = {}
    th = threading.Thread(target=_peer_server, args=(b, behaviour, result), daemon=True)
    th.start()
    log: list[dict[str, Any]] = []
    events: list[dict[str, Any]] = []
    caller: list[str] = []
    proto = (BufferedStreamProtocol if buffered else StreamProtocol)(StringLineSerializer())
    old_cert = os.environ.get("SSL_CERT_FILE")
    os.environ["SSL_CERT_FILE"] = os.path.join(tlspeer.CERT_DIR, "cert.pem")
    standard = mode != "false"
    try:
        with _spy(log):
            if flavour == "blocking":
                from easynetwork.clients.tcp import TCPNetworkClient

                try:
                    client = TCPNetworkClient(a, proto, **_client_kw(mode, ctx_kind), ssl_handshake_timeout=10, ssl_shutdown_timeout=2)
                    events.append({"ev": "wrap_ok"})
                    if behaviour == "observe_close":
                        client.recv_packet(timeout=5)
                        client.close()
                    else:
                        for _ in range(3):
                            try:
                                client.recv_packet(timeout=5)
                            except Exception as exc:  # noqa: BLE001
                                caller.append(_caller_outcome(exc))
                                break
                        for _ in range(2):  # what the *caller* is told when it asks again: the first answer is the lasting one
                            try:
                                client.recv_packet(timeout=5)
                                caller.append("caller_data")
                            except Exception as exc:  # noqa: BLE001
                                caller.append(_caller_outcome(exc))
                        client.close()
                except Exception as exc:  # noqa: BLE001
                    events.append({"ev": "crash:" + type(exc).__name__})
            else:
                from easynetwork.clients.async_tcp import AsyncTCPNetworkClient

                async def main() -> None:
                    a.setblocking(False)
                    client = AsyncTCPNetworkClient(a, proto, **_client_kw(mode, ctx_kind), ssl_handshake_timeout=10, ssl_shutdown_timeout=2)
                    await client.wait_connected()
                    events.append({"ev": "wrap_ok"})
                    if behaviour == "observe_close":
                        await asyncio.wait_for(client.recv_packet(), 5)
                        await client.aclose()
                    else:
                        for _ in range(3):
                            try:
                                await asyncio.wait_for(client.recv_packet(), 5)
                            except Exception as exc:  # noqa: BLE001
                                caller.append(_caller_outcome(exc))
                                break
                        for _ in range(2):
                            try:
                                await asyncio.wait_for(client.recv_packet(), 5)
                                caller.append("caller_data")
                            except Exception as exc:  # noqa: BLE001
                                caller.append(_caller_outcome(exc))
                        await client.aclose()

                try:
                    asyncio.run(main())
                except Exception as exc:  # noqa: BLE001
                    events.append({"ev": "crash:" + type(exc).__name__})
    finally:
        if old_cert is None:
            os.environ.pop("SSL_CERT_FILE", None)
        else:
            os.environ["SSL_CERT_FILE"] = old_cert
        th.join(15)
        for s_ in (a, b):
            try:
                s_.close()
            except OSError:
                pass
    meta = f"{'AsyncTCPNetworkClient' if flavour == 'async' else 'TCPNetworkClient'} ssl={'True' if ctx_kind == 'library' else 'user context'} ssl_standard_compatible={mode} {'buffered' if buffered else 'copy'} peer={behaviour} peer_error={result.get('peer_error')}"
    if behaviour == "observe_close":
        evs = [{"ev": "lib_close"}, {"ev": result.get("saw", "peer_nothing")}, {"ev": "end"}]
        if any(e["ev"].startswith("crash") for e in events):
            evs.insert(0, next(e for e in events if e["ev"].startswith("crash")))
        return {"kind": "close", "par": {"standard": standard, "variant": "first"}, "events": traces.uniform(evs, EVD), "meta": meta}
    # reading half: what the transport told its reader (stop at the first eof / error)
    evs = list(events)
    got = 0
    for e in log:
        if e["ev"] == "data":
            evs.append({"ev": "data", "n": e["n"], "ok": True})
            got += e["n"]
        else:
            evs.append({"ev": e["ev"]})
            break
    evs += [{"ev": c} for c in caller]
    return {"kind": "read", "par": {"total": 2, "cut": 1 if behaviour == "truncate" else 2, "plain": len(MSG), "standard": standard}, "events": traces.uniform(evs, EVD), "meta": meta}


def server_scenario(standalone: bool, mode: str, behaviour: str) -> dict[str, Any]:
    """A TLS server built by the library; the peer is a stdlib TLS client.  behaviour: "truncate" (the peer drops the connection after one
    request) | "observe_close" (the handler closes the client after answering; what does the peer see?)."""
    from easynetwork.protocol import StreamProtocol
    from easynetwork.serializers.line import StringLineSerializer
    from easynetwork.servers.async_tcp import AsyncTCPNetworkServer
    from easynetwork.servers.handlers import AsyncStreamRequestHandler
    from easynetwork.servers.standalone_tcp import StandaloneTCPNetworkServer

    class Handler(AsyncStreamRequestHandler[str, str]):
        async def handle(self, client: Any) -> Any:
            req = yield
            await client.send_packet("answer to " + req)
            if behaviour == "observe_close":
                await client.aclose()

    kw: dict[str, Any] = {"ssl": tlspeer.server_context(), "ssl_handshake_timeout": 10, "ssl_shutdown_timeout": 2}
    if mode != "unset":
        kw["ssl_standard_compatible"] = mode == "true"
    standard = mode != "false"
    log: list[dict[str, Any]] = []
    result: dict[str, str] = {}

    def peer(port: int) -> None:
        try:
            raw = socket.create_connection(("127.0.0.1", port), timeout=10)
            s = tlspeer.client_context().wrap_socket(raw, server_hostname="localhost", suppress_ragged_eofs=False)
            s.sendall(b"request\n")
            buf = b""
            while not buf.endswith(b"\n"):
                chunk = s.recv(4096)
                if not chunk:
                    break
                buf += chunk
            if behaviour == "truncate":
                s.close()  # no unwrap: FIN without a close notification
            else:
                try:
                    while True:
                        if not s.recv(4096):
                            result["saw"] = "peer_clean"
                            break
                except (ssl.SSLError, OSError):
                    result["saw"] = "peer_truncated"
                s.close()
        except Exception as exc:  # noqa: BLE001
            result["peer_error"] = f"{type(exc).__name__}: {exc}"

    with _spy(log):
        if standalone:
            server = StandaloneTCPNetworkServer("127.0.0.1", 0, StreamProtocol(StringLineSerializer()), Handler(), **kw)
            up = threading.Event()
            st = threading.Thread(target=lambda: server.serve_forever(is_up_event=up), daemon=True)
            st.start()
            up.wait(10)
            port = server.get_addresses()[0].port
            pt = threading.Thread(target=peer, args=(port,), daemon=True)
            pt.start()
            pt.join(15)
            time.sleep(0.3)
            server.shutdown(timeout=10)
            server.server_close()
            st.join(10)
        else:

            async def main() -> None:
                server = AsyncTCPNetworkServer("127.0.0.1", 0, StreamProtocol(StringLineSerializer()), Handler(), **kw)
                up = asyncio.Event()
                task = asyncio.ensure_future(server.serve_forever(is_up_event=up))
                await asyncio.wait_for(up.wait(), 10)
                port = server.get_addresses()[0].port
                pt = threading.Thread(target=peer, args=(port,), daemon=True)
                pt.start()
                await asyncio.get_running_loop().run_in_executor(None, pt.join, 15)
                await asyncio.sleep(0.3)
                await server.shutdown()
                await server.server_close()
                await asyncio.gather(task, return_exceptions=True)

            asyncio.run(main())
    meta = f"{'StandaloneTCPNetworkServer' if standalone else 'AsyncTCPNetworkServer'} ssl_standard_compatible={mode} peer={behaviour} peer_error={result.get('peer_error')}"
    if behaviour == "observe_close":
        evs = [{"ev": "lib_close"}, {"ev": result.get("saw", "peer_nothing")}, {"ev": "end"}]
        return {"kind": "close", "par": {"standard": standard, "variant": "first"}, "events": traces.uniform(evs, EVD), "meta": meta}
    evs: list[dict[str, Any]] = [{"ev": "wrap_ok"}]
    for e in log:
        if e["ev"] == "data":
            evs.append({"ev": "data", "n": e["n"], "ok": True})
        else:
            evs.append({"ev": e["ev"]})
            break
    return {"kind": "read", "par": {"total": 2, "cut": 1, "plain": len(b"request\n"), "standard": standard}, "events": traces.uniform(evs, EVD), "meta": meta}


def run(chk: Check) -> None:
    rec: list[dict[str, Any]] = []
    for flavour in ("async", "blocking"):
        for mode in ("unset", "true", "false"):
            for ctx_kind in ("library", "user"):
                for behaviour in ("truncate", "orderly", "observe_close"):
                    rec.append(client_scenario(flavour, mode, ctx_kind, behaviour, buffered=(behaviour == "truncate" and ctx_kind == "user")))
    for standalone in (False, True):
        for mode in ("unset", "true", "false"):
            for behaviour in ("truncate", "observe_close"):
                rec.append(server_scenario(standalone, mode, behaviour))
    reads = [t for t in rec if t["kind"] == "read"]
    closes = [t for t in rec if t["kind"] == "close"]
    r1 = traces.validate("TLSTruncationTrace", [{"par": t["par"], "events": t["events"]} for t in reads], cfg_text=TRACE_CFG, parallel=1, chunk=500)
    r2 = traces.validate("TLSCloseTrace", [{"par": t["par"], "events": t["events"]} for t in closes], cfg_text=TRACE_CFG, parallel=1, chunk=500)
    chk.traces += len(rec)
    for t in rec:
        chk.distinct.add(t["meta"])
    chk.extra["library_built_tls_endpoints"] = {"sessions": len(rec), "reading_half": len(reads), "writing_half": len(closes), "rejected": len(r1.rejected) + len(r2.rejected)}
    for group, res, spec in ((reads, r1, "TLSTruncation"), (closes, r2, "TLSClose")):
        for idx, pos in sorted(res.rejected.items()):
            t = group[idx]
            failing = t["events"][pos - 1] if 0 < pos <= len(t["events"]) else None
            chk.violation(
                {"kind": "trace", "spec": spec, "transport": "endpoint:" + t["meta"].split()[0], "event": (failing or {}).get("ev", "?"), "standard": t["par"]["standard"]},
                f"library-built TLS endpoint: not an allowed observation (event #{pos}: {failing}) -- {t['meta']} events={[(e['ev'], e['n']) for e in t['events']]}",
                {"kind": "tls_endpoint", "meta": t["meta"], "events": t["events"]},
            )
