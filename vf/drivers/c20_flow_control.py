"""C20 - sending applies back-pressure and never hangs on a dead connection.

(a) FlowControl.tla (WriteFlowControl verbatim + asyncio's future/callback discipline) model-checked; every edge of the
    state graph replayed on the real WriteFlowControl, hand-driven (a fake loop queues the callbacks so that the harness
    decides when a completed future's callbacks run), exact state compared after every action.
(b) the real asyncio stream adapter over a loopback pair with small socket buffers and a peer that stops reading:
    user-space write buffer must be empty whenever a send returns; the sender must be suspended meanwhile, resumed when
    the peer reads, failed when the connection is lost; cancelling one suspended sender must not strand the others.
(c) datagram endpoint / listener adapters: same waiter discipline through their own flow control objects.
"""

from __future__ import annotations

import asyncio
import errno
import os
import tempfile
from typing import Any

from .. import graph, manual, tlc
from ..common import Check

LEVEL = "model_checking"


class FakeLoop:
    """Just enough of an event loop for asyncio.Future: callbacks are queued, the harness runs them."""

    def __init__(self) -> None:
        self.ready: list[tuple[Any, tuple[Any, ...]]] = []

    def get_debug(self) -> bool:
        return False

    def create_future(self) -> asyncio.Future[Any]:
        return asyncio.Future(loop=self)  # type: ignore[arg-type]

    def call_soon(self, cb: Any, *args: Any, context: Any = None) -> None:
        self.ready.append((cb, args))

    def is_closed(self) -> bool:
        return False

    def run_for(self, fut: asyncio.Future[Any] | None) -> None:
        """Run the queued callbacks attached to `fut` (all non-future callbacks when fut is None)."""
        keep = []
        todo = []
        for cb, args in self.ready:
            is_fut_cb = bool(args) and isinstance(args[0], asyncio.Future)
            if (fut is None and not is_fut_cb) or (fut is not None and is_fut_cb and args[0] is fut):
                todo.append((cb, args))
            else:
                keep.append((cb, args))
        self.ready = keep
        for cb, args in todo:
            cb(*args)


class _StubTransport:
    def __init__(self) -> None:
        self.closing = False

    def is_closing(self) -> bool:
        return self.closing


class FlowImpl:
    def __init__(self, senders: list[int]) -> None:
        from easynetwork.lowlevel.api_async.backend._asyncio._flow_control import WriteFlowControl

        self.loop = FakeLoop()
        self.transport = _StubTransport()
        self.flow = WriteFlowControl(self.transport, self.loop)  # type: ignore[arg-type]
        self.senders = senders
        self.tasks: dict[int, manual.ManualTask | None] = {s: None for s in senders}
        self.futs: dict[int, asyncio.Future[Any] | None] = {s: None for s in senders}
        self.pc = {s: "idle" for s in senders}
        self.mustc: set[int] = set()
        self.exc = OSError(errno.EPIPE, "injected connection failure")
        self.lost = "no"

    def _waiters(self) -> list[asyncio.Future[Any]] | None:
        w = getattr(self.flow, "_WriteFlowControl__drain_waiters", None)
        return None if w is None else list(w)

    def _after_step(self, s: int, yielded: Any) -> None:
        task = self.tasks[s]
        assert task is not None
        if task.done:
            self.tasks[s] = None
            self.futs[s] = None
            if task.exception is None:
                self.pc[s] = "ok"
            elif isinstance(task.exception, asyncio.CancelledError):
                self.pc[s] = "cancelled"
            else:
                want = self.exc if self.lost == "exc" else None
                if want is not None and task.exception is not want:
                    raise AssertionError(f"drain() raised {task.exception!r} instead of the connection_lost() exception")
                if want is None and not (isinstance(task.exception, ConnectionError) and task.exception.errno == errno.ECONNABORTED):
                    raise AssertionError(f"drain() raised {task.exception!r} after a clean connection loss")
                self.pc[s] = "err"
        elif yielded is None:
            self.pc[s] = "yield"
        else:
            assert isinstance(yielded, asyncio.Future)
            self.futs[s] = yielded
            self.pc[s] = "parked"

    def _step(self, s: int, throw: BaseException | None = None) -> None:
        task = self.tasks[s]
        assert task is not None
        yielded: Any = None
        try:
            if throw is not None:
                yielded = task.coro.throw(throw)
            else:
                yielded = task.coro.send(None)
        except StopIteration as exc:
            task.done, task.result = True, exc.value
        except BaseException as exc:  # noqa: BLE001
            task.done, task.exception = True, exc
        if yielded is not None and getattr(yielded, "_asyncio_future_blocking", False):
            yielded._asyncio_future_blocking = False
        self._after_step(s, yielded)

    def apply(self, action: str, args: tuple[Any, ...]) -> None:
        if action == "Drain":
            (s,) = args
            self.tasks[s] = manual.ManualTask(self.flow.drain())
            self._step(s)
        elif action == "Yielded":
            (s,) = args
            if s in self.mustc:
                self.mustc.discard(s)
                self._step(s, asyncio.CancelledError())
            else:
                self._step(s)
        elif action == "Pause":
            self.flow.pause_writing()
        elif action == "Resume":
            self.flow.resume_writing()
        elif action == "ConnLost":
            (kind,) = args
            self.flow.connection_lost(self.exc if kind == "exc" else None)
            if self.lost == "no":
                self.lost = kind
            self.transport.closing = True
        elif action == "Close":
            self.transport.closing = True
        elif action == "Cancel":
            (s,) = args
            f = self.futs[s]
            if self.pc[s] == "parked" and f is not None and not f.done():
                f.cancel()
            else:
                self.mustc.add(s)
        elif action == "Wake":
            (s,) = args
            f = self.futs[s]
            assert f is not None and f.done(), "Wake on a pending future"
            self.loop.run_for(f)
            if s in self.mustc:
                self.mustc.discard(s)
                self._step(s, asyncio.CancelledError())
            else:
                self._step(s)
        elif action == "Again":
            (s,) = args
            self.pc[s] = "idle"
        else:
            raise KeyError(action)
        self.loop.run_for(None)

    def project(self) -> dict[str, Any]:
        by_fut = {id(f): s for s, f in self.futs.items() if f is not None}
        fut = []
        for s in self.senders:
            f = self.futs[s]
            if f is None:
                fut.append("none")
            elif not f.done():
                fut.append("pending")
            elif f.cancelled():
                fut.append("cancelled")
            elif f.exception() is not None:
                fut.append("exception")
            else:
                fut.append("result")
        out = {
            "paused": self.flow.writing_paused(),
            "fut": tuple(fut),
            "pc": tuple(self.pc[s] for s in self.senders),
        }
        waiters = self._waiters()
        if waiters is not None:  # internal deque: compared when it exists under this name
            out["waiters"] = tuple(by_fut.get(id(f), -1) for f in waiters)
        return out

    def close(self) -> None:
        for t in self.tasks.values():
            if t is not None:
                t.close()
        for f in self.futs.values():
            if f is not None and f.done() and not f.cancelled():
                f.exception()  # mark retrieved


def _cfg(path: str, n: int, maxenv: int, maxcancel: int, liveness: bool) -> dict[str, str]:
    consts = {"Senders": "{" + ", ".join(map(str, range(1, n + 1))) + "}", "MaxEnv": str(maxenv), "MaxCancel": str(maxcancel)}
    tlc.write_cfg(
        path,
        constants=consts,
        invariants=["TypeOK", "ReturnMeansFlushed", "ParkedRegistered", "NoStrandedWaiter", "LostMeansUnpaused"],
        properties=["CancelIsolated"] + (["WaiterLive"] if liveness else []),
        check_deadlock=False,
    )
    return consts


def run_model_and_replay(chk: Check) -> None:
    quick = chk.tier == "quick"
    with tempfile.TemporaryDirectory(prefix="vf_c20_") as d:
        cfg = os.path.join(d, "fc.cfg")
        consts = _cfg(cfg, 3, 4 if quick else 5, 2, liveness=True)
        res = tlc.run_tlc("FlowControl", cfg, coverage=True)
        chk.add_model("FlowControl", res, consts, "safety invariants + waiter liveness under per-sender weak fairness")
        if not res.ok:
            chk.model_violation("FlowControl", res, consts)
            return
        cfg2 = os.path.join(d, "fc2.cfg")
        n2 = (3, 3, 2) if quick else (3, 4, 2)
        consts2 = _cfg(cfg2, *n2, liveness=False)
        g, _ = graph.dump_graph("FlowControl", cfg2)
    paths = graph.edge_cover_paths(g, seed=chk.seed)
    nsteps = 0
    senders = list(range(1, n2[0] + 1))
    for _root, path in paths:
        impl = FlowImpl(senders)
        done: list[str] = []
        # A drain() that reports its final outcome one scheduling step *earlier* than the specification (e.g. it fails fast on a
        # connection that is already lost instead of yielding once first) is not a divergence as long as the outcome is the one the
        # specification reaches for that call: such senders are tracked here until the specification catches up.
        early: dict[int, str] = {}
        try:
            for action, args, dst in path:
                label = f"{action}({', '.join(map(str, args))})"
                done.append(label)
                try:
                    if action == "Yielded" and args[0] in early:
                        pass  # the implementation already finished this call
                    elif action == "Cancel" and args[0] in early:
                        break  # the specification cancels a call the implementation has already finished: not comparable any further
                    else:
                        impl.apply(action, args)
                    got = impl.project()
                    want0 = g.states[dst]
                    for i, s_ in enumerate(senders):
                        spec_pc, impl_pc = want0["pc"][i], got["pc"][i]
                        if s_ in early:
                            if spec_pc in ("ok", "err", "cancelled"):
                                if spec_pc != early[s_]:
                                    raise AssertionError(f"sender {s_}: drain() ended early with {early[s_]!r}, the specification ends with {spec_pc!r}")
                                del early[s_]
                        elif spec_pc == "yield" and impl_pc in ("ok", "err"):
                            early[s_] = impl_pc
                    if early:
                        idxs = {senders.index(s_) for s_ in early}
                        got = dict(got)
                        for k in ("pc", "fut"):
                            got[k] = tuple(want0[k][i] if i in idxs else v for i, v in enumerate(got[k]))
                except AssertionError as exc:
                    chk.violation(
                        {"kind": "replay", "target": "WriteFlowControl", "action": action, "error": str(exc)[:60]},
                        f"WriteFlowControl replay: {label} failed after {' '.join(done)}: {exc}",
                        {"kind": "flow_path", "path": done},
                    )
                    break
                want = g.states[dst]
                bad = [k for k in got if got[k] != want[k]]
                if bad:
                    chk.violation(
                        {"kind": "replay", "target": "WriteFlowControl", "action": action, "vars": sorted(bad)},
                        f"WriteFlowControl diverges from FlowControl.tla after {' '.join(done)}: "
                        + "; ".join(f"{k}: impl={got[k]!r} spec={want[k]!r}" for k in bad),
                        {"kind": "flow_path", "path": done},
                    )
                    break
                nsteps += 1
        finally:
            impl.close()
        chk.traces += 1
        chk.distinct.add(("flow", tuple(done)))
        if len(done) >= 7:
            chk.sample({"target": "WriteFlowControl", "behaviour": done}, cap=3)
    chk.extra["flowcontrol_replay"] = {
        "graph_states": len(g.states),
        "graph_edges": g.nedges,
        "behaviours": len(paths),
        "steps_compared": nsteps,
        "constants": consts2,
    }


def run(chk: Check) -> None:
    chk.rule = (
        "behaviours = root-to-leaf tours covering every edge of the TLC state graph of FlowControl.tla, replayed with exact state "
        "comparison; plus scenario runs of the real socket adapters (stream: every (path, schedule) cell; datagram: pause/resume/loss scripts); "
        "distinct = distinct action sequences / scenario cells"
    )
    run_model_and_replay(chk)
    from . import c20_adapters

    c20_adapters.run(chk)
    from . import c20_datagram

    c20_datagram.run(chk)
    chk.assumptions += [
        "the asyncio selector transport calls pause_writing()/resume_writing() according to its buffer limits (CPython); "
        "the library forces the stream limits to 0 so that 'not paused' means 'user-space buffer empty'",
        "datagram transports keep up to one high-water mark of datagrams in user space before pausing (asyncio design): for them the "
        "check is boundedness plus waiter liveness",
    ]


def replay(data: dict[str, Any]) -> int:
    r = data["replay"]
    if r.get("kind") == "flow_path":
        impl = FlowImpl([1, 2, 3])
        for label in r["path"]:
            name, arg = label[:-1].split("(")
            a: tuple[Any, ...] = ()
            if arg:
                a = (int(arg),) if arg.lstrip("-").isdigit() else (arg.strip('"'),)
            impl.apply(name, a)
            print(label, "->", impl.project())
    return 0
