"""C18 - server lifecycle operations are safe in every order.

Lifecycle.tla models the threaded standalone server around the asynchronous one (locks, events, threads portal, the asynchronous
set-up guard) and is model-checked with TLC: deadlock check, termination, "a returned server_close leaves no open listener",
"shutdown returns only when serving has stopped", one serving thread at a time.  LifecycleTrace.tla states the lifecycle laws over a
recorded history of calls; histories of the real asynchronous TCP/UDP servers (seeded interleavings of up to 3 actors x 3 calls with a
slow service_init, in virtual time) and of the real standalone servers (real threads, scripted schedules incl. the close-during-set-up
window, watchdog on every call) are validated by TLC against it.
"""

from __future__ import annotations

import asyncio
import os
import random
import tempfile
import threading
import time
from typing import Any

from .. import harness, memtransport, srvharness, tlc, traces, vloop
from ..common import Check

LEVEL = "model_checking"
TRACE_CFG = "INIT TInit\nNEXT TNext\nCONSTRAINT Constr\nPOSTCONDITION Post\nCHECK_DEADLOCK FALSE\n"
EVD = {"ev": "", "a": 0, "out": "", "serving": False, "listening": False}


def _model(chk: Check, quick: bool) -> None:
    with tempfile.TemporaryDirectory(prefix="vf_c18_") as d:
        for fix in (True, False):
            cfg = os.path.join(d, f"mc_{fix}.cfg")
            consts = {
                "Servers": '{"s1", "s2"}',
                "Closers": '{"c1"}' if quick or not fix else '{"c1", "c2"}',
                "Stoppers": '{"d1"}',
                "FixF5": "TRUE" if fix else "FALSE",
            }
            tlc.write_cfg(cfg, constants=consts, invariants=["CloseCloses", "AtMostOneServing"], properties=["ShutdownStops", "Termination"], check_deadlock=True)
            res = tlc.run_tlc("Lifecycle", cfg, timeout=900)
            chk.add_model(f"Lifecycle[standalone,{'close waits for the set-up guard' if fix else 'as written'}]", res, consts, "deadlock, termination, CloseCloses, ShutdownStops, AtMostOneServing")
            if fix and not res.ok:
                chk.model_violation("Lifecycle", res, consts)
            if not fix:
                chk.extra["as_written_counterexample"] = {"violation": res.violation, "trace": [s["action"] for s in res.trace][:25]}
                if res.ok:
                    chk.machinery_errors.append("Lifecycle with FixF5=FALSE is expected to violate CloseCloses (model lost its sensitivity)")
                else:
                    chk.violation(
                        {"kind": "model", "module": "Lifecycle", "what": "close_during_setup"},
                        f"TLC: {res.violation} in Lifecycle (standalone server_close answered 'busy' inside the set-up guard is swallowed)",
                        {"kind": "tlc_counterexample", "constants": consts, "trace": [s["action"] for s in res.trace]},
                    )


# ---------------------------------------------------------------------------------------------------------------
# asynchronous servers


DIRECTED: list[dict[int, list[tuple[float, str]]]] = [
    # a second shutdown() lands inside a slow tear-down; then somebody serves again / closes
    {1: [(0, "serve")], 2: [(1.5, "shutdown")], 3: [(1.75, "shutdown"), (0, "serve")]},
    {1: [(0, "serve")], 2: [(1.5, "shutdown")], 3: [(2.0, "shutdown"), (0, "close")]},
    {1: [(0, "serve")], 2: [(1.5, "shutdown"), (0.25, "shutdown")], 3: [(1.6, "serve")]},
    # shutdown / close land inside a slow set-up
    {1: [(0, "serve")], 2: [(0.25, "shutdown")], 3: [(0.5, "serve")]},
    {1: [(0, "serve")], 2: [(0.25, "close")], 3: [(1.5, "shutdown")]},
]


async def _async_history(seed: int, udp: bool, directed: int | None = None, real: bool = False) -> dict[str, Any]:
    from easynetwork.exceptions import BusyResourceError, ServerAlreadyRunning, ServerClosedError
    from easynetwork.protocol import DatagramProtocol, StreamProtocol
    from easynetwork.serializers.line import StringLineSerializer
    from easynetwork.servers.handlers import AsyncDatagramRequestHandler, AsyncStreamRequestHandler

    rng = random.Random(seed)
    events: list[dict[str, Any]] = []
    listeners: list[Any] = []
    import socket

    class RecordingBackend(harness.HarnessBackend):
        """real=True: the listeners are the ones the asyncio backend builds on real loopback sockets; they are only recorded."""

        async def create_tcp_listeners(self, *args: Any, **kwargs: Any) -> Any:
            lsts = await super().create_tcp_listeners(*args, **kwargs)
            if real:
                listeners.extend(lsts)
            return lsts

        async def create_udp_listeners(self, *args: Any, **kwargs: Any) -> Any:
            lsts = await super().create_udp_listeners(*args, **kwargs)
            if real:
                listeners.extend(lsts)
            return lsts

    backend = RecordingBackend()

    lsock = socket.socket(socket.AF_INET, socket.SOCK_DGRAM if udp else socket.SOCK_STREAM)
    lsock.bind(("127.0.0.1", 0))
    init_delay = rng.choice([0, 0.5, 1.0])
    teardown_delay = rng.choice([0, 0, 0.75, 1.25])
    register_first = rng.random() < 0.5
    handler_delay = rng.choice([0, 0, 0.3, 2.0])
    if directed is not None:
        init_delay, teardown_delay = (1.0, 0) if directed >= 3 else (0, 1.25)
        register_first = True

    async def slow_setup_and_teardown(exit_stack: Any, server: Any) -> None:
        # a tear-down that may take a while: shutdown() calls issued meanwhile must still wait for the end of it
        async def teardown() -> None:
            if teardown_delay:
                await server.backend().ignore_cancellation(asyncio.sleep(teardown_delay))
            ev("svc_down")

        if register_first:
            # registered before service_init waits: a shutdown() / failure landing inside that wait must still run it
            ev("svc_init")
            exit_stack.push_async_callback(teardown)
        await asyncio.sleep(init_delay)
        if not register_first:
            ev("svc_init")
            exit_stack.push_async_callback(teardown)

    if udp:
        from easynetwork.lowlevel.socket import INETSocketAttribute
        from easynetwork.servers.async_udp import AsyncUDPNetworkServer

        class H(AsyncDatagramRequestHandler[str, str]):
            async def service_init(self, exit_stack: Any, server: Any) -> None:
                await slow_setup_and_teardown(exit_stack, server)

            async def handle(self, client: Any) -> Any:
                req = yield
                # (a busy handler: the other datagrams of this address wait in its queue meanwhile)
                await asyncio.sleep(handler_delay)
                await client.send_packet(req)

        def make(*a: Any, **kw: Any) -> list[Any]:
            lst = memtransport.MemDatagramListener(
                backend, extra={INETSocketAttribute.socket: lambda: lsock, INETSocketAttribute.family: lambda: lsock.family, INETSocketAttribute.sockname: lambda: lsock.getsockname()}
            )
            listeners.append(lst)
            return [lst]

        if not real:
            backend.udp_listeners_factory = make
        server: Any = AsyncUDPNetworkServer("127.0.0.1", 0, DatagramProtocol(StringLineSerializer()), H(), backend=backend)
    else:
        from easynetwork.servers.async_tcp import AsyncTCPNetworkServer

        class HT(AsyncStreamRequestHandler[str, str]):
            async def service_init(self, exit_stack: Any, server: Any) -> None:
                await slow_setup_and_teardown(exit_stack, server)

            async def handle(self, client: Any) -> Any:
                req = yield
                if req == "big":
                    # an answer the peer does not read: the handler is suspended in send_packet() when the server stops
                    await client.send_packet("x" * 6_000_000)
                else:
                    await client.send_packet(req)

        def make_t(*a: Any, **kw: Any) -> list[Any]:
            lst = memtransport.MemListener(backend, extra=harness.socket_extra(lsock) if False else _listener_extra(lsock))
            listeners.append(lst)
            return [lst]

        if not real:
            backend.tcp_listeners_factory = make_t
        server = AsyncTCPNetworkServer("127.0.0.1", 0, StreamProtocol(StringLineSerializer()), HT(), backend=backend)

    def obs() -> dict[str, bool]:
        return {"serving": bool(server.is_serving()), "listening": any(not lst.is_closing() for lst in listeners)}

    def ev(kind: str, a: int = 0, out: str = "", observe: bool = False) -> None:
        e = {"ev": kind, "a": a, "out": out, "serving": False, "listening": False}
        if observe:
            e.update(obs())
        events.append(e)

    with_clients = rng.random() < 0.5
    client_sock = harness.loopback_tcp_pair() if (with_clients and not udp and not real) else None
    connected: list[Any] = []
    real_clients: list[socket.socket] = []

    def connect_clients() -> None:
        """Clients of the running server: one whose handler waits for a request, one in the middle of a frame, one UDP peer mid-handler."""
        if real:
            addr = server.get_addresses()[0]
            for kind in ("idle", "half_frame") if udp else ("idle", "half_frame", "stalled"):
                c = socket.socket(socket.AF_INET, socket.SOCK_DGRAM if udp else socket.SOCK_STREAM)
                c.setblocking(False)
                try:
                    c.connect((addr.host, addr.port))
                except BlockingIOError:
                    pass
                real_clients.append(c)
                if udp:
                    for k in range(3):
                        c.send(b"hello%d\n" % k)
                elif kind == "half_frame":
                    asyncio.get_running_loop().call_later(0.05, lambda c=c: c.fileno() != -1 and c.send(b"incomplete requ"))
                elif kind == "stalled":
                    asyncio.get_running_loop().call_later(0.05, lambda c=c: c.fileno() != -1 and c.send(b"big\n"))
            return
        lst = listeners[-1]
        if udp:
            for k in range(3):
                lst.push(b"hello%d\n" % k, ("10.0.0.9", 9))
            return
        assert client_sock is not None
        for kind in ("idle", "half_frame"):
            rx, tx = memtransport.MemPipe(), memtransport.MemPipe()
            tr = memtransport.MemStreamTransport(backend, rx, tx, extra=harness.socket_extra(client_sock[1]))
            lst.push(tr)
            if kind == "half_frame":
                rx.feed(b"incomplete requ")
            connected.append(tr)

    class UpEvent:
        def __init__(self, a: int) -> None:
            self.a = a

        def set(self) -> None:
            ev("up", self.a)
            if with_clients:
                asyncio.get_running_loop().call_soon(connect_clients)

    async def do_call(a: int, what: str) -> None:
        if what == "serve":
            ev("serve_call", a)
            try:
                await server.serve_forever(is_up_event=UpEvent(a))
                ev("serve_ret", a, "returned")
            except ServerAlreadyRunning:
                ev("serve_ret", a, "already_running")
            except ServerClosedError:
                ev("serve_ret", a, "closed_error")
            except Exception as exc:  # noqa: BLE001
                inner = ",".join(sorted({type(e).__name__ for e in exc.exceptions})) if isinstance(exc, BaseExceptionGroup) else ""
                ev("serve_ret", a, f"error:{type(exc).__name__}({inner})")
        elif what == "shutdown":
            ev("shutdown_call", a)
            await server.shutdown()
            ev("shutdown_ret", a, observe=True)
        else:
            ev("close_call", a)
            try:
                await server.server_close()
                ev("close_ret", a, "returned", observe=True)
            except BusyResourceError:
                ev("close_ret", a, "busy", observe=True)

    plans: dict[int, list[tuple[float, str]]] = {
        a: [(rng.choice([0, 0, 0.25, 0.5, 1.0, 1.5]), rng.choice(["serve", "serve", "shutdown", "close"])) for _ in range(rng.randint(1, 3))] for a in (1, 2, 3)
    }
    if directed is not None:
        plans = DIRECTED[directed]

    async def actor(a: int) -> None:
        for delay, what in plans[a]:
            await asyncio.sleep(delay)
            await do_call(a, what)

    tasks = [asyncio.ensure_future(actor(a)) for a in (1, 2, 3)]
    done, pending = await asyncio.wait(tasks, timeout=12)
    # whatever is still serving is stopped by the harness (actor 9): every call must return
    stuck = False

    async def bounded(what: str) -> None:
        # (a lifecycle call of the harness that does not return is a verdict, not a reason for the check to wait for ever)
        nonlocal stuck
        t = asyncio.ensure_future(do_call(9, what))
        d, _p = await asyncio.wait([t], timeout=60)
        if not d:
            stuck = True
            t.cancel()

    for _ in range(4):
        # (an actor may serve again after the harness stopped it: its plan is not over)
        if not pending or stuck:
            break
        await bounded("shutdown")
        done, pending = await asyncio.wait(tasks, timeout=30)
    if not stuck:
        await asyncio.sleep(2)
        ev("probe", observe=True)
        await bounded("close")
        done, pending = await asyncio.wait(tasks, timeout=30)
    if pending or stuck:
        ev("hang")
        for t in pending:
            t.cancel()
    else:
        await asyncio.sleep(1)
        ev("probe", observe=True)
        ev("end")
    lsock.close()
    if real_clients and not udp and events and events[-1]["ev"] == "end":
        # every connection of a server that stopped serving has been closed by it: the peers read the end of the stream (or a reset).
        # (a peer that had stopped reading first has to read what the server's closing transport still flushes: the loop keeps running)
        for c in real_clients:
            closed = False
            for _ in range(400):
                try:
                    if not c.recv(1 << 20):
                        closed = True
                        break
                except BlockingIOError:
                    await asyncio.sleep(0.01)
                except OSError:
                    closed = True
                    break
            if not closed:
                events[-1] = {"ev": "client_left_open", "a": 0, "out": "", "serving": False, "listening": False}
    for c in real_clients:
        c.close()
    if client_sock is not None:
        # every connection of a server that stopped serving has been closed by it
        await asyncio.sleep(0)
        if any(not tr.closed for tr in connected) and events and events[-1]["ev"] == "end":
            events[-1] = {"ev": "client_left_open", "a": 0, "out": "", "serving": False, "listening": False}
        for s_ in client_sock:
            s_.close()
    return {
        "events": events,
        "meta": f"async {'UDP' if udp else 'TCP'}{' over real loopback sockets' if real else ''} seed={seed} plans={plans} service_init={init_delay}s "
        f"(tear-down registered {'before' if register_first else 'after'} its wait) teardown={teardown_delay}s connected_clients={with_clients}"
        + (f" (3 datagrams per address, handler busy for {handler_delay}s)" if udp and with_clients else ""),
    }


def _listener_extra(sock: Any) -> dict[Any, Any]:
    from easynetwork.lowlevel.socket import INETSocketAttribute

    return {INETSocketAttribute.socket: lambda: sock, INETSocketAttribute.family: lambda: sock.family, INETSocketAttribute.sockname: lambda: sock.getsockname()}


# ---------------------------------------------------------------------------------------------------------------
# standalone (threaded) servers


def _standalone_history(scenario: str) -> dict[str, Any]:
    import socket

    from easynetwork.exceptions import ServerAlreadyRunning, ServerClosedError
    from easynetwork.protocol import StreamProtocol
    from easynetwork.serializers.line import StringLineSerializer
    from easynetwork.servers.handlers import AsyncStreamRequestHandler
    from easynetwork.servers.standalone_tcp import StandaloneTCPNetworkServer

    events: list[dict[str, Any]] = []
    lock = threading.Lock()
    listeners: list[Any] = []
    backend = harness.HarnessBackend()
    lsock = socket.socket(socket.AF_INET, socket.SOCK_STREAM)
    lsock.bind(("127.0.0.1", 0))
    init_delay = 0.4 if scenario in ("close_during_setup", "thread_helper_shutdown_during_startup") else 0.0

    class H(AsyncStreamRequestHandler[str, str]):
        async def service_init(self, exit_stack: Any, server: Any) -> None:
            await asyncio.sleep(init_delay)

        async def handle(self, client: Any) -> Any:
            req = yield
            await client.send_packet(req)
            if req == "bye":
                # the server closes this connection first, and gracefully: its port keeps the connection in TIME_WAIT afterwards
                await client.aclose()

    def make(*a: Any, **kw: Any) -> list[Any]:
        lst = memtransport.MemListener(backend, extra=_listener_extra(lsock))
        listeners.append(lst)
        return [lst]

    real = scenario == "restart_same_port"
    port = 0
    if real:
        # the listeners the asyncio backend builds, on a port chosen beforehand: every serve_forever() binds it again
        # (a port outside the range the kernel hands out to connecting sockets, so that nobody takes it between two serve calls)
        lsock.close()
        for k in range(50):
            port = 20000 + (os.getpid() * 7 + k * 131) % 10000
            probe = socket.socket(socket.AF_INET, socket.SOCK_STREAM)
            try:
                probe.bind(("127.0.0.1", port))
            except OSError:
                continue
            finally:
                probe.close()
            break
        lsock = socket.socket(socket.AF_INET, socket.SOCK_STREAM)
    else:
        backend.tcp_listeners_factory = make
    server = StandaloneTCPNetworkServer("127.0.0.1", port, StreamProtocol(StringLineSerializer()), H(), backend=backend)

    def obs() -> dict[str, bool]:
        if real:
            return {"serving": bool(server.is_serving()), "listening": bool(server.get_sockets())}
        return {"serving": bool(server.is_serving()), "listening": any(not lst.is_closing() for lst in listeners)}

    def ev(kind: str, a: int = 0, out: str = "", observe: bool = False) -> None:
        e = {"ev": kind, "a": a, "out": out, "serving": False, "listening": False}
        if observe:
            e.update(obs())
        with lock:
            events.append(e)

    class UpEvent:
        def __init__(self, a: int) -> None:
            self.a = a
            self.flag = threading.Event()

        def set(self) -> None:
            ev("up", self.a)
            self.flag.set()

    ups: dict[int, UpEvent] = {}

    def serve(a: int) -> None:
        ups[a] = UpEvent(a)
        ev("serve_call", a)
        try:
            server.serve_forever(is_up_event=ups[a])
            ev("serve_ret", a, "returned")
        except ServerAlreadyRunning:
            ev("serve_ret", a, "already_running")
        except ServerClosedError:
            ev("serve_ret", a, "closed_error")
        except BaseException as exc:  # noqa: BLE001
            ev("serve_ret", a, "error:" + type(exc).__name__)

    def shutdown(a: int) -> None:
        ev("shutdown_call", a)
        server.shutdown()
        ev("shutdown_ret", a, observe=True)

    def close(a: int) -> None:
        ev("close_call", a)
        server.server_close()
        ev("close_ret", a, "returned", observe=True)

    threads: list[threading.Thread] = []

    def spawn(fn: Any, a: int) -> threading.Thread:
        t = threading.Thread(target=fn, args=(a,), daemon=True)
        threads.append(t)
        t.start()
        return t

    def wait_up(a: int, timeout: float = 5.0) -> bool:
        t0 = time.monotonic()
        while a not in ups and time.monotonic() - t0 < timeout:
            time.sleep(0.005)
        return a in ups and ups[a].flag.wait(timeout)

    hang = False
    try:
        if scenario == "full_cycle":
            spawn(serve, 1)
            wait_up(1)
            t2 = spawn(serve, 2)  # second concurrent serve_forever: refused
            t2.join(5)
            shutdown(3)
            threads[0].join(5)
            ev("probe", observe=True)
            spawn(serve, 1)  # a stopped server can serve again
            wait_up(1)
            close(3)
            threads[-1].join(5)
            ev("probe", observe=True)
            t4 = spawn(serve, 2)  # a closed server refuses
            t4.join(5)
        elif scenario == "close_during_setup":
            spawn(serve, 1)
            time.sleep(0.15)  # the asynchronous serve_forever is inside its set-up guard (slow service_init)
            close(3)
            time.sleep(0.6)
            ev("probe", observe=True)
            shutdown(4)
            threads[0].join(5)
        elif scenario == "concurrent_shutdowns":
            spawn(serve, 1)
            wait_up(1)
            a = spawn(shutdown, 2)
            b = spawn(shutdown, 3)
            a.join(5)
            b.join(5)
            threads[0].join(5)
            ev("probe", observe=True)
            close(4)
        elif scenario == "close_while_serving_then_shutdown":
            spawn(serve, 1)
            wait_up(1)
            c = spawn(close, 2)
            c.join(5)
            d = spawn(shutdown, 3)
            d.join(5)
            threads[0].join(5)
            ev("probe", observe=True)
        elif scenario == "simultaneous_serves":
            # two threads enter serve_forever() together: both are held at the server's first lock, then released
            holder = next((getattr(server, n) for n in dir(server) if n.endswith("__close_lock")), None)
            lk = holder.get() if holder is not None and hasattr(holder, "get") else None
            if lk is not None:
                lk.acquire()
            spawn(serve, 1)
            spawn(serve, 2)
            time.sleep(0.25)
            if lk is not None:
                lk.release()
            t0 = time.monotonic()
            while time.monotonic() - t0 < 5 and not any(u.flag.is_set() for u in list(ups.values())):
                time.sleep(0.01)
            time.sleep(0.3)
            ev("probe", observe=True)
            shutdown(3)
            for t in list(threads):
                t.join(5)
            close(3)
        elif scenario in ("thread_helper", "thread_helper_shutdown_during_startup"):
            from easynetwork.servers.threads_helper import NetworkServerThread

            helper = NetworkServerThread(server, daemon=True)

            def start(a: int) -> None:
                ev("tstart_call", a)
                helper.start()
                ev("tstart_ret", a)

            st = spawn(start, 1)
            if scenario == "thread_helper":
                st.join(5)
            else:
                time.sleep(0.15)  # inside the slow service_init
            shutdown(3)
            st.join(5)
            helper.join(5)
            if helper.is_alive():
                hang = True
            ev("probe", observe=True)
            close(3)
        elif scenario == "restart_same_port":
            for _round in range(3):
                spawn(serve, 1)
                if not wait_up(1):
                    break
                # a connection that the server will close first (its port keeps the connection in TIME_WAIT afterwards)
                c = socket.create_connection(("127.0.0.1", port), timeout=5)
                c.sendall(b"bye\n")
                try:
                    while c.recv(100):  # the answer, then the end of the stream: the server closed first
                        pass
                except OSError:
                    pass
                c.close()
                c = socket.create_connection(("127.0.0.1", port), timeout=5)
                c.sendall(b"hello\n")
                buf = b""
                while not buf.endswith(b"\n"):
                    d = c.recv(100)
                    if not d:
                        break
                    buf += d
                shutdown(3)
                threads[-1].join(5)
                try:
                    c.settimeout(5)
                    while c.recv(100):
                        pass
                except OSError:
                    pass
                c.close()
                ev("probe", observe=True)
            close(3)
        elif scenario == "shutdown_before_serve":
            shutdown(2)
            spawn(serve, 1)
            wait_up(1)
            shutdown(3)
            threads[0].join(5)
            close(3)
        for t in threads:
            t.join(5)
            if t.is_alive():
                hang = True
    finally:
        if any(t.is_alive() for t in threads):
            try:
                server.shutdown(timeout=2)
                server.server_close()
            except Exception:  # noqa: BLE001
                pass
        lsock.close()
    ev("hang" if hang else "end")
    return {"events": events, "meta": f"standalone TCP scenario={scenario}"}


STANDALONE = [
    "restart_same_port",
    "full_cycle",
    "close_during_setup",
    "concurrent_shutdowns",
    "close_while_serving_then_shutdown",
    "shutdown_before_serve",
    "simultaneous_serves",
    "thread_helper",
    "thread_helper_shutdown_during_startup",
]


def _run_one(arg: tuple[int, bool, int | None] | tuple[int, bool, int | None, bool]) -> dict[str, Any]:
    seed, udp, directed = arg[:3]
    real = len(arg) > 3 and bool(arg[3])
    try:
        return vloop.run(lambda: _async_history(seed, udp=udp, directed=directed, real=real), spin_limit=20000)  # type: ignore[no-any-return]
    except vloop.VirtualDeadlock as exc:
        return {"events": [dict(EVD, ev="deadlock")], "meta": f"async seed={seed} VirtualDeadlock {exc}"}


def run(chk: Check) -> None:
    quick = chk.tier == "quick"
    chk.rule = (
        "histories = seeded interleavings of 3 actors x 1-3 lifecycle calls (serve_forever / shutdown / server_close) with delays of 0-1.5 s of virtual "
        "time around a slow service_init, on the asynchronous TCP and UDP servers; plus scripted schedules on the threaded standalone TCP server; "
        "distinct = distinct event sequences"
    )
    _model(chk, quick)
    from ..common import pmap

    rec: list[dict[str, Any]] = pmap(_run_one, [(chk.seed * 9973 + i, i % 3 == 2, None) for i in range(250 if quick else 10000)])
    rec += [_run_one((chk.seed + k, udp, k)) for k in range(len(DIRECTED)) for udp in (False, True)]
    # the same histories on the listeners the asyncio backend builds over real loopback sockets (serve again after a shutdown, ...)
    rec += pmap(_run_one, [(chk.seed * 7919 + i, i % 2 == 1, None, True) for i in range(80 if quick else 3000)], min_items=40)
    rec += [_run_one((chk.seed + k, udp, k, True)) for k in range(len(DIRECTED)) for udp in (False, True)]
    for sc in STANDALONE:
        rec.append(_standalone_history(sc))
    slim = [{"events": traces.uniform(t["events"], EVD)} for t in rec]
    res = traces.validate("LifecycleTrace", slim, cfg_text=TRACE_CFG, parallel=8, chunk=300)
    chk.traces += len(rec)
    chk.evaluations = len(rec)
    chk.states += res.tlc.distinct
    chk.transitions += res.tlc.generated
    for t in rec:
        chk.distinct.add(tuple((e["ev"], e["a"], e["out"]) for e in t["events"]))
    outs: dict[str, int] = {}
    for t in rec:
        for e in t["events"]:
            if e["ev"] in ("serve_ret", "close_ret"):
                outs[e["ev"] + ":" + e["out"]] = outs.get(e["ev"] + ":" + e["out"], 0) + 1
    chk.extra["histories"] = {"async": len(rec) - len(STANDALONE), "directed_async": 2 * len(DIRECTED), "standalone": len(STANDALONE), "rejected": len(res.rejected), "outcomes": outs}
    chk.sample({"meta": rec[1]["meta"], "events": [(e["ev"], e["a"], e["out"], e["serving"], e["listening"]) for e in rec[1]["events"]]}, cap=3)
    for idx, pos in sorted(res.rejected.items())[:40]:
        t = rec[idx]
        failing = t["events"][pos - 1] if 0 < pos <= len(t["events"]) else None
        standalone = t["meta"].startswith("standalone")
        chk.violation(
            {
                "kind": "trace",
                "spec": "Lifecycle",
                "server": "standalone" if standalone else "async",
                "what": "close_during_setup" if "close_during_setup" in t["meta"] else (failing or {}).get("ev", "?"),
            },
            f"lifecycle: history violates the lifecycle laws (event #{pos}: {failing}) -- {t['meta']} events={[(e['ev'], e['a'], e['out'], e['serving'], e['listening']) for e in t['events']]}",
            {"kind": "lifecycle_history", "meta": t["meta"], "events": t["events"]},
        )
    from . import c18_portal

    c18_portal.run(chk)
    chk.assumptions += [
        "standalone schedules use real threads and short real sleeps to land inside the intended windows (0.15 s into a 0.4 s service_init); a watchdog bounds every join",
        "the asynchronous server_close() refusing loudly with BusyResourceError during the set-up of serve_forever() is accepted (the caller is told); the standalone "
        "wrapper swallowing that refusal is finding F5",
    ]


def replay(data: dict[str, Any]) -> int:
    print(data["replay"].get("meta"))
    for e in data["replay"].get("events", []):
        print(e)
    return 0
