"""C05 - datagrams: one packet per datagram, boundaries preserved, errors isolated.

Datagram.tla is deliberately tiny (no buffer variable: that absence is the property).  Generated packets and seeded interleavings
of valid and malformed datagrams are run through DatagramProtocol, the blocking and asynchronous datagram endpoints (in-memory
transports) and the UDP clients over loopback, for every serializer of the table in one-shot mode (incremental serializers through
their default serialize / deserialize, with and without converters).  Per send: number of datagrams handed to the transport,
payload == make_datagram(p), deserialize(payload) == p; per receive: outcome class and which packet.  Traces are validated by TLC
against DatagramTrace.
"""

from __future__ import annotations

import asyncio
import os
import random
import tempfile
from collections import deque
from typing import Any

from .. import harness, memtransport, mutate, serializers, tlc, traces, vloop
from ..common import Check

LEVEL = "exploration"
TRACE_CFG = "INIT TInit\nNEXT TNext\nCONSTANTS\n  MaxSend = 1000\n  MaxBad = 1000\n  MaxErr = 1000\nCONSTRAINT Constr\nPOSTCONDITION Post\nCHECK_DEADLOCK FALSE\n"
EVD = {"ev": "", "id": 0, "n": 0, "ok": False, "kind": ""}


def _model(chk: Check) -> bool:
    with tempfile.TemporaryDirectory(prefix="vf_c05_") as d:
        cfg = os.path.join(d, "mc.cfg")
        tlc.write_cfg(cfg, constants={"MaxSend": "3", "MaxBad": "2", "MaxErr": "2"}, invariants=["OneOutcomePerDatagram", "PacketsInOrder"], check_deadlock=False)
        res = tlc.run_tlc("Datagram", cfg)
    chk.add_model("Datagram", res, {"MaxSend": 3, "MaxBad": 2, "MaxErr": 2}, "one outcome per datagram, order")
    if not res.ok:
        chk.model_violation("Datagram", res)
        return False
    return True


def _sync_transport_cls() -> Any:
    from easynetwork.lowlevel.api_sync.transports.abc import DatagramTransport

    class MemSyncDatagramTransport(DatagramTransport):
        def __init__(self) -> None:
            super().__init__()
            self.inbox: deque[bytes] = deque()
            self.sent: list[bytes] = []
            self._closed = False

        def close(self) -> None:
            self._closed = True

        def is_closed(self) -> bool:
            return self._closed

        @property
        def extra_attributes(self) -> Any:
            return {}

        def recv(self, timeout: float) -> bytes:
            if not self.inbox:
                raise TimeoutError("nothing queued")
            return self.inbox.popleft()

        def send(self, data: Any, timeout: float) -> None:
            self.sent.append(bytes(data))

    return MemSyncDatagramTransport


def _malformed(entry: serializers.Entry, valid: bytes, rng: random.Random) -> bytes | None:
    """A mutation of a valid payload that the one-shot parser does not accept (None if every one of a few tries is accepted).  A payload on
    which the parser fails with anything else than a parse error is kept too: the endpoint has to answer it with exactly one parse error
    like any other malformed datagram (if it does not, the receive is logged as a crash, which the specification has no action for)."""
    proto = entry.datagram_protocol()
    if entry.excluded is not None and rng.random() < 0.5:
        # malformed by the serializer's documented format, not by what its parser says: a token without a valid checksum
        return rng.choice(entry.excluded(rng, entry.gen(rng)))
    if "JSON" in entry.name and rng.random() < 0.2:
        # documents that make the JSON decoder fail with something else than JSONDecodeError (RecursionError, int conversion limit)
        hostile = rng.choice([b"[" * 6000, b"[" * 3000 + b"]" * 3000, b"9" * 5000, b'{"a":' * 2500 + b"1" + b"}" * 2500, b"[" + b"1" * 4400 + b"]"])
        try:
            proto.build_packet_from_datagram(hostile)
        except Exception:  # noqa: BLE001
            return hostile
    for cand in mutate.mutations(valid, rng, 8):
        try:
            proto.build_packet_from_datagram(cand)
        except Exception:  # noqa: BLE001
            return cand
    return None


def _on_the_wire(entry: serializers.Entry, bad: bytes) -> bytes | None:
    """The malformed datagram as the raw peer sends it over loopback.  An empty one is replaced (an empty datagram has scenarios of its own)
    by a short one that the one-shot parser of this entry refuses as well - b"\x00" is a valid packet for a length-prefixed format -, or dropped."""
    if bad:
        return bad
    proto = entry.datagram_protocol()
    for cand in (b"\x00", b"\xff", b"\xff\xfe\xfd"):
        try:
            proto.build_packet_from_datagram(cand)
        except Exception:  # noqa: BLE001
            return cand
    return None


def _script(entry: serializers.Entry, rng: random.Random) -> tuple[list[Any], list[tuple[str, Any]]]:
    packets = [entry.gen(rng) for _ in range(rng.randint(1, 4))]
    proto = entry.datagram_protocol()
    plan: list[tuple[str, Any]] = []
    for i, p in enumerate(packets):
        if rng.random() < 0.5:
            bad = _malformed(entry, proto.make_datagram(p), rng)
            if bad is not None:
                plan.append(("inject", bad))
        plan.append(("send", i))
    if rng.random() < 0.4:
        bad = _malformed(entry, proto.make_datagram(packets[0]), rng)
        if bad is not None:
            plan.append(("inject", bad))
    return packets, plan


def _check_send(entry: serializers.Entry, p: Any, new: list[bytes]) -> bool:
    proto = entry.datagram_protocol()
    if len(new) != 1:
        return False
    try:
        return new[0] == proto.make_datagram(p) and bool(entry.eq(proto.build_packet_from_datagram(new[0]), p))
    except Exception:  # noqa: BLE001
        return False


def scenario_sync(entry: serializers.Entry, seed: int) -> dict[str, Any]:
    from easynetwork.exceptions import DatagramProtocolParseError
    from easynetwork.lowlevel.api_sync.endpoints.datagram import DatagramEndpoint

    rng = random.Random(seed)
    packets, plan = _script(entry, rng)
    Tcls = _sync_transport_cls()
    ta, tb = Tcls(), Tcls()
    a = DatagramEndpoint(ta, entry.datagram_protocol())
    b = DatagramEndpoint(tb, entry.datagram_protocol())
    events: list[dict[str, Any]] = []
    for kind, arg in plan:
        if kind == "send":
            before = len(ta.sent)
            a.send_packet(packets[arg])
            new = ta.sent[before:]
            events.append({"ev": "send", "id": arg + 1, "n": len(new), "ok": _check_send(entry, packets[arg], new)})
            for d in new:
                tb.inbox.append(d)
        else:
            events.append({"ev": "inject"})
            tb.inbox.append(arg)
        # the receiver drains at random moments
        while tb.inbox and rng.random() < 0.6:
            events.append(_recv_sync(b, packets, entry, DatagramProtocolParseError))
    while tb.inbox:
        events.append(_recv_sync(b, packets, entry, DatagramProtocolParseError))
    a.close()
    b.close()
    return {"events": traces.uniform(events, EVD), "meta": f"DatagramEndpoint {entry.name} seed={seed} packets={packets!r:.80}"}


def _recv_sync(b: Any, packets: list[Any], entry: serializers.Entry, err_cls: Any) -> dict[str, Any]:
    try:
        pkt = b.recv_packet(timeout=0)
    except err_cls:
        return {"ev": "recv", "kind": "err"}
    except Exception as exc:  # noqa: BLE001
        return {"ev": "recv", "kind": "crash:" + type(exc).__name__}
    idx = next((i + 1 for i, p in enumerate(packets) if entry.eq(pkt, p)), 0)
    # identical packets may repeat: prefer the first index not yet delivered is handled by the spec through order; use the lowest match >= last
    return {"ev": "recv", "kind": "pkt", "id": idx, "ok": idx > 0}


async def _scenario_async(entry: serializers.Entry, seed: int) -> dict[str, Any]:
    from easynetwork.exceptions import DatagramProtocolParseError
    from easynetwork.lowlevel.api_async.backend._asyncio.backend import AsyncIOBackend
    from easynetwork.lowlevel.api_async.endpoints.datagram import AsyncDatagramEndpoint

    rng = random.Random(seed)
    packets, plan = _script(entry, rng)
    backend = AsyncIOBackend()
    ta, tb = memtransport.MemDatagramTransport(backend), memtransport.MemDatagramTransport(backend)
    a = AsyncDatagramEndpoint(ta, entry.datagram_protocol())
    b = AsyncDatagramEndpoint(tb, entry.datagram_protocol())
    events: list[dict[str, Any]] = []

    async def recv() -> dict[str, Any]:
        try:
            pkt = await b.recv_packet()
        except DatagramProtocolParseError:
            return {"ev": "recv", "kind": "err"}
        except Exception as exc:  # noqa: BLE001
            return {"ev": "recv", "kind": "crash:" + type(exc).__name__}
        idx = next((i + 1 for i, p in enumerate(packets) if entry.eq(pkt, p)), 0)
        return {"ev": "recv", "kind": "pkt", "id": idx, "ok": idx > 0}

    for kind, arg in plan:
        if kind == "send":
            before = len(ta.sent)
            await a.send_packet(packets[arg])
            new = ta.sent[before:]
            events.append({"ev": "send", "id": arg + 1, "n": len(new), "ok": _check_send(entry, packets[arg], new)})
            for d in new:
                tb.deliver(d)
        else:
            events.append({"ev": "inject"})
            tb.deliver(arg)
        while tb.inbox and rng.random() < 0.6:
            events.append(await recv())
    while tb.inbox:
        events.append(await recv())
    await a.aclose()
    await b.aclose()
    return {"events": traces.uniform(events, EVD), "meta": f"AsyncDatagramEndpoint {entry.name} seed={seed} packets={packets!r:.80}"}


def scenario_udp(entry: serializers.Entry, seed: int) -> dict[str, Any]:
    """The blocking UDP client over loopback: the harness is the peer (raw sockets) so that it sees every datagram."""
    import socket

    from easynetwork.clients.udp import UDPNetworkClient
    from easynetwork.exceptions import DatagramProtocolParseError

    rng = random.Random(seed)
    packets, plan = _script(entry, rng)
    use_iter = rng.random() < 0.5
    it: Any = None
    a, b = harness.loopback_udp_pair()
    a.setblocking(True)
    client = UDPNetworkClient(a, entry.datagram_protocol())
    b.settimeout(2)
    events: list[dict[str, Any]] = []
    proto = entry.datagram_protocol()
    try:
        for kind, arg in plan:
            if kind == "send":
                client.send_packet(packets[arg])
                got = []
                b.settimeout(2)
                try:
                    got.append(b.recv(65536))
                    b.settimeout(0.01)
                    got.append(b.recv(65536))
                except (TimeoutError, socket.timeout, BlockingIOError):
                    pass
                events.append({"ev": "send", "id": arg + 1, "n": len(got), "ok": _check_send(entry, packets[arg], got)})
                # echo it back so that the client also receives it
                b.send(proto.make_datagram(packets[arg]))
            else:
                wire = _on_the_wire(entry, arg)
                if wire is None:
                    continue
                events.append({"ev": "inject"})
                b.send(wire)
            try:
                if use_iter:
                    # one iterator kept across parse errors: an error reported by it must not end it
                    if it is None:
                        it = client.iter_received_packets(timeout=2)
                    pkt = next(it)
                else:
                    pkt = client.recv_packet(timeout=2)
                idx = next((i + 1 for i, p in enumerate(packets) if entry.eq(pkt, p)), 0)
                events.append({"ev": "recv", "kind": "pkt", "id": idx, "ok": idx > 0})
            except DatagramProtocolParseError:
                events.append({"ev": "recv", "kind": "err"})
            except StopIteration:
                events.append({"ev": "recv", "kind": "oserr"})  # (ends on OSError only: there is none in this scenario)
                it = None
            except Exception as exc:  # noqa: BLE001
                events.append({"ev": "recv", "kind": "crash:" + type(exc).__name__})
    finally:
        client.close()
        b.close()
    return {"events": traces.uniform(events, EVD), "meta": f"UDPNetworkClient{'(kept iterator)' if use_iter else ''} {entry.name} seed={seed} packets={packets!r:.80}"}


def _asyncio_protocol_of(client: Any) -> Any:
    """The asyncio protocol object behind an AsyncUDPNetworkClient (to hand-feed error_received), or None."""
    try:
        endpoint = getattr(client, "_AsyncUDPNetworkClient__endpoint")
        transport = getattr(endpoint, "_AsyncDatagramEndpoint__transport")
        low = getattr(transport, "_AsyncioTransportDatagramSocketAdapter__endpoint")
        return getattr(low, "_DatagramEndpoint__protocol")
    except AttributeError:
        return None


async def _scenario_async_udp(entry: serializers.Entry, seed: int) -> dict[str, Any]:
    """AsyncUDPNetworkClient over loopback on the real asyncio datagram transport; the harness is the peer (raw socket).  Datagrams
    pile up while nobody receives, and socket errors (what an ICMP port-unreachable produces) are reported in between through the
    protocol's error_received(), exactly as the event loop does it."""
    from easynetwork.clients.async_udp import AsyncUDPNetworkClient
    from easynetwork.exceptions import DatagramProtocolParseError
    from easynetwork.lowlevel.api_async.backend._asyncio.backend import AsyncIOBackend

    rng = random.Random(seed)
    packets, plan = _script(entry, rng)
    a, b = harness.loopback_udp_pair()
    backend = AsyncIOBackend()
    client = AsyncUDPNetworkClient(a, entry.datagram_protocol(), backend=backend)
    await client.wait_connected()
    proto = entry.datagram_protocol()
    asyncio_protocol = _asyncio_protocol_of(client)
    events: list[dict[str, Any]] = []
    pending = 0  # datagrams + errors the client has not consumed yet

    use_iter = rng.random() < 0.5
    itbox: list[Any] = [None]

    async def recv() -> None:
        try:
            if use_iter:
                if itbox[0] is None:
                    itbox[0] = client.iter_received_packets(timeout=5)
                pkt = await anext(itbox[0])
            else:
                with backend.timeout(5):
                    pkt = await client.recv_packet()
        except StopAsyncIteration:
            # by design the iterator ends on an OSError of recv_packet(): that is how a reported socket error comes out of it
            events.append({"ev": "recv", "kind": "oserr"})
            itbox[0] = None
        except DatagramProtocolParseError:
            events.append({"ev": "recv", "kind": "err"})
        except TimeoutError:
            events.append({"ev": "recv", "kind": "nothing"})
        except OSError:
            events.append({"ev": "recv", "kind": "oserr"})
        except Exception as exc:  # noqa: BLE001
            events.append({"ev": "recv", "kind": "crash:" + type(exc).__name__})
        else:
            idx = next((i + 1 for i, p in enumerate(packets) if entry.eq(pkt, p)), 0)
            events.append({"ev": "recv", "kind": "pkt", "id": idx, "ok": idx > 0})

    try:
        for kind, arg in plan:
            if kind == "send":
                await client.send_packet(packets[arg])
                got = []
                try:
                    got.append(b.recv(70000))
                    got.append(b.recv(70000))
                except BlockingIOError:
                    pass
                events.append({"ev": "send", "id": arg + 1, "n": len(got), "ok": _check_send(entry, packets[arg], got), "kind": "" if proto.make_datagram(packets[arg]) else "empty"})
                b.send(proto.make_datagram(packets[arg]))  # echo
            else:
                wire = _on_the_wire(entry, arg)
                if wire is None:
                    continue
                events.append({"ev": "inject"})
                b.send(wire)
            pending += 1
            for _ in range(3):
                await asyncio.sleep(0)  # the event loop queues the datagram
            if asyncio_protocol is not None and rng.random() < 0.35:
                import errno

                asyncio_protocol.error_received(ConnectionRefusedError(errno.ECONNREFUSED, "Connection refused"))
                events.append({"ev": "sockerr"})
                pending += 1
            while pending and rng.random() < 0.5:
                await recv()
                pending -= 1
        while pending:
            await recv()
            pending -= 1
    finally:
        await client.aclose()
        b.close()
    return {"events": traces.uniform(events, EVD), "meta": f"AsyncUDPNetworkClient{'(kept iterator)' if use_iter else ''} {entry.name} seed={seed} packets={packets!r:.80}"}


def scenario_big(family: str, flavour: str, size: int) -> dict[str, Any]:  # size = 0: the empty datagram
    """A datagram of the maximum size the address family allows (65507 over IPv4, 65527 over IPv6) and its neighbours, through the
    UDP clients over loopback, between two small ones."""
    import socket

    from easynetwork.clients.async_udp import AsyncUDPNetworkClient
    from easynetwork.clients.udp import UDPNetworkClient
    from easynetwork.exceptions import DatagramProtocolParseError
    from easynetwork.protocol import DatagramProtocol
    from easynetwork.serializers.line import StringLineSerializer

    fam = socket.AF_INET6 if family == "ipv6" else socket.AF_INET
    host = "::1" if family == "ipv6" else "127.0.0.1"
    a = socket.socket(fam, socket.SOCK_DGRAM)
    b = socket.socket(fam, socket.SOCK_DGRAM)
    events: list[dict[str, Any]] = []
    try:
        for s_ in (a, b):
            s_.bind((host, 0))
            s_.setsockopt(socket.SOL_SOCKET, socket.SO_RCVBUF, 1 << 20)
            s_.setsockopt(socket.SOL_SOCKET, socket.SO_SNDBUF, 1 << 20)
        a.connect(b.getsockname())
        b.connect(a.getsockname())
        b.settimeout(2)
        protocol = DatagramProtocol(StringLineSerializer())
        packets = ["before", "B" * size, "after"]
        b.setblocking(False)

        def peer_recv() -> list[bytes]:
            import time

            got: list[bytes] = []
            deadline = time.monotonic() + 1.0
            while time.monotonic() < deadline and not got:
                try:
                    got.append(b.recv(70000))
                except BlockingIOError:
                    time.sleep(0.002)
            try:
                got.append(b.recv(70000))
            except BlockingIOError:
                pass
            return got

        def outcome(fn: Any) -> dict[str, Any]:
            try:
                pkt = fn()
            except DatagramProtocolParseError:
                return {"ev": "recv", "kind": "err"}
            except Exception as exc:  # noqa: BLE001
                return {"ev": "recv", "kind": "crash:" + type(exc).__name__}
            idx = next((i + 1 for i, p in enumerate(packets) if pkt == p), 0)
            return {"ev": "recv", "kind": "pkt", "id": idx, "ok": idx > 0}

        if flavour == "blocking":
            a.setblocking(True)
            client = UDPNetworkClient(a, protocol)
            try:
                for i, p in enumerate(packets):
                    client.send_packet(p)
                    got = peer_recv()
                    events.append({"ev": "send", "id": i + 1, "n": len(got), "ok": got[:1] == [protocol.make_datagram(p)]})
                    b.send(protocol.make_datagram(p))
                    events.append(outcome(lambda: client.recv_packet(timeout=2)))
            finally:
                client.close()
        else:

            async def main() -> None:
                from easynetwork.lowlevel.api_async.backend._asyncio.backend import AsyncIOBackend

                backend = AsyncIOBackend()
                a.setblocking(False)
                client = AsyncUDPNetworkClient(a, protocol, backend=backend)
                await client.wait_connected()
                try:
                    for i, p in enumerate(packets):
                        await client.send_packet(p)
                        await asyncio.sleep(0)
                        got = peer_recv()
                        events.append({"ev": "send", "id": i + 1, "n": len(got), "ok": got[:1] == [protocol.make_datagram(p)]})
                        b.send(protocol.make_datagram(p))
                        try:
                            with backend.timeout(2):
                                pkt = await client.recv_packet()
                            events.append(outcome(lambda: pkt))
                        except Exception as exc:  # noqa: BLE001
                            events.append(outcome(lambda: (_ for _ in ()).throw(exc)))
                finally:
                    await client.aclose()

            asyncio.run(main())
    except OSError as exc:
        events.append({"ev": "crash:" + type(exc).__name__})
    finally:
        a.close()
        b.close()
    return {"events": traces.uniform(events, EVD), "meta": f"{'UDPNetworkClient' if flavour == 'blocking' else 'AsyncUDPNetworkClient'} StringLineSerializer {family} {'EMPTY datagram' if size == 0 else f'datagram of {size} bytes'} between two small ones"}


async def _scenario_async_empty_in(family: str, iterate: bool) -> dict[str, Any]:
    """An EMPTY datagram sent by the peer to an AsyncUDPNetworkClient whose protocol does not accept it (JSON): exactly one parse error,
    between two good packets.  (The asynchronous client cannot send an empty datagram itself on this interpreter - finding F13 - so the
    receiving side is exercised on its own, with a blocking peer.)"""
    import socket

    from easynetwork.clients.async_udp import AsyncUDPNetworkClient
    from easynetwork.exceptions import DatagramProtocolParseError
    from easynetwork.lowlevel.api_async.backend._asyncio.backend import AsyncIOBackend
    from easynetwork.protocol import DatagramProtocol
    from easynetwork.serializers.json import JSONSerializer

    fam = socket.AF_INET6 if family == "ipv6" else socket.AF_INET
    host = "::1" if family == "ipv6" else "127.0.0.1"
    a = socket.socket(fam, socket.SOCK_DGRAM)
    b = socket.socket(fam, socket.SOCK_DGRAM)
    events: list[dict[str, Any]] = []
    try:
        for s_ in (a, b):
            s_.bind((host, 0))
        a.connect(b.getsockname())
        b.connect(a.getsockname())
        a.setblocking(False)
        b.setblocking(False)
        protocol = DatagramProtocol(JSONSerializer())
        packets = [{"n": 1}, {"n": 2}]
        backend = AsyncIOBackend()
        client = AsyncUDPNetworkClient(a, protocol, backend=backend)
        await client.wait_connected()
        it = client.iter_received_packets(timeout=2) if iterate else None

        async def recv() -> None:
            try:
                if it is not None:
                    pkt = await anext(it)
                else:
                    with backend.timeout(2):
                        pkt = await client.recv_packet()
            except DatagramProtocolParseError:
                events.append({"ev": "recv", "kind": "err"})
            except (TimeoutError, StopAsyncIteration):
                events.append({"ev": "recv", "kind": "nothing"})
            except Exception as exc:  # noqa: BLE001
                events.append({"ev": "recv", "kind": "crash:" + type(exc).__name__})
            else:
                idx = next((i + 1 for i, p in enumerate(packets) if pkt == p), 0)
                events.append({"ev": "recv", "kind": "pkt", "id": idx, "ok": idx > 0})

        try:
            for i, p in enumerate(packets):
                await client.send_packet(p)
                await asyncio.sleep(0.01)
                got = []
                try:
                    got.append(b.recv(70000))
                except BlockingIOError:
                    pass
                events.append({"ev": "send", "id": i + 1, "n": len(got), "ok": got == [protocol.make_datagram(p)]})
                b.send(protocol.make_datagram(p))
                await asyncio.sleep(0.01)
                if i == 0:
                    events.append({"ev": "inject"})
                    b.send(b"")
                    await asyncio.sleep(0.01)
                await recv()
                if i == 0:
                    await recv()
        finally:
            await client.aclose()
    finally:
        a.close()
        b.close()
    return {"events": traces.uniform(events, EVD), "meta": f"AsyncUDPNetworkClient{'(iterator)' if iterate else ''} JSONSerializer {family}: an EMPTY datagram from the peer between two good ones"}


async def _scenario_backlog(n: int) -> list[str]:
    """Thousands of datagrams reach an AsyncUDPNetworkClient while nobody receives: every datagram the library has taken out of the
    socket is delivered later, in order (what the kernel itself may drop under load never reaches the library and is not counted)."""
    import socket

    from easynetwork.clients.async_udp import AsyncUDPNetworkClient
    from easynetwork.lowlevel.api_async.backend._asyncio.backend import AsyncIOBackend
    from easynetwork.lowlevel.api_async.backend._asyncio.datagram.endpoint import DatagramEndpointProtocol
    from easynetwork.protocol import DatagramProtocol
    from easynetwork.serializers.line import StringLineSerializer

    a, b = harness.loopback_udp_pair()
    for s_ in (a, b):
        s_.setsockopt(socket.SOL_SOCKET, socket.SO_RCVBUF, 8 << 20)
        s_.setsockopt(socket.SOL_SOCKET, socket.SO_SNDBUF, 8 << 20)
    backend = AsyncIOBackend()
    taken: list[str] = []
    orig = DatagramEndpointProtocol.datagram_received

    def spy(self: Any, data: bytes, addr: Any) -> None:
        taken.append(bytes(data).decode("ascii", "replace"))
        orig(self, data, addr)

    DatagramEndpointProtocol.datagram_received = spy  # type: ignore[method-assign]
    problems: list[str] = []
    try:
        client = AsyncUDPNetworkClient(a, DatagramProtocol(StringLineSerializer()), backend=backend)
        await client.wait_connected()
        try:
            for i in range(n):
                b.send(b"%05d" % i)
                if i % 50 == 49:
                    await asyncio.sleep(0.001)  # the loop reads what has arrived; no task is receiving
            await asyncio.sleep(0.05)
            got: list[str] = []
            while True:
                try:
                    with backend.timeout(0.3):
                        got.append(await client.recv_packet())
                except TimeoutError:
                    break
                except Exception as exc:  # noqa: BLE001
                    problems.append(f"recv_packet raised {exc!r} after {len(got)} packets")
                    break
            if len(taken) < n // 2:
                problems.append(f"harness: only {len(taken)} of {n} datagrams reached the library")
            if got != taken:
                k = next((i for i, (x, y) in enumerate(zip(got, taken)) if x != y), min(len(got), len(taken)))
                problems.append(f"the library read {len(taken)} datagrams from the socket and delivered {len(got)}; first difference at #{k}")
        finally:
            await client.aclose()
    finally:
        DatagramEndpointProtocol.datagram_received = orig  # type: ignore[method-assign]
        a.close()
        b.close()
    return problems


def _fix_ids(t: dict[str, Any]) -> None:
    """Equal packets may occur twice in a scenario: attribute each delivery to the oldest matching packet not delivered yet."""
    for e in t["events"]:
        e.pop("_pkt", None)
    pending: list[int] = []
    for e in t["events"]:
        if e["ev"] == "send":
            pending.append(e["id"])
        elif e["ev"] == "recv" and e["kind"] == "pkt" and pending:
            if e["ok"]:
                e["id"] = pending.pop(0) if True else e["id"]


def run(chk: Check) -> None:
    quick = chk.tier == "quick"
    rng = random.Random(chk.seed)
    chk.rule = (
        "scenarios = (serializer entry, 1-4 generated packets, seeded interleaving of sends with malformed datagrams produced by mutation and confirmed "
        "to be rejected by the one-shot parser, random receive moments) x {blocking endpoint, asynchronous endpoint, UDP client over loopback, asynchronous UDP "
        "client over loopback on the real asyncio transport with socket errors reported between queued datagrams}; plus datagrams of the maximum size of the "
        "address family (IPv4 65507, IPv6 65527) and neighbours, and the empty datagram, through both UDP clients; distinct = distinct (entry, seed, target)"
    )
    if not _model(chk):
        return
    ents = serializers.entries()
    rec: list[dict[str, Any]] = []
    n = 40 if quick else 300
    for e in ents:
        for i in range(n):
            seed = chk.seed * 2654435761 % (2**31) + i
            rec.append(scenario_sync(e, seed))
            rec.append(vloop.run(lambda: _scenario_async(e, seed)))
        for i in range(2 if quick else 15):
            rec.append(scenario_udp(e, chk.seed + 77 + i))
        for i in range(3 if quick else 20):
            seed = chk.seed + 177 + i
            rec.append(vloop.run(lambda: _scenario_async_udp(e, seed)))
    nbig = 0
    for family, sizes in (("ipv4", [0, 65506, 65507]), ("ipv6", [0, 65507, 65508, 65526, 65527])):
        for flavour in ("blocking", "async"):
            for size in sizes:
                rec.append(scenario_big(family, flavour, size))
                nbig += 1
    for family in ("ipv4", "ipv6"):
        for iterate in (False, True):
            rec.append(asyncio.run(_scenario_async_empty_in(family, iterate)))
            nbig += 1
    chk.extra["maximum_size_datagrams"] = nbig
    problems = asyncio.run(_scenario_backlog(3000 if quick else 20000))
    chk.traces += 1
    chk.distinct.add(("backlog",))
    if problems:
        chk.violation(
            {"kind": "backlog", "target": "AsyncUDPNetworkClient", "what": "datagram_lost_in_the_library"},
            f"AsyncUDPNetworkClient, datagrams piling up while nobody receives: {problems}",
            {"kind": "backlog"},
        )
    for t in rec:
        _fix_ids(t)
    slim = [{"events": t["events"]} for t in rec]
    res = traces.validate("DatagramTrace", slim, cfg_text=TRACE_CFG, parallel=8, chunk=1500)
    chk.traces += len(rec)
    chk.evaluations = len(rec)
    for t in rec:
        chk.distinct.add(t["meta"])
    ninj = sum(1 for t in rec for e in t["events"] if e["ev"] == "inject")
    chk.extra["scenarios"] = {"traces": len(rec), "events": res.nevents, "rejected": len(res.rejected), "malformed_datagrams_injected": ninj, "entries": len(ents)}
    chk.sample({"meta": rec[1]["meta"], "events": [{k: v for k, v in e.items() if v not in (0, "", False)} for e in rec[1]["events"]]}, cap=4)
    for idx, pos in sorted(res.rejected.items())[:40]:
        t = rec[idx]
        failing = t["events"][pos - 1] if 0 < pos <= len(t["events"]) else None
        chk.violation(
            {"kind": "trace", "spec": "Datagram", "target": t["meta"].split()[0].split("(")[0], "event": (failing or {}).get("ev", "?"), "what": "empty_datagram" if "EMPTY datagram" in t["meta"] or (failing or {}).get("kind") == "empty" else "other"},
            f"datagram: not a behaviour of Datagram (event #{pos}: {failing}) -- {t['meta']}",
            {"kind": "datagram_trace", "meta": t["meta"], "events": t["events"]},
        )
    chk.assumptions += [
        "value equality (payload == make_datagram(p), deserialize(payload) == p, delivered == sent) is computed by the harness and asserted by the specification",
        "loopback UDP does not drop or reorder the handful of datagrams of a scenario",
    ]


def replay(data: dict[str, Any]) -> int:
    r = data["replay"]
    print(r.get("meta"))
    for i, e in enumerate(r.get("events", []), 1):
        print(i, e)
    return 0
