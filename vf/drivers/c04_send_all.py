"""C04 - send_packet writes exactly the packet's bytes and always terminates.

SendAll.tla (the sendmsg loop with IOV_MAX slicing and adjust_leftover_buffer, the join+send loop, _retry with its time budget)
is model-checked: wire = prefix of the packet, exact on return, within budget, termination and per-iteration progress.  The real
SocketStreamTransport (with sendmsg, and with sendmsg hidden), StreamEndpoint.send_packet and TCPNetworkClient-style serializers
are run against a scripted socket / scripted selector / fake clock; every socket call and every wait is logged and the logs are
validated by TLC against SendAllTrace.  A spin guard turns non-termination into a rejected trace.  The asynchronous paths (asyncio
adapter over a socketpair with a tiny send buffer, partial writes by the kernel) are checked for exact wire content.
"""

from __future__ import annotations

import asyncio
import math
import os
import random
import socket
import tempfile
from typing import Any

from .. import harness, tlc, traces, vsync
from ..common import Check

LEVEL = "model_checking"
TRACE_CFG = "INIT TInit\nNEXT TNext\nCONSTANTS\n  Params = {}\n  MaxBlocks = 1000\nCONSTRAINT Constr\nPOSTCONDITION Post\nCHECK_DEADLOCK FALSE\n"
EVD = {"ev": "", "offered": 0, "k": 0, "w": 0, "e": 0, "ready": False, "ok": False}
INVS = ["WirePrefix", "ExactOnReturn", "WithinBudget", "TimeoutMeansExhausted", "ZeroNeverWaits"]

CHUNKSEQS: list[list[int]] = [[], [0], [3], [0, 3], [3, 0], [2, 0, 1, 0], [1, 1, 1], [0, 0], [5, 4], [0, 0, 2, 0, 0], [1, 0, 0, 1], [4, 1, 2, 3, 1]]
# library-scale sizes (scripted runs only, not in the TLC model): thresholds such as 32 KiB, many chunks (the scripted IOV_MAX is 1..3 or 1024)
LARGESEQS: list[list[int]] = [
    [18, 100000, 1],
    [1, 0, 1, 33000, 1, 66000],
    [40000, 5],
    [5, 32768],
    [32767, 32769, 0, 3],
    [70000],
    [16] + [128] * 40,
    [3] * 30 + [0, 7],
]


def _model(chk: Check, quick: bool) -> bool:
    with tempfile.TemporaryDirectory(prefix="vf_c04_") as d:
        seqs = CHUNKSEQS[:9] if quick else CHUNKSEQS
        params = (
            "{[chunks |-> c, iovmax |-> v, mode |-> m, budget |-> b, inf |-> i, ri |-> r, fixed |-> TRUE] : c \\in {%s}, v \\in {1, 2, 8}, "
            'm \\in {"sendmsg", "join"}, b \\in {0, 2, 3}, i \\in BOOLEAN, r \\in {0, 1, 2}}' % ", ".join("<<" + ", ".join(map(str, c)) + ">>" for c in seqs)
        )
        mod = tlc.write_mc_module(d, "MC_SendAll", "SendAll", {"MCParams": params})
        cfg = os.path.join(d, "mc.cfg")
        tlc.write_cfg(cfg, constants={"Params": "<- MCParams", "MaxBlocks": "3" if quick else "4"}, invariants=INVS, properties=["Terminates", "Progress"], check_deadlock=True)
        res = tlc.run_tlc(mod, cfg, timeout=1200, coverage=True)
        chk.add_model("SendAll", res, {"chunk sequences": seqs, "iovmax": [1, 2, 8], "budget": [0, 2, 3, "inf"], "retry_interval": ["inf", 1, 2]}, "safety + Terminates + Progress; empty chunks in any position")
        if not res.ok:
            chk.model_violation("SendAll", res)
            return False
        # the loop as it was before the repair must spin (sensitivity of the model to F2)
        mod2 = tlc.write_mc_module(
            d, "MC_SendAllOld", "SendAll", {"MCParams": '{[chunks |-> <<2, 0, 1, 0>>, iovmax |-> 2, mode |-> "sendmsg", budget |-> 2, inf |-> FALSE, ri |-> 0, fixed |-> FALSE]}'}
        )
        res2 = tlc.run_tlc(mod2, cfg, timeout=300)
        chk.extra["unfixed_design_counterexample"] = {"violation": res2.violation, "trace": [s["action"] for s in res2.trace][:12]}
        if res2.ok:
            chk.machinery_errors.append("SendAll with fixed=FALSE should violate Terminates")
    return True


def _scenario(target: str, chunks: list[int], iovmax: int, budget: float, ri: float, rng: random.Random) -> dict[str, Any]:
    import easynetwork.lowlevel.constants as constants
    from easynetwork.lowlevel.api_sync.transports.socket import SocketStreamTransport

    clock = vsync.FakeClock()
    env = vsync.Env(clock)
    nsteps = rng.randint(0, 5)
    total = sum(chunks)
    for _ in range(nsteps):
        env.send_script.append(rng.choice([("accept", 1), ("accept", 2), ("accept", max(1, total // 2)), ("accept", 10**6), ("eagain",), ("eagain",), ("eintr",)]))
    for _ in range(8):
        env.select_script.append(rng.choice([("ready", 0), ("ready", 1), ("ready", 1), ("ready", 2), ("timeout",), ("late", 1), ("late", 2)]))
    payload = [bytes([65 + i % 26]) * n for i, n in enumerate(chunks)]
    expected = b"".join(payload)
    mode = "join" if target.endswith("nosendmsg") else "sendmsg"
    sock = vsync.ScriptedSocket.create(env, hide_sendmsg=(mode == "join"))
    old_iov = constants.SC_IOV_MAX
    constants.SC_IOV_MAX = iovmax
    ending = "?"
    try:
        with vsync.patched_clock(clock):
            tr = SocketStreamTransport(sock, ri if ri else math.inf, selector_factory=lambda: vsync.ScriptedSelector(env))
            t0 = clock.now
            try:
                if target.startswith("endpoint"):
                    from easynetwork.lowlevel.api_sync.endpoints.stream import StreamEndpoint
                    from easynetwork.protocol import StreamProtocol
                    from easynetwork.serializers.abc import AbstractIncrementalPacketSerializer

                    class S(AbstractIncrementalPacketSerializer[Any, Any]):
                        def incremental_serialize(self, packet: Any) -> Any:
                            yield from packet

                        def incremental_deserialize(self) -> Any:
                            yield
                            raise NotImplementedError

                    ep = StreamEndpoint(tr, StreamProtocol(S()), max_recv_size=1024)
                    ep.send_packet(payload, timeout=None if budget == math.inf else budget)
                else:
                    tr.send_all_from_iterable(iter(payload), budget)
                ending = "return"
            except TimeoutError:
                ending = "timeout"
            except vsync.SpinDetected:
                ending = "spin"
            except Exception as exc:  # noqa: BLE001
                ending = "exception:" + type(exc).__name__
            elapsed = clock.now - t0
    finally:
        constants.SC_IOV_MAX = old_iov
        sock.close()
    wire = bytes(env.wire)
    ok = wire == expected if ending == "return" else expected.startswith(wire)
    evs = []
    for e in env.events:
        if e["ev"] == "attempt":
            evs.append({"ev": "attempt", "offered": e["offered"], "k": e["k"]})
        elif e["ev"] == "wait":
            evs.append({"ev": "wait", "w": int(e["w"]) if e["w"] >= 0 and e["w"] != math.inf else -1, "e": int(e["e"]), "ready": bool(e["ready"])})
    if ending == "spin":
        evs = evs[:40]
    evs.append({"ev": ending, "ok": ok})
    inf = budget == math.inf
    return {
        "par": {"chunks": chunks, "iovmax": iovmax if mode == "sendmsg" else 1, "mode": mode, "budget": 0 if inf else int(budget), "inf": inf, "ri": int(ri) if ri else 0, "fixed": True},
        "events": traces.uniform(evs, EVD),
        "meta": f"{target} chunks={chunks} iovmax={iovmax} timeout={budget} retry_interval={ri or 'inf'} ending={ending} elapsed={elapsed} wire_ok={ok}",
    }


async def _async_adapter_scenario(chunks: list[int], use_iterable: bool) -> tuple[bool, str]:
    """asyncio adapter over a socketpair with a tiny send buffer: the kernel produces the partial writes."""
    from easynetwork.lowlevel.api_async.backend._asyncio.backend import AsyncIOBackend

    a, b = socket.socketpair()
    a.setsockopt(socket.SOL_SOCKET, socket.SO_SNDBUF, 4096)
    b.setblocking(False)
    scale = 20000
    payload = [bytes([65 + i]) * (n * scale) for i, n in enumerate(chunks)]
    expected = b"".join(payload)
    adapter = await AsyncIOBackend().wrap_stream_socket(a)
    got = bytearray()

    async def reader() -> None:
        loop = asyncio.get_running_loop()
        while len(got) < len(expected):
            data = await loop.sock_recv(b, 65536)
            if not data:
                break
            got.extend(data)

    rt = asyncio.get_running_loop().create_task(reader())
    verdict: tuple[bool, str]
    try:
        if use_iterable:
            await asyncio.wait_for(adapter.send_all_from_iterable(iter(payload)), 20)
        else:
            for p in payload:
                await asyncio.wait_for(adapter.send_all(p), 20)
        await asyncio.wait_for(rt, 20)
        verdict = (bytes(got) == expected, f"received {len(got)} of {len(expected)} bytes")
    except Exception as exc:  # noqa: BLE001
        verdict = (False, f"{type(exc).__name__}: {exc}")
    finally:
        rt.cancel()
    # the send is over and the peer has everything: closing must be prompt (nothing may be left spinning in the loop)
    try:
        await asyncio.wait_for(adapter.aclose(), 3)
    except asyncio.TimeoutError:
        harness.asyncio_transport_of(adapter).abort()
        await asyncio.sleep(0)
        if verdict[0]:
            verdict = (False, "all bytes were delivered but the transport never finishes closing: the event loop spins on the write event")
    finally:
        b.close()
    return verdict


async def _async_adapter_lost_scenario(use_iterable: bool, after_eof: bool) -> tuple[bool, str]:
    """The connection is already lost (the peer reset it and the event loop has noticed) when the send is issued: the bytes cannot be
    transmitted, so the call must fail with a connection error - returning normally would mean they were dropped silently."""
    import struct

    from easynetwork.lowlevel.api_async.backend._asyncio.backend import AsyncIOBackend

    srv = socket.socket()
    srv.bind(("127.0.0.1", 0))
    srv.listen(1)
    a = socket.socket()
    a.connect(srv.getsockname())
    b, _ = srv.accept()
    srv.close()
    a.setblocking(False)
    adapter = await AsyncIOBackend().wrap_stream_socket(a)
    try:
        await adapter.send_all(b"first")
        if after_eof:
            b.shutdown(socket.SHUT_WR)
            await asyncio.sleep(0.05)
        b.setsockopt(socket.SOL_SOCKET, socket.SO_LINGER, struct.pack("ii", 1, 0))
        b.close()
        await asyncio.sleep(0.1)  # connection_lost() has been delivered to the protocol
        # the reading side confirms that the loss has been noticed
        try:
            await asyncio.wait_for(adapter.recv(10), 2)
        except OSError:
            pass
        try:
            if use_iterable:
                await asyncio.wait_for(adapter.send_all_from_iterable([b"second", b"", b"part"]), 5)
            else:
                await asyncio.wait_for(adapter.send_all(b"second"), 5)
        except ConnectionError:
            return True, "connection error"
        except asyncio.TimeoutError:
            return False, "the send hangs on a lost connection"
        except OSError as exc:
            return True, f"OSError {exc.errno}"
        except Exception as exc:  # noqa: BLE001
            return False, f"the send failed with {type(exc).__name__}: {exc} - neither TimeoutError nor a connection error"
        return False, "the send returned normally although the connection was lost before it started: the bytes were dropped"
    finally:
        try:
            await asyncio.wait_for(adapter.aclose(), 3)
        except Exception:  # noqa: BLE001
            pass


def _tls_blocking_scenario(lib_is_server: bool, packets: list[list[int]]) -> tuple[bool, str]:
    """SSLStreamTransport.send_all_from_iterable() over a socket pair against a threaded stdlib TLS peer: the peer must decrypt exactly the chunks' bytes."""
    import socket
    import ssl
    import threading

    from easynetwork.lowlevel.api_sync.transports.socket import SSLStreamTransport

    from .. import tlspeer

    a, b = socket.socketpair()
    payloads = [[bytes((65 + i + j) % 256 for j in range(n)) for i, n in enumerate(p)] for p in packets]
    expected = b"".join(b"".join(p) for p in payloads)
    got = bytearray()
    err: list[str] = []

    def peer() -> None:
        try:
            ctx = tlspeer.client_context() if lib_is_server else tlspeer.server_context()
            s = ctx.wrap_socket(b, server_side=not lib_is_server, server_hostname="localhost" if lib_is_server else None)
            s.settimeout(10)
            while True:
                try:
                    data = s.recv(65536)
                except (ssl.SSLError, OSError):
                    break
                if not data:
                    break
                got.extend(data)
        except Exception as exc:  # noqa: BLE001
            err.append(f"peer: {type(exc).__name__}: {exc}")

    th = threading.Thread(target=peer, daemon=True)
    th.start()
    detail = ""
    try:
        if lib_is_server:
            tr = SSLStreamTransport(a, tlspeer.server_context(), retry_interval=0.5, server_side=True, handshake_timeout=20)
        else:
            tr = SSLStreamTransport(a, tlspeer.client_context(), retry_interval=0.5, server_hostname="localhost", handshake_timeout=20)
        for p in payloads:
            tr.send_all_from_iterable(iter(p), 20)
        tr.close()
    except Exception as exc:  # noqa: BLE001
        detail = f"send failed: {type(exc).__name__}: {exc}"
    th.join(20)
    for s_ in (a, b):
        try:
            s_.close()
        except OSError:
            pass
    if err and not detail:
        detail = err[0]
    if not detail and bytes(got) != expected:
        n = next((i for i, (x, y) in enumerate(zip(got, expected)) if x != y), min(len(got), len(expected)))
        detail = f"the peer decrypted {len(got)} bytes, the packets are {len(expected)} bytes long; first difference at offset {n}"
    return (not detail), detail


def run(chk: Check) -> None:
    quick = chk.tier == "quick"
    rng = random.Random(chk.seed)
    chk.rule = (
        "traces = (target, chunk sequence incl. empty chunks in every position, IOV_MAX, timeout in {0, finite, none}, retry interval, scripted "
        "sequence of partial-write sizes / EAGAIN / EINTR, scripted selector results) sampled with a seeded generator; distinct = distinct event sequences"
    )
    if not _model(chk, quick):
        return
    rec: list[dict[str, Any]] = []
    n = 2500 if quick else 40000
    for i in range(n):
        target = rng.choice(["transport", "transport-nosendmsg", "endpoint", "endpoint-nosendmsg"])
        chunks = rng.choice(CHUNKSEQS) if i % 12 else rng.choice(LARGESEQS)
        rec.append(_scenario(target, list(chunks), rng.choice([1, 2, 3, 1024]), rng.choice([math.inf, 0, 1, 2, 5]), rng.choice([0, 0, 1, 2]), rng))
    slim = [{"par": t["par"], "events": t["events"]} for t in rec]
    res = traces.validate("SendAllTrace", slim, cfg_text=TRACE_CFG, parallel=12, chunk=800)
    chk.traces += len(rec)
    chk.states += res.tlc.distinct
    chk.transitions += res.tlc.generated
    for t in rec:
        chk.distinct.add(tuple(tuple(e.values()) for e in t["events"]) + (str(t["par"]),))
    chk.sample({"meta": rec[5]["meta"], "events": [{k: v for k, v in e.items() if v not in (0, False, "")} for e in rec[5]["events"]]}, cap=4)
    endings: dict[str, int] = {}
    for t in rec:
        endings[t["events"][-1]["ev"]] = endings.get(t["events"][-1]["ev"], 0) + 1
    chk.extra["scripted_socket"] = {"traces": len(rec), "events": res.nevents, "rejected": len(res.rejected), "endings": endings}
    for idx, pos in sorted(res.rejected.items())[:60]:
        t = rec[idx]
        failing = t["events"][pos - 1] if 0 < pos <= len(t["events"]) else None
        ending = t["events"][-1]["ev"]
        chunks = t["par"]["chunks"]
        sig = {
            "kind": "trace",
            "spec": "SendAll",
            "mode": t["par"]["mode"],
            "ending": ending.split(":")[0],
            "trailing_empty_chunk": bool(chunks) and chunks[-1] == 0,
        }
        chk.violation(sig, f"send: not a behaviour of SendAll (event #{pos}: {failing}) -- {t['meta']}", {"kind": "sendall_trace", "trace": slim[idx], "meta": t["meta"]})
    # asynchronous adapter: exact wire content under kernel partial writes
    nasync = 0
    for chunks in ([3, 1], [1, 0, 2], [0, 4, 0], [0], [0, 0], []) if quick else list(CHUNKSEQS) + [[]]:
        for use_iter in (True, False):
            ok, detail = asyncio.run(_async_adapter_scenario(list(chunks), use_iter))
            nasync += 1
            chk.traces += 1
            chk.distinct.add(("async", tuple(chunks), use_iter))
            if not ok:
                chk.violation(
                    {"kind": "async_adapter", "api": "send_all_from_iterable" if use_iter else "send_all", "trailing_empty_chunk": bool(chunks) and chunks[-1] == 0, "what": "spin" if "spins" in detail else "wire"},
                    f"asyncio adapter: wire differs from the packet's bytes for chunks {chunks} (x20000): {detail}",
                    {"kind": "async_adapter", "chunks": chunks, "iterable": use_iter},
                )
    for use_iter in (True, False):
        for after_eof in (False, True):
            ok, detail = asyncio.run(_async_adapter_lost_scenario(use_iter, after_eof))
            nasync += 1
            chk.traces += 1
            chk.distinct.add(("async-lost", use_iter, after_eof))
            if not ok:
                chk.violation(
                    {"kind": "async_adapter", "api": "send_all_from_iterable" if use_iter else "send_all", "what": "lost_connection"},
                    f"asyncio adapter, connection already reset{' after the peer half-closed' if after_eof else ''}: {detail}",
                    {"kind": "async_adapter_lost", "iterable": use_iter, "after_eof": after_eof},
                )
    chk.extra["async_adapter_scenarios"] = nasync
    # blocking TLS transport: chunk lists with empty chunks in every position, small and record-sized chunks
    tls_packets = [list(c) for c in CHUNKSEQS] + [[7, 0, 20000], [0, 0, 40], [20000, 0, 0, 5], [17000, 17000]]
    for lib_is_server in (False, True):
        ok, detail = _tls_blocking_scenario(lib_is_server, tls_packets)
        chk.traces += 1
        chk.distinct.add(("tls-blocking", lib_is_server))
        if not ok:
            chk.violation(
                {"kind": "tls_blocking", "api": "send_all_from_iterable", "what": "wire"},
                f"blocking TLS transport ({'server' if lib_is_server else 'client'} side), send_all_from_iterable() of the chunk lists {tls_packets}: {detail}",
                {"kind": "tls_blocking", "server_side": lib_is_server, "packets": tls_packets},
            )
    chk.evaluations = chk.traces
    chk.assumptions += [
        "a send()/sendmsg() of a non-empty buffer accepts at least one byte or raises EAGAIN/EINTR (POSIX); select() that reports 'not ready' has "
        "waited the full timeout",
        "the asynchronous TLS transport's send path is covered by the C08 check",
    ]


def replay(data: dict[str, Any]) -> int:
    r = data["replay"]
    print(r.get("meta"))
    for i, e in enumerate(r["trace"]["events"], 1):
        print(i, e)
    return 0
