"""C20 (b)/(c): the real asyncio adapters against a peer that stops reading / a scripted datagram transport."""

from __future__ import annotations

import asyncio
import socket
import struct
import time
from typing import Any

from .. import harness, vloop
from ..common import Check

CHUNK = 64 * 1024
TOTAL = 2 * 1024 * 1024


def _small_buffers(a: socket.socket, b: socket.socket) -> None:
    a.setsockopt(socket.SOL_SOCKET, socket.SO_SNDBUF, 65536)
    b.setsockopt(socket.SOL_SOCKET, socket.SO_RCVBUF, 65536)


def _asyncio_transport(adapter: Any) -> asyncio.Transport:
    return harness.asyncio_transport_of(adapter)


async def _drain_peer(peer: socket.socket, want: int, budget_s: float = 20.0) -> int:
    loop = asyncio.get_running_loop()
    got = 0
    t0 = time.monotonic()
    while got < want and time.monotonic() - t0 < budget_s:
        try:
            data = peer.recv(1 << 20)
        except BlockingIOError:
            await asyncio.sleep(0.001)
            continue
        except OSError:
            break
        if not data:
            break
        got += len(data)
        await asyncio.sleep(0)
    del loop
    return got


async def _send(adapter: Any, path: str, total: int) -> None:
    if path == "send_all":
        await adapter.send_all(b"x" * total)
    else:
        await adapter.send_all_from_iterable([b"x" * CHUNK for _ in range(total // CHUNK)])


async def _stream_scenario(path: str, scenario: str) -> dict[str, Any]:
    """Returns observations; the caller turns them into verdicts."""
    from easynetwork.lowlevel.api_async.backend._asyncio.backend import AsyncIOBackend

    backend = AsyncIOBackend()
    a, b = harness.loopback_tcp_pair()
    _small_buffers(a, b)
    obs: dict[str, Any] = {"path": path, "scenario": scenario}
    adapter = await backend.wrap_stream_socket(a)
    tr = _asyncio_transport(adapter)
    loop = asyncio.get_running_loop()
    try:
        if scenario == "eof_then_reset":
            # the peer half-closes first (the reading side of the adapter has seen end-of-stream), then stops reading, then vanishes
            b.shutdown(socket.SHUT_WR)
            await asyncio.sleep(0.05)
        t1 = loop.create_task(_send(adapter, path, TOTAL))
        t2 = loop.create_task(_send(adapter, path, TOTAL)) if scenario in ("cancel_one", "two_senders") else None
        await asyncio.sleep(0.25)  # real time; the peer does not read
        obs["suspended_while_peer_idle"] = not t1.done() and (t2 is None or not t2.done())
        obs["buffered_when_returned_early"] = tr.get_write_buffer_size() if t1.done() else 0
        if scenario == "resume" or scenario == "two_senders":
            ntasks = 2 if t2 is not None else 1
            got = await _drain_peer(b, TOTAL * ntasks)
            obs["peer_got_all"] = got == TOTAL * ntasks
            done, pending = await asyncio.wait([t for t in (t1, t2) if t is not None], timeout=30)
            obs["resumed"] = not pending
            obs["errors"] = [repr(t.exception()) for t in done if t.exception() is not None]
            obs["buffer_at_return"] = tr.get_write_buffer_size()
        elif scenario in ("reset", "eof_then_reset"):
            b.setsockopt(socket.SOL_SOCKET, socket.SO_LINGER, struct.pack("ii", 1, 0))
            b.close()
            done, pending = await asyncio.wait([t1], timeout=30)
            obs["resumed"] = not pending
            obs["failed_with_connection_error"] = bool(done) and isinstance(t1.exception(), ConnectionError) if not pending else False
            obs["exception"] = repr(t1.exception()) if not pending else None
        elif scenario == "cancel_one":
            assert t2 is not None
            t1.cancel()
            await asyncio.sleep(0.1)
            obs["cancelled_ended"] = t1.cancelled()
            obs["other_still_suspended"] = not t2.done()
            got = await _drain_peer(b, 2 * TOTAL)
            done, pending = await asyncio.wait([t2], timeout=30)
            obs["resumed"] = not pending
            obs["errors"] = [repr(t2.exception())] if not pending and t2.exception() is not None else []
            obs["buffer_at_return"] = tr.get_write_buffer_size()
        for t in (t1, t2):
            if t is not None and not t.done():
                t.cancel()
        await asyncio.sleep(0)
    finally:
        tr.abort()
        await asyncio.sleep(0)
        for s in (a, b):
            try:
                s.close()
            except OSError:
                pass
    return obs


class _StubDatagramTransport(asyncio.DatagramTransport):
    def __init__(self) -> None:
        super().__init__()
        self.sent: list[tuple[bytes, Any]] = []
        self.pause_at: int | None = None
        self.proto: Any = None
        self.closing = False
        self._sock = socket.socket(socket.AF_INET, socket.SOCK_DGRAM)
        self._sock.bind(("127.0.0.1", 0))

    def sendto(self, data: Any, addr: Any = None) -> None:
        self.sent.append((bytes(data), addr))
        if self.pause_at is not None and len(self.sent) == self.pause_at and self.proto is not None:
            # what asyncio does when this datagram takes the write buffer over the high-water mark
            self.proto.pause_writing()

    def is_closing(self) -> bool:
        return self.closing

    def close(self) -> None:
        self.closing = True

    def get_extra_info(self, name: str, default: Any = None) -> Any:
        if name == "socket":
            return asyncio.trsock.TransportSocket(self._sock)
        if name == "sockname":
            return self._sock.getsockname()
        return default


async def _datagram_scenario(kind: str, scenario: str) -> dict[str, Any]:
    """Drive pause/resume/loss directly on the protocol objects of the datagram adapters."""
    loop = asyncio.get_running_loop()
    obs: dict[str, Any] = {"kind": kind, "scenario": scenario}
    tr = _StubDatagramTransport()
    try:
        if kind == "endpoint":
            from easynetwork.lowlevel.api_async.backend._asyncio.datagram.endpoint import DatagramEndpoint, DatagramEndpointProtocol

            rq: asyncio.Queue[Any] = asyncio.Queue()
            eq: asyncio.Queue[Any] = asyncio.Queue()
            proto: Any = DatagramEndpointProtocol(loop=loop, recv_queue=rq, exception_queue=eq)
            proto.connection_made(tr)
            ep = DatagramEndpoint(tr, proto, recv_queue=rq, exception_queue=eq)

            async def send(i: int) -> None:
                await ep.sendto(b"d%d" % i, ("127.0.0.1", 9))

        else:
            from easynetwork.lowlevel.api_async.backend._asyncio.backend import AsyncIOBackend
            from easynetwork.lowlevel.api_async.backend._asyncio.datagram.listener import (
                DatagramListenerProtocol,
                DatagramListenerSocketAdapter,
            )

            proto = DatagramListenerProtocol(loop=loop)
            proto.connection_made(tr)
            lst = DatagramListenerSocketAdapter(AsyncIOBackend(), tr, proto)

            async def send(i: int) -> None:
                await lst.send_to(b"d%d" % i, ("127.0.0.1", 9))

        # not paused: a send returns at once
        t0 = loop.create_task(send(0))
        await harness.settle()
        obs["unpaused_send_returns"] = t0.done() and t0.exception() is None
        tr.proto = proto
        if scenario == "pause_inside_sendto":
            # the datagram that crosses the high-water mark: the transport pauses the protocol from inside sendto();
            # that send is handed over but must not return before writing is resumed
            tr.pause_at = len(tr.sent) + 1
            tx = loop.create_task(send(9))
            await harness.settle()
            obs["crossing_datagram_handed_over"] = len(tr.sent) == tr.pause_at
            obs["crossing_send_suspended"] = not tx.done()
            proto.resume_writing()
            await harness.settle()
            obs["crossing_send_resumed"] = tx.done() and tx.exception() is None
            if not tx.done():
                tx.cancel()
            tr.pause_at = None
        proto.pause_writing()
        tasks = [loop.create_task(send(i)) for i in (1, 2, 3)]
        await harness.settle()
        obs["parked_while_paused"] = all(not t.done() for t in tasks)
        obs["datagrams_handed_over"] = len(tr.sent)
        if scenario in ("resume", "pause_inside_sendto"):
            proto.resume_writing()
            await harness.settle()
            obs["all_resumed"] = all(t.done() and t.exception() is None for t in tasks)
        elif scenario == "cancel_then_resume":
            tasks[1].cancel()
            await harness.settle()
            obs["cancelled_ended"] = tasks[1].cancelled()
            obs["others_still_parked"] = not tasks[0].done() and not tasks[2].done()
            proto.resume_writing()
            await harness.settle()
            obs["all_resumed"] = tasks[0].done() and tasks[2].done() and tasks[0].exception() is None and tasks[2].exception() is None
        elif scenario in ("lost_clean", "lost_exc"):
            exc = OSError(5, "injected") if scenario == "lost_exc" else None
            tr.closing = True
            proto.connection_lost(exc)
            await harness.settle()
            obs["all_failed"] = all(t.done() and isinstance(t.exception(), OSError) for t in tasks)
            obs["same_exception"] = exc is None or all(t.done() and t.exception() is exc for t in tasks)
            t4 = loop.create_task(send(4))
            await harness.settle()
            obs["later_send_fails"] = t4.done() and isinstance(t4.exception(), OSError)
        for t in tasks:
            if not t.done():
                t.cancel()
        await harness.settle()
    finally:
        tr._sock.close()
    return obs


def _judge_stream(chk: Check, obs: dict[str, Any]) -> None:
    path, scenario = obs["path"], obs["scenario"]
    problems: list[tuple[str, str]] = []
    if not obs["suspended_while_peer_idle"]:
        problems.append(
            ("returned_with_buffered_bytes", f"send returned while the peer was not reading; {obs['buffered_when_returned_early']} bytes left in the user-space buffer")
        )
    else:
        if obs.get("resumed") is False:
            problems.append(("not_resumed", "a suspended sender was not resumed"))
        if obs.get("errors"):
            problems.append(("unexpected_error", f"resumed sender failed: {obs['errors']}"))
        if obs.get("buffer_at_return", 0):
            problems.append(("buffer_not_empty_at_return", f"{obs['buffer_at_return']} bytes buffered when send returned"))
        if obs.get("peer_got_all") is False:
            problems.append(("bytes_missing", "the peer did not receive everything"))
        if scenario in ("reset", "eof_then_reset") and not obs.get("failed_with_connection_error"):
            problems.append(("no_connection_error", f"sender did not fail with a connection error after RST: {obs.get('exception')}"))
        if scenario == "cancel_one" and not (obs.get("cancelled_ended") and obs.get("other_still_suspended")):
            problems.append(("cancel_not_isolated", f"cancelling one suspended sender disturbed the other: {obs}"))
    for code, text in problems:
        chk.violation(
            {"kind": "adapter", "adapter": "stream", "path": path, "what": code},
            f"asyncio stream adapter, {path}, scenario {scenario}: {text}",
            {"kind": "stream_scenario", "path": path, "scenario": scenario, "observations": obs},
        )


async def _real_datagram_send_after_close() -> dict[str, Any]:
    """The datagram transport the library builds on a real connected UDP socket: a send after the connection is gone fails with a
    connection error (not with whatever the event loop's transport trips over)."""
    from easynetwork.lowlevel.api_async.backend._asyncio.backend import AsyncIOBackend

    obs: dict[str, Any] = {"kind": "real-connected", "scenario": "send_after_close"}
    a, b = harness.loopback_udp_pair()
    try:
        t = await AsyncIOBackend().wrap_connected_datagram_socket(a)
        await t.send(b"first")
        await asyncio.sleep(0.01)
        obs["datagram_sent"] = b.recv(100) == b"first"
        await t.aclose()
        for i in range(2):
            try:
                await t.send(b"late")
                obs[f"late_send_{i}_fails"] = False
            except OSError:
                obs[f"late_send_{i}_fails"] = True
            except Exception as exc:  # noqa: BLE001
                obs[f"late_send_{i}_fails_with_a_connection_error_not_{type(exc).__name__}"] = False
    finally:
        a.close()
        b.close()
    return obs


async def _accepted_socket_backpressure() -> dict[str, Any]:
    """A connection accepted by the library's own TCP listener: with the kernel's send buffer full and the peer not reading, even a small
    send_all() stays suspended (nothing may sit in a user-space buffer behind a send that returned)."""
    import os

    from easynetwork.lowlevel.api_async.backend._asyncio.backend import AsyncIOBackend
    from easynetwork.lowlevel.socket import INETSocketAttribute

    obs: dict[str, Any] = {"kind": "accepted-socket", "scenario": "small_send_behind_a_full_kernel_buffer"}
    backend = AsyncIOBackend()
    listeners = await backend.create_tcp_listeners("127.0.0.1", 0, backlog=5)
    lst = listeners[0]
    got: list[Any] = []
    ready = asyncio.Event()

    async def handler(stream: Any) -> None:
        got.append(stream)
        ready.set()
        await asyncio.sleep(3600)

    serve = asyncio.ensure_future(lst.serve(handler))
    peer = socket.socket(socket.AF_INET, socket.SOCK_STREAM)
    peer.setsockopt(socket.SOL_SOCKET, socket.SO_RCVBUF, 4096)
    dupfd = -1
    try:
        peer.setblocking(False)
        try:
            peer.connect(lst.extra(INETSocketAttribute.sockname))
        except BlockingIOError:
            pass
        await asyncio.wait_for(ready.wait(), 5)
        stream = got[0]
        sock = stream.extra(INETSocketAttribute.socket)
        dupfd = os.dup(sock.fileno())
        raw = socket.socket(fileno=dupfd)
        raw.setblocking(False)
        filled = 0
        for _ in range(100000):
            try:
                filled += raw.send(b"k" * 65536)
            except BlockingIOError:
                break
        # (the kernel may still move bytes towards the peer's window: fill until it takes nothing more for a while)
        quiet = 0
        for _ in range(400):
            await asyncio.sleep(0.005)
            try:
                filled += raw.send(b"k" * 65536)
                quiet = 0
            except BlockingIOError:
                quiet += 1
                if quiet >= 6:
                    break
        obs["kernel_buffer_filled"] = filled > 0
        t = asyncio.ensure_future(stream.send_all(b"s" * 512))
        for _ in range(30):
            await asyncio.sleep(0.002)
        # either the send is still suspended, or the kernel found room after all and took the bytes: what may never happen is a
        # send that has returned while its bytes sit in the transport's own buffer
        left_behind = harness.asyncio_transport_of(stream).get_write_buffer_size() if t.done() else 0
        obs["nothing_left_in_user_space_when_the_small_send_returned"] = left_behind == 0
        total = filled + 512
        n = 0
        for _ in range(20000):
            try:
                d = peer.recv(1 << 20)
                if not d:
                    break
                n += len(d)
            except BlockingIOError:
                await asyncio.sleep(0.001)
            if n >= total and t.done():
                break
        obs["small_send_resumed_when_the_peer_reads"] = t.done() and t.exception() is None
        obs["peer_got_everything"] = n == total
        if not t.done():
            t.cancel()
        raw.detach()
    finally:
        serve.cancel()
        await asyncio.gather(serve, return_exceptions=True)
        for st in got:
            try:
                await asyncio.wait_for(st.aclose(), 2)
            except BaseException:  # noqa: BLE001
                pass
        await lst.aclose()
        if dupfd >= 0:
            try:
                os.close(dupfd)
            except OSError:
                pass
        peer.close()
    return obs


def _judge_datagram(chk: Check, obs: dict[str, Any]) -> None:
    bad = [k for k, v in obs.items() if isinstance(v, bool) and not v]
    if bad:
        chk.violation(
            {"kind": "adapter", "adapter": "datagram-" + obs["kind"], "what": ",".join(sorted(bad))},
            f"asyncio {obs['kind']} adapter, scenario {obs['scenario']}: failed expectations {bad}",
            {"kind": "datagram_scenario", "observations": obs},
        )


def run(chk: Check) -> None:
    n = 0
    for path in ("send_all", "send_all_from_iterable"):
        for scenario in ("resume", "reset", "eof_then_reset", "cancel_one", "two_senders"):
            obs = asyncio.run(_stream_scenario(path, scenario))
            _judge_stream(chk, obs)
            chk.traces += 1
            chk.distinct.add(("stream", path, scenario))
            chk.sample({"adapter": "stream", **obs}, cap=5)
            n += 1
    for kind in ("endpoint", "listener"):
        for scenario in ("resume", "pause_inside_sendto", "cancel_then_resume", "lost_clean", "lost_exc"):
            obs = vloop.run(lambda: _datagram_scenario(kind, scenario))
            _judge_datagram(chk, obs)
            chk.traces += 1
            chk.distinct.add(("datagram", kind, scenario))
            n += 1
    for fn in (_real_datagram_send_after_close, _accepted_socket_backpressure):
        obs = asyncio.run(fn())
        _judge_datagram(chk, obs)
        chk.traces += 1
        chk.distinct.add(("real", obs["kind"], obs["scenario"]))
        n += 1
    chk.extra["adapter_scenarios"] = n
