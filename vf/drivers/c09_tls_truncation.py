"""C09 - TLS truncation is never reported as a clean end-of-stream.

TLSTruncation.tla states what a reader may observe when the ciphertext stream towards it is cut.  Fault enumeration on the real
code: one fresh TLS session per cut offset k (a recorded stream cannot be replayed to a fresh handshake) in which the pipe towards
the reader delivers only the first k ciphertext bytes and then an underlying EOF, x standard_compatible in {True, False} x role
(client / server) x {AsyncTLSStreamTransport over in-memory pipes, blocking SSLStreamTransport behind a forwarding proxy}.  The
observed sequence (wrap error | wrap ok, data*, eof | error) is validated by TLC against TLSTruncationTrace.  Also: closing the
transport sends a close notification (the independent peer reads a clean end-of-stream).
"""

from __future__ import annotations

import asyncio
import os
import socket
import ssl
import tempfile
import threading
from typing import Any

from .. import memtransport, tlc, tlspeer, traces, vloop
from ..common import Check

LEVEL = "fault_enumeration"
TRACE_CFG = "INIT TInit\nNEXT TNext\nCONSTANTS\n  Params = {}\nCONSTRAINT Constr\nPOSTCONDITION Post\nCHECK_DEADLOCK FALSE\n"
EVD = {"ev": "", "n": 0, "ok": False}
DATA = [b"first-message " * 20, b"second " * 300]
PLAIN = b"".join(DATA)


def _model(chk: Check) -> bool:
    with tempfile.TemporaryDirectory(prefix="vf_c09_") as d:
        mod = tlc.write_mc_module(
            d, "MC_TLSTruncation", "TLSTruncation", {"MCParams": "{[total |-> 6, cut |-> c, plain |-> 3, standard |-> s] : c \\in 0..6, s \\in BOOLEAN}"}
        )
        cfg = os.path.join(d, "mc.cfg")
        tlc.write_cfg(cfg, constants={"Params": "<- MCParams"}, invariants=["CleanEofOnlyAfterCloseNotify", "TruncationIsReported", "NothingInvented"], check_deadlock=False)
        res = tlc.run_tlc(mod, cfg)
    chk.add_model("TLSTruncation", res, {"total": 6, "cuts": "0..6", "standard": "both"}, "allowed observations of a reader behind a cut ciphertext stream")
    if not res.ok:
        chk.model_violation("TLSTruncation", res)
        return False
    with tempfile.TemporaryDirectory(prefix="vf_c09b_") as d:
        mod = tlc.write_mc_module(d, "MC_TLSClose", "TLSClose", {"MCParams": '{[standard |-> s, variant |-> v] : s \\in BOOLEAN, v \\in {"first", "reader", "peer_first", "unread", "silent"}}'})
        cfg = os.path.join(d, "mc.cfg")
        tlc.write_cfg(cfg, constants={"Params": "<- MCParams"}, invariants=["CloseSendsNotify", "NothingBeforeClose"], check_deadlock=False)
        res = tlc.run_tlc(mod, cfg)
    chk.add_model("TLSClose", res, {"situations": 5, "standard": "both"}, "what the peer may observe after the library side closed")
    if not res.ok:
        chk.model_violation("TLSClose", res)
        return False
    return True


async def _async_session(lib_is_server: bool, standard: bool, cut: int | None, into: bool = False) -> dict[str, Any]:
    from easynetwork.lowlevel.api_async.backend._asyncio.backend import AsyncIOBackend
    from easynetwork.lowlevel.api_async.transports.tls import AsyncTLSStreamTransport

    backend = AsyncIOBackend()
    lib2peer = memtransport.MemPipe()
    peer2lib = memtransport.MemPipe(cut_after=cut)
    inner = memtransport.MemStreamTransport(backend, peer2lib, lib2peer)
    peer = tlspeer.Peer(lib2peer, peer2lib, server_side=not lib_is_server)
    events: list[dict[str, Any]] = []

    async def peer_script() -> None:
        try:
            await peer.handshake()
            for d in DATA:
                await peer.write(d)
            await peer.close_notify()
        except (ssl.SSLError, OSError, asyncio.CancelledError):
            pass

    pt = asyncio.ensure_future(peer_script())
    tls = None
    try:
        if lib_is_server:
            tls = await AsyncTLSStreamTransport.wrap(inner, tlspeer.server_context(), server_side=True, handshake_timeout=30, standard_compatible=standard, shutdown_timeout=1)
        else:
            tls = await AsyncTLSStreamTransport.wrap(inner, tlspeer.client_context(), server_hostname="localhost", handshake_timeout=30, standard_compatible=standard, shutdown_timeout=1)
    except Exception as exc:  # noqa: BLE001
        events.append({"ev": "wrap_error", "ok": bool(inner.closed), "n": 0})
        del exc
    if tls is not None:
        events.append({"ev": "wrap_ok"})
        got = 0
        for _ in range(10000):
            try:
                if into:
                    buf = bytearray(65536)
                    data = bytes(buf[: await tls.recv_into(buf)])
                else:
                    data = await tls.recv(65536)
            except (ssl.SSLError, OSError):
                events.append({"ev": "error"})
                break
            except Exception as exc:  # noqa: BLE001
                events.append({"ev": "crash:" + type(exc).__name__})
                break
            if not data:
                events.append({"ev": "eof"})
                break
            events.append({"ev": "data", "n": len(data), "ok": data == PLAIN[got : got + len(data)]})
            got += len(data)
        try:
            await tls.aclose()
        except Exception:  # noqa: BLE001
            pass
    pt.cancel()
    await asyncio.gather(pt, return_exceptions=True)
    return {"events": events, "total_towards_lib": peer2lib.total_written}


def _reference_total(lib_is_server: bool) -> int:
    r1 = vloop.run(lambda: _async_session(lib_is_server, True, None))
    r2 = vloop.run(lambda: _async_session(lib_is_server, True, None))
    if r1["total_towards_lib"] != r2["total_towards_lib"]:
        raise RuntimeError(f"ciphertext length is not reproducible: {r1['total_towards_lib']} vs {r2['total_towards_lib']}")
    return int(r1["total_towards_lib"])


def _blocking_session(lib_is_server: bool, standard: bool, cut: int | None, into: bool = False) -> dict[str, Any]:
    """SSLStreamTransport <-> proxy <-> stdlib peer; the proxy forwards only the first `cut` bytes towards the library."""
    from easynetwork.lowlevel.api_sync.transports.socket import SSLStreamTransport

    lib_sock, proxy_a = socket.socketpair()
    proxy_b, peer_sock = socket.socketpair()
    events: list[dict[str, Any]] = []
    forwarded = {"towards_lib": 0}
    stop = threading.Event()

    def pump_to_peer() -> None:
        try:
            while not stop.is_set():
                data = proxy_a.recv(65536)
                if not data:
                    break
                proxy_b.sendall(data)
        except OSError:
            pass
        finally:
            try:
                proxy_b.shutdown(socket.SHUT_WR)
            except OSError:
                pass

    def pump_to_lib() -> None:
        try:
            while True:
                data = proxy_b.recv(65536)
                if not data:
                    break
                if cut is not None:
                    room = cut - forwarded["towards_lib"]
                    forwarded["towards_lib"] += len(data)
                    data = data[: max(room, 0)]
                    if data:
                        proxy_a.sendall(data)
                    if forwarded["towards_lib"] >= cut:
                        break
                else:
                    forwarded["towards_lib"] += len(data)
                    proxy_a.sendall(data)
        except OSError:
            pass
        finally:
            try:
                proxy_a.shutdown(socket.SHUT_WR)  # the library sees an underlying EOF
            except OSError:
                pass

    def peer_thread() -> None:
        try:
            ctx = tlspeer.client_context() if lib_is_server else tlspeer.server_context()
            peer_sock.settimeout(10)
            s = ctx.wrap_socket(peer_sock, server_side=not lib_is_server, server_hostname="localhost" if lib_is_server else None)
            for d in DATA:
                s.sendall(d)
            try:
                s.unwrap()
            except (OSError, ssl.SSLError):
                pass
        except (OSError, ssl.SSLError):
            pass
        finally:
            try:
                peer_sock.close()
            except OSError:
                pass

    threads = [threading.Thread(target=f, daemon=True) for f in (pump_to_peer, pump_to_lib, peer_thread)]
    for t in threads:
        t.start()
    tr = None
    try:
        if lib_is_server:
            tr = SSLStreamTransport(lib_sock, tlspeer.server_context(), retry_interval=0.5, server_side=True, handshake_timeout=10, shutdown_timeout=0.2, standard_compatible=standard)
        else:
            tr = SSLStreamTransport(lib_sock, tlspeer.client_context(), retry_interval=0.5, server_hostname="localhost", handshake_timeout=10, shutdown_timeout=0.2, standard_compatible=standard)
    except Exception:  # noqa: BLE001
        events.append({"ev": "wrap_error", "ok": lib_sock.fileno() == -1, "n": 0})
    if tr is not None:
        events.append({"ev": "wrap_ok"})
        got = 0
        for _ in range(10000):
            try:
                if into:
                    buf = bytearray(65536)
                    data = bytes(buf[: tr.recv_into(buf, 10)])
                else:
                    data = tr.recv(65536, 10)
            except (ssl.SSLError, OSError):
                events.append({"ev": "error"})
                break
            except Exception as exc:  # noqa: BLE001
                events.append({"ev": "crash:" + type(exc).__name__})
                break
            if not data:
                events.append({"ev": "eof"})
                break
            events.append({"ev": "data", "n": len(data), "ok": data == PLAIN[got : got + len(data)]})
            got += len(data)
        try:
            tr.close()
        except Exception:  # noqa: BLE001
            pass
    stop.set()
    for s in (lib_sock, proxy_a, proxy_b, peer_sock):
        try:
            s.close()
        except OSError:
            pass
    for t in threads:
        t.join(5)
    return {"events": events, "total_towards_lib": forwarded["towards_lib"]}


CLOSE_VARIANTS = ("first", "reader", "peer_first", "unread", "silent")


async def _close_session(lib_is_server: bool, standard: bool, variant: str, into: bool) -> list[dict[str, Any]]:
    """The library side closes in the given situation (see TLSClose.tla); what does the peer observe on its reading side?"""
    from easynetwork.lowlevel.api_async.backend._asyncio.backend import AsyncIOBackend
    from easynetwork.lowlevel.api_async.transports.tls import AsyncTLSStreamTransport

    backend = AsyncIOBackend()
    lib2peer, peer2lib = memtransport.MemPipe(), memtransport.MemPipe()
    inner = memtransport.MemStreamTransport(backend, peer2lib, lib2peer)
    peer = tlspeer.Peer(lib2peer, peer2lib, server_side=not lib_is_server)
    hs = asyncio.ensure_future(peer.handshake())
    kw: dict[str, Any] = {"standard_compatible": standard, "shutdown_timeout": 2, "handshake_timeout": 30}
    if lib_is_server:
        tls = await AsyncTLSStreamTransport.wrap(inner, tlspeer.server_context(), server_side=True, **kw)
    else:
        tls = await AsyncTLSStreamTransport.wrap(inner, tlspeer.client_context(), server_hostname="localhost", **kw)
    await hs
    events: list[dict[str, Any]] = []

    async def lib_read() -> bytes:
        if into:
            buf = bytearray(4096)
            return bytes(buf[: await tls.recv_into(buf)])
        return await tls.recv(4096)

    # some traffic first, so that both directions are past the handshake (session tickets consumed)
    await peer.write(b"hello")
    assert await lib_read() == b"hello"
    await tls.send_all(b"world")
    assert await peer.read() == b"world"
    reader = None
    if variant == "reader":
        reader = asyncio.ensure_future(lib_read())
        for _ in range(5):
            await asyncio.sleep(0)
    elif variant == "unread":
        # two records arrive in one piece; the library side reads the first one only: the second sits decrypted-to-be in its TLS layer
        await peer.write(b"first record")
        await peer.write(b"never read by the library side")
        if await lib_read() != b"first record":
            events.append({"ev": "crash:unexpected_data"})

    async def peer_observer() -> str:
        try:
            if variant == "peer_first":
                # the peer closes first: its unwrap() completes only when the library's close notification arrives
                await peer.unwrap()
                return "peer_clean"
            while True:
                data = await peer.read()
                if not data:
                    if variant != "silent":
                        await peer.close_notify()
                    return "peer_clean"
        except (ssl.SSLError, OSError):
            return "peer_truncated"

    obs = asyncio.ensure_future(peer_observer())
    if variant == "peer_first":
        try:
            if await lib_read() != b"":
                events.append({"ev": "crash:data_after_close_notify"})
        except (ssl.SSLError, OSError):
            events.append({"ev": "crash:error_instead_of_eof"})
    events.append({"ev": "lib_close"})
    closer = asyncio.ensure_future(tls.aclose())
    done, _ = await asyncio.wait([obs], timeout=30)
    events.append({"ev": obs.result() if done and obs.exception() is None else "peer_nothing"})
    await asyncio.wait([closer], timeout=30)
    if not closer.done():
        events.append({"ev": "crash:close_hangs"})
        closer.cancel()
    if reader is not None:
        reader.cancel()
        await asyncio.gather(reader, return_exceptions=True)
    obs.cancel()
    events.append({"ev": "end"})
    return events


async def _reader_while_closing_session(lib_is_server: bool, standard: bool, into: bool, answer: bool) -> list[dict[str, Any]]:
    """The reader's half while the library side is closing: a task is parked in recv / recv_into, another task calls aclose(), and the
    peer either answers with its close notification (answer=True: the complete stream) or just drops the connection (the stream is cut
    short of the close notification).  What the parked reader observes is a TLSTruncation behaviour like any other."""
    from easynetwork.lowlevel.api_async.backend._asyncio.backend import AsyncIOBackend
    from easynetwork.lowlevel.api_async.transports.tls import AsyncTLSStreamTransport

    backend = AsyncIOBackend()
    lib2peer, peer2lib = memtransport.MemPipe(), memtransport.MemPipe()
    inner = memtransport.MemStreamTransport(backend, peer2lib, lib2peer)
    peer = tlspeer.Peer(lib2peer, peer2lib, server_side=not lib_is_server)
    hs = asyncio.ensure_future(peer.handshake())
    kw: dict[str, Any] = {"standard_compatible": standard, "shutdown_timeout": 2, "handshake_timeout": 30}
    if lib_is_server:
        tls = await AsyncTLSStreamTransport.wrap(inner, tlspeer.server_context(), server_side=True, **kw)
    else:
        tls = await AsyncTLSStreamTransport.wrap(inner, tlspeer.client_context(), server_hostname="localhost", **kw)
    await hs
    events: list[dict[str, Any]] = [{"ev": "wrap_ok"}]

    async def lib_read() -> bytes:
        if into:
            buf = bytearray(4096)
            return bytes(buf[: await tls.recv_into(buf)])
        return await tls.recv(4096)

    await peer.write(b"hello")
    data = await lib_read()
    events.append({"ev": "data", "n": len(data), "ok": data == b"hello"})

    async def parked() -> None:
        try:
            d = await lib_read()
            events.append({"ev": "eof"} if not d else {"ev": "data", "n": len(d), "ok": False})
        except (ssl.SSLError, OSError):
            events.append({"ev": "error"})

    reader = asyncio.ensure_future(parked())
    for _ in range(5):
        await asyncio.sleep(0)
    closer = asyncio.ensure_future(tls.aclose())
    for _ in range(10):
        await asyncio.sleep(0)
    if answer:
        try:
            while await peer.read():
                pass
            await peer.close_notify()
        except (ssl.SSLError, OSError):
            pass
    else:
        peer2lib.close_write()  # the connection drops: no close notification will ever come
    await asyncio.wait([reader, closer], timeout=30)
    for t in (reader, closer):
        if not t.done():
            events.append({"ev": "crash:hangs"})
            t.cancel()
    await asyncio.gather(reader, closer, return_exceptions=True)
    return events


def _blocking_close_session(lib_is_server: bool, standard: bool, variant: str) -> list[dict[str, Any]]:
    """Blocking SSLStreamTransport.close() in the situations that exist without concurrency: first / peer_first / unread."""
    from easynetwork.lowlevel.api_sync.transports.socket import SSLStreamTransport

    lib_sock, peer_sock = socket.socketpair()
    events: list[dict[str, Any]] = []
    result: dict[str, str] = {}
    go = threading.Event()

    def peer_thread() -> None:
        try:
            ctx = tlspeer.client_context() if lib_is_server else tlspeer.server_context()
            peer_sock.settimeout(10)
            s = ctx.wrap_socket(peer_sock, server_side=not lib_is_server, server_hostname="localhost" if lib_is_server else None, suppress_ragged_eofs=False, do_handshake_on_connect=True)
            s.sendall(b"hello")
            assert s.recv(100) == b"world"
            if variant == "unread":
                s.sendall(b"never read by the library side")
            go.set()
            try:
                if variant == "peer_first":
                    # the peer closes first: unwrap() sends its close notification and returns when the library's one arrives
                    s.unwrap()
                    result["saw"] = "peer_clean"
                while "saw" not in result:
                    data = s.recv(4096)
                    if not data:
                        result["saw"] = "peer_clean"
                        break
            except ssl.SSLError:
                result["saw"] = "peer_truncated"
            except OSError:
                result["saw"] = "peer_truncated"
        except Exception as exc:  # noqa: BLE001
            result.setdefault("saw", "crash:peer:" + type(exc).__name__)
            go.set()

    th = threading.Thread(target=peer_thread, daemon=True)
    th.start()
    tr = None
    try:
        kw: dict[str, Any] = {"retry_interval": 0.5, "handshake_timeout": 10, "shutdown_timeout": 1.0, "standard_compatible": standard}
        if lib_is_server:
            tr = SSLStreamTransport(lib_sock, tlspeer.server_context(), server_side=True, **kw)
        else:
            tr = SSLStreamTransport(lib_sock, tlspeer.client_context(), server_hostname="localhost", **kw)
        assert tr.recv(100, 10) == b"hello"
        tr.send_all(b"world", 10)
        go.wait(10)
        if variant == "peer_first":
            try:
                if tr.recv(100, 10) != b"":
                    events.append({"ev": "crash:data_after_close_notify"})
            except (ssl.SSLError, OSError):
                events.append({"ev": "crash:error_instead_of_eof"})
        events.append({"ev": "lib_close"})
        tr.close()
    except Exception as exc:  # noqa: BLE001
        events.append({"ev": "crash:" + type(exc).__name__})
    th.join(15)
    events.append({"ev": result.get("saw", "peer_nothing")})
    events.append({"ev": "end"})
    for s_ in (lib_sock, peer_sock):
        try:
            s_.close()
        except OSError:
            pass
    return events


async def _close_sends_notify(lib_is_server: bool) -> bool:
    from easynetwork.lowlevel.api_async.backend._asyncio.backend import AsyncIOBackend
    from easynetwork.lowlevel.api_async.transports.tls import AsyncTLSStreamTransport

    backend = AsyncIOBackend()
    lib2peer, peer2lib = memtransport.MemPipe(), memtransport.MemPipe()
    inner = memtransport.MemStreamTransport(backend, peer2lib, lib2peer)
    peer = tlspeer.Peer(lib2peer, peer2lib, server_side=not lib_is_server)
    hs = asyncio.ensure_future(peer.handshake())
    if lib_is_server:
        tls = await AsyncTLSStreamTransport.wrap(inner, tlspeer.server_context(), server_side=True, shutdown_timeout=1)
    else:
        tls = await AsyncTLSStreamTransport.wrap(inner, tlspeer.client_context(), server_hostname="localhost", shutdown_timeout=1)
    await hs
    closer = asyncio.ensure_future(tls.aclose())
    try:
        data = await peer.read()  # b"" = close_notify received; SSLError = truncation
        ok = data == b""
    except ssl.SSLError:
        ok = False
    await peer.close_notify()
    await asyncio.gather(closer, return_exceptions=True)
    return ok


def run(chk: Check) -> None:
    quick = chk.tier == "quick"
    chk.rule = (
        "one live TLS session per (cut offset k in the ciphertext stream towards the reader, standard_compatible, role, transport kind); quick: every "
        "TLS record boundary +-2 bytes plus a stride over all offsets; thorough: every offset (asynchronous transport) / a fine stride (blocking "
        "transport); distinct = distinct (kind, role, mode, k); the session without cut is the non-faulty reference"
    )
    if not _model(chk):
        return
    rec: list[dict[str, Any]] = []
    info: dict[str, Any] = {}
    nstuck = 0
    for lib_is_server in (False, True):
        L = _reference_total(lib_is_server)
        # record boundaries of the reference stream
        ref = vloop.run(lambda: _ref_records(lib_is_server))
        cuts = set(range(0, L + 1, 1 if not quick else 9)) | {L, L - 1, L - 2}
        for b in ref:
            cuts |= {max(0, min(L, b + d)) for d in (-2, -1, 0, 1, 2)}
        info["server" if lib_is_server else "client"] = {"stream_length": L, "record_boundaries": ref, "cuts_async": len(cuts)}
        for standard in (True, False):
            for k in sorted(cuts):
                for into in (False, True):
                    if nstuck >= 4:
                        continue  # sessions that never end: the verdict is there, the other cut offsets need not be sat out
                    try:
                        r = vloop.run(lambda: _async_session(lib_is_server, standard, k, into), wall_limit=15)
                    except vloop.VirtualDeadlock as exc:
                        nstuck += 1
                        r = {"events": [{"ev": "wrap_ok"}, {"ev": "crash:" + str(exc)[:40]}]}
                    rec.append(
                        {
                            "par": {"total": L, "cut": k, "plain": len(PLAIN), "standard": standard},
                            "events": traces.uniform(r["events"], EVD),
                            "meta": f"async role={'server' if lib_is_server else 'client'} standard={standard} {'recv_into' if into else 'recv'} cut={k}/{L}",
                        }
                    )
        # blocking transport: reference length measured through the proxy
        rb = _blocking_session(lib_is_server, True, None)
        Lb = rb["total_towards_lib"]
        bcuts = sorted(set(range(0, Lb + 1, 97 if quick else 11)) | {Lb, Lb - 1, Lb - 7})
        info["server" if lib_is_server else "client"]["cuts_blocking"] = len(bcuts)
        for standard in (True, False):
            for i, k in enumerate(bcuts):
                into = bool(i % 2)
                r = _blocking_session(lib_is_server, standard, k, into)
                rec.append(
                    {
                        "par": {"total": Lb, "cut": k, "plain": len(PLAIN), "standard": standard},
                        "events": traces.uniform(r["events"], EVD),
                        "meta": f"blocking role={'server' if lib_is_server else 'client'} standard={standard} {'recv_into' if into else 'recv'} cut={k}/{Lb}",
                    }
                )
        # ... and with a reader parked while another task closes the transport (standard-compatible mode: that is where a clean
        # end-of-stream has to be earned; without it aclose() sends nothing and simply closes the transport under the reader)
        for standard in (True,):
            for into in (False, True):
                for answer in (True, False):
                    try:
                        evs = vloop.run(lambda: _reader_while_closing_session(lib_is_server, standard, into, answer), spin_limit=20000)
                    except vloop.VirtualDeadlock:
                        evs = [{"ev": "crash:deadlock"}]
                    rec.append(
                        {
                            "par": {"total": 100, "cut": 100 if answer else 99, "plain": 5, "standard": standard},
                            "events": traces.uniform(evs, EVD),
                            "meta": f"async role={'server' if lib_is_server else 'client'} standard={standard} {'recv_into' if into else 'recv'} reader parked while another task closes, "
                            + ("the peer answers with its close notification" if answer else "the peer drops the connection instead of answering"),
                        }
                    )
        ok = vloop.run(lambda: _close_sends_notify(lib_is_server))
        chk.traces += 1
        if not ok:
            chk.violation(
                {"kind": "close_notify", "role": "server" if lib_is_server else "client"},
                "closing the TLS transport did not send a close notification (the peer saw a truncated stream)",
                {"kind": "close_notify", "lib_is_server": lib_is_server},
            )
    # the writer's half: what the peer observes when the library side closes (TLSClose.tla)
    crec: list[dict[str, Any]] = []
    for lib_is_server in (False, True):
        for standard in (True, False):
            for variant in CLOSE_VARIANTS:
                for into in (False, True):
                    try:
                        evs = vloop.run(lambda: _close_session(lib_is_server, standard, variant, into), spin_limit=20000)
                    except vloop.VirtualDeadlock:
                        evs = [{"ev": "lib_close"}, {"ev": "peer_nothing"}]
                    crec.append({"par": {"standard": standard, "variant": variant}, "events": traces.uniform(evs, EVD), "meta": f"async close role={'server' if lib_is_server else 'client'} standard={standard} situation={variant} reads={'recv_into' if into else 'recv'}"})
            for variant in ("first", "peer_first", "unread"):
                evs = _blocking_close_session(lib_is_server, standard, variant)
                crec.append({"par": {"standard": standard, "variant": variant}, "events": traces.uniform(evs, EVD), "meta": f"blocking close role={'server' if lib_is_server else 'client'} standard={standard} situation={variant}"})
    cres = traces.validate("TLSCloseTrace", [{"par": t["par"], "events": t["events"]} for t in crec], cfg_text=TRACE_CFG, parallel=2, chunk=1500)
    chk.traces += len(crec)
    for t in crec:
        chk.distinct.add(t["meta"])
    chk.extra["close_protocol"] = {"sessions": len(crec), "rejected": len(cres.rejected), "peer_observations": {k: sum(1 for t in crec for e in t["events"] if e["ev"] == k) for k in ("peer_clean", "peer_truncated", "peer_nothing")}}
    for idx, pos in sorted(cres.rejected.items()):
        t = crec[idx]
        failing = t["events"][pos - 1] if 0 < pos <= len(t["events"]) else None
        chk.violation(
            {"kind": "trace", "spec": "TLSClose", "transport": t["meta"].split()[0], "variant": t["par"]["variant"], "event": (failing or {}).get("ev", "?")},
            f"TLS close: not an allowed observation (event #{pos}: {failing}) -- {t['meta']} events={[e['ev'] for e in t['events']]}",
            {"kind": "close_session", "meta": t["meta"], "events": t["events"]},
        )
    from . import c09_endpoints

    c09_endpoints.run(chk)
    slim = [{"par": t["par"], "events": t["events"]} for t in rec]
    res = traces.validate("TLSTruncationTrace", slim, cfg_text=TRACE_CFG, parallel=8, chunk=1500)
    chk.traces += len(rec)
    chk.evaluations = len(rec)
    for t in rec:
        chk.distinct.add(t["meta"])
    outcomes: dict[str, int] = {}
    for t in rec:
        last = t["events"][-1]["ev"] if t["events"] else "none"
        outcomes[last] = outcomes.get(last, 0) + 1
    info["sessions"] = len(rec)
    info["rejected"] = len(res.rejected)
    info["final_outcomes"] = outcomes
    chk.extra["truncation"] = info
    chk.sample({"meta": rec[len(rec) // 3]["meta"], "events": [(e["ev"], e["n"], e["ok"]) for e in rec[len(rec) // 3]["events"]]}, cap=3)
    for idx, pos in sorted(res.rejected.items())[:40]:
        t = rec[idx]
        failing = t["events"][pos - 1] if 0 < pos <= len(t["events"]) else None
        chk.violation(
            {"kind": "trace", "spec": "TLSTruncation", "transport": t["meta"].split()[0], "event": (failing or {}).get("ev", "?"), "standard": t["par"]["standard"]},
            f"TLS truncation: not an allowed observation (event #{pos}: {failing}) -- {t['meta']} events={[(e['ev'], e['n']) for e in t['events']]}",
            {"kind": "truncation_session", "meta": t["meta"], "events": t["events"]},
        )
    chk.assumptions += [
        "contexts have OP_IGNORE_UNEXPECTED_EOF cleared (the library's default client context does that; with a user context that keeps the option, "
        "OpenSSL itself reports truncation as a clean shutdown: outside the library's control)",
        "the ciphertext length of the reference session is reproducible for a fixed configuration (checked at run time)",
    ]


async def _ref_records(lib_is_server: bool) -> list[int]:
    """Record boundaries (end offsets) of the uncut stream towards the library."""
    from easynetwork.lowlevel.api_async.backend._asyncio.backend import AsyncIOBackend
    from easynetwork.lowlevel.api_async.transports.tls import AsyncTLSStreamTransport

    backend = AsyncIOBackend()
    lib2peer, peer2lib = memtransport.MemPipe(), memtransport.MemPipe()
    inner = memtransport.MemStreamTransport(backend, peer2lib, lib2peer)
    peer = tlspeer.Peer(lib2peer, peer2lib, server_side=not lib_is_server)

    async def script() -> None:
        await peer.handshake()
        for d in DATA:
            await peer.write(d)
        await peer.close_notify()

    pt = asyncio.ensure_future(script())
    if lib_is_server:
        tls = await AsyncTLSStreamTransport.wrap(inner, tlspeer.server_context(), server_side=True, shutdown_timeout=1)
    else:
        tls = await AsyncTLSStreamTransport.wrap(inner, tlspeer.client_context(), server_hostname="localhost", shutdown_timeout=1)
    while await tls.recv(65536):
        pass
    await pt
    await tls.aclose()
    _, records = tlspeer.parse_records(b"".join(peer2lib.log))
    ends = []
    pos = 0
    for _typ, ln in records:
        pos += 5 + ln
        ends.append(pos)
    return ends


def replay(data: dict[str, Any]) -> int:
    print(data["replay"].get("meta"))
    for e in data["replay"].get("events", []):
        print(e)
    return 0
