"""C02 - parsing depends only on the bytes; a bad frame costs exactly one error; resynchronisation after a size rejection.

SepScan.tla is model-checked (all byte strings x all chunkings x both receive paths, small constants), then executions of
the real separator-framed serializers (StringLineSerializer LF/CR/CRLF, keep_end both ways; AutoSeparatedPacketSerializer with
1/2/3-byte separators; JSONSerializer in line mode) through the real StreamDataConsumer / BufferedStreamDataConsumer are recorded
step by step (outcome + bytes held after every read) and validated against SepScanTrace by TLC, every invariant being evaluated in
every state of every trace.
"""

from __future__ import annotations

import random
from typing import Any

from .. import sepcheck, sepharness
from ..common import Check

LEVEL = "model_checking"


def _file_based_bad_frame(chk: Check) -> None:
    """The file-based framing (FileBasedPacketSerializer): a frame its loader refuses costs one parse error and nothing else, wherever
    the reads cut the stream - what follows the refused frame in the same read is not thrown away."""
    from easynetwork.exceptions import StreamProtocolParseError
    from easynetwork.lowlevel._stream import BufferedStreamDataConsumer, StreamDataConsumer
    from easynetwork.protocol import BufferedStreamProtocol, StreamProtocol

    from .. import serializers

    entry = next(e for e in serializers.entries() if e.name == "FileBasedPacketSerializer(subclass)")
    ser = entry.make()
    good = [b"one", b"", b"three!"]
    frames = [b"".join(ser.incremental_serialize(good[0])), b"\xff\xff", b"".join(ser.incremental_serialize(good[1])), b"".join(ser.incremental_serialize(good[2]))]
    stream = b"".join(frames)
    want = [good[0], "ERR", good[1], good[2]]
    n = 0
    chunkings = [[len(stream)], [1] * len(stream)] + [[k, len(stream) - k] for k in range(1, len(stream))] + [[3] * (len(stream) // 3 + 1), [5] * (len(stream) // 5 + 1)]
    for buffered in (False, True):
        for ck in chunkings:
            consumer: Any = BufferedStreamDataConsumer(BufferedStreamProtocol(entry.make()), 64) if buffered else StreamDataConsumer(StreamProtocol(entry.make()))
            got: list[Any] = []
            pos = 0
            problem = ""
            try:
                for size in ck:
                    if pos >= len(stream):
                        break
                    arg: Any
                    if buffered:
                        with memoryview(consumer.get_write_buffer()) as view:
                            m = min(size, view.nbytes, len(stream) - pos)
                            view[:m] = stream[pos : pos + m]
                        arg = m
                    else:
                        m = min(size, len(stream) - pos)
                        arg = stream[pos : pos + m]
                    pos += m
                    while True:
                        try:
                            got.append(consumer.next(arg))
                        except StopIteration:
                            break
                        except StreamProtocolParseError:
                            got.append("ERR")
                        arg = None
            except Exception as exc:  # noqa: BLE001
                problem = f" ({type(exc).__name__}: {exc})"
            n += 1
            chk.traces += 1
            if got != want or problem:
                chk.violation(
                    {"kind": "file_based", "what": "bad_frame"},
                    f"file-based framing, {'buffer-filling' if buffered else 'copying'} path, reads {ck[:6]}{'...' if len(ck) > 6 else ''} of the stream "
                    f"[frame, refused header, frame, frame]: outcomes {got}{problem}, frame-by-frame decoding gives {want}",
                    {"kind": "file_based_bad_frame", "buffered": buffered, "reads": ck},
                )
                return
    chk.extra["file_based_bad_frame_chunkings"] = n


def run(chk: Check) -> None:
    quick = chk.tier == "quick"
    rng = random.Random(chk.seed)
    chk.rule = (
        "traces = (serializer config, limit, receive path, byte stream, chunking); streams: every string over {payload, separator bytes} up to a "
        "length bound (all chunkings with reads <= 3) plus streams assembled from frames whose payload length sits around the thresholds "
        "(0,1,2, limit-sep-2 .. limit+sep+2) with undecodable bytes and half separators, 1-3 frames + unterminated tails; distinct = distinct "
        "(config, limit, path, stream, chunking); non-trivial = all of them contain at least one read that crosses or ends a frame"
    )
    # 1. the design: exhaustive model checking
    if quick:
        ok = sepcheck.model_check(chk, "sep<=2,limit5,stream<=8", [1, 2], [5], 8, [0])
        ok = sepcheck.model_check(chk, "bad bytes,sep2,limit5,stream<=7", [2], [5], 7, [0, 8]) and ok
    else:
        ok = sepcheck.model_check(chk, "sep<=3,limit5-6,stream<=9", [1, 2, 3], [5, 6], 9, [0], timeout=3000)
        ok = sepcheck.model_check(chk, "bad bytes+emptyerr,sep<=2,limit5,stream<=8", [1, 2], [5], 8, [0, 8], emptyerr=(False, True), timeout=3000) and ok
    if not ok:
        return
    cfgs = sepharness.configs()
    # 2. exhaustive small streams on the real serializers
    total = 0
    n_exh = 5 if quick else 7
    for seplen in (1, 2, 3):
        these = [c for c in cfgs if len(c.sep) == seplen]
        if quick:
            these = [c for c in these if "keep_end=True" not in c.name]
        streams = list(sepharness.all_streams(seplen, n_exh - (1 if quick and seplen == 3 else 0), [0]))
        rec = sepcheck.record_many(these, 5, streams, 3, rng)
        total += len(rec)
        for t in rec[:: max(1, len(rec) // 2)][:1]:
            chk.sample({"meta": t["meta"], "events": t["events"][:6]}, cap=8)
        for t in rec:
            chk.distinct.add(t["meta"])
        sepcheck.validate(chk, rec, f"exhaustive streams<= {n_exh} seplen={seplen}")
    # 3. frame-built streams around the thresholds, with undecodable frames and oversized frames
    for seplen in (1, 2, 3):
        these = [c for c in cfgs if len(c.sep) == seplen and not c.lenient]
        for limit in ((6,) if quick else (5, 6, 9)):
            streams = sepharness.frame_streams(seplen, limit, with_bad=True, max_frames=3, rng=rng, cap=60 if quick else 400)
            rec = sepcheck.record_many(these, limit, streams, 3, rng, exhaustive_upto=6, nrandom=3, per_stream_cap=4 if quick else 16)
            total += len(rec)
            for t in rec[:1]:
                chk.sample({"meta": t["meta"], "events": t["events"][:6]}, cap=8)
            for t in rec:
                chk.distinct.add(t["meta"])
            sepcheck.validate(chk, rec, f"frame streams seplen={seplen} limit={limit}")
    chk.evaluations = total
    _file_based_bad_frame(chk)
    from .. import burst

    burst.report(chk, "parsing must not depend on how the bytes arrive")
    chk.assumptions += [
        "bytes are mapped 1:1 onto the model alphabet (payload, undecodable payload, separator bytes); serializers whose payload is not "
        "byte-transparent (base64, compressors) are covered by the content-free StreamAbs traces of C01",
        "raw JSON has no terminator to resynchronise on: Resync is claimed for separator framing only, as the property's quantifier does",
    ]


def replay(data: dict[str, Any]) -> int:
    r = data["replay"]
    if r.get("kind") == "sepscan_trace":
        print(r["meta"])
        for i, e in enumerate(r["trace"]["events"], 1):
            print(i, e)
        print("verdict:", sepcheck.diagnose(r["trace"]))
    return 0
