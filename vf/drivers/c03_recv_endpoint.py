"""C03 - receive endpoints: every complete packet once, then a sticky end-of-stream.  (The same model carries the receive side of C11.)

RecvEndpoint.tla (the receive loop of the blocking endpoint, both receivers, abstract transport honouring its contract, time
budget) is model-checked over small streams x close positions x call histories with timeouts in {None, 0, >0}.  The real
StreamEndpoint is run on a scripted transport + fake clock, the real AsyncStreamEndpoint on an in-memory transport; every transport
call (buffer size, timeout argument, outcome, elapsed time) and every recv_packet outcome is logged and the logs are validated by TLC
against RecvEndpointTrace.
"""

from __future__ import annotations

import asyncio
import math
import os
import random
import tempfile
from typing import Any

from .. import memtransport, tlc, traces, vloop, vsync
from ..common import Check

LEVEL = "model_checking"
TRACE_CFG = "INIT TInit\nNEXT TNext\nCONSTANTS\n  Params = {}\n  Timeouts <- TraceTimeouts\n  MaxCalls = 1000\nCONSTRAINT Constr\nPOSTCONDITION Post\nCHECK_DEADLOCK FALSE\n"
EVD = {"ev": "", "t": 0, "n": 0, "k": 0, "e": 0, "bs": 0, "kind": ""}
INVS = ["NeverAhead", "EofAfterAll", "EofIsSticky", "WithinBudget", "TimeoutIsReal"]


def model(chk: Check, quick: bool) -> bool:
    with tempfile.TemporaryDirectory(prefix="vf_c03_") as d:
        defs = {
            "MCParams": "{[ends |-> e, bufsize |-> b, closeat |-> c] : e \\in {<<2>>, <<1, 3>>, <<2, 4, 5>>%s}, b \\in {1, 2, 3}, c \\in {0 - 1, 0, 1, 2, 3, 4, 5}}"
            % ("" if quick else ", <<3, 4, 6>>, <<1, 2, 3, 6>>"),
            "MCTimeouts": "{0 - 1, 0, 2}" if quick else "{0 - 1, 0, 1, 3}",
        }
        mod = tlc.write_mc_module(d, "MC_RecvEndpoint", "RecvEndpoint", defs)
        cfg = os.path.join(d, "mc.cfg")
        tlc.write_cfg(
            cfg,
            constants={"Params": "<- MCParams", "Timeouts": "<- MCTimeouts", "MaxCalls": "4" if quick else "5"},
            invariants=INVS,
            properties=["EofNoTransport"],
            check_deadlock=False,
        )
        res = tlc.run_tlc(mod, cfg, timeout=1800, coverage=True)
    chk.add_model("RecvEndpoint", res, defs, "call histories x close positions x timeouts {None,0,>0} x read sizes; sticky EOF, budget")
    if not res.ok:
        chk.model_violation("RecvEndpoint", res)
        return False
    return True


def _transport_classes() -> Any:
    from easynetwork.lowlevel.api_sync.transports.abc import StreamTransport

    class ScriptedStreamTransport(StreamTransport):
        """Honours the transport contract; what the peer does while the endpoint waits is drawn from the scenario's RNG."""

        def __init__(self, sc: "Scenario") -> None:
            super().__init__()
            self.sc = sc
            self._closed = False

        def close(self) -> None:
            self._closed = True

        def is_closed(self) -> bool:
            return self._closed

        @property
        def extra_attributes(self) -> Any:
            return {}

        def _recv(self, bs: int, timeout: float) -> bytes:
            sc = self.sc
            sc.guard()
            t_arg = -1 if timeout == math.inf else int(timeout)
            if sc.avail() == 0 and not sc.closed:
                # nothing buffered: the peer acts while we wait (or does not)
                sc.peer_acts(timeout)
            if sc.avail() > 0:
                k = sc.rng.randint(1, min(sc.avail(), bs))
                data = sc.take(k)
                sc.log({"ev": "trecv", "kind": "data", "k": k, "e": sc.last_elapsed, "bs": bs, "t": t_arg})
                sc.last_elapsed = 0
                return data
            if sc.closed:
                sc.log({"ev": "trecv", "kind": "eof", "e": sc.last_elapsed, "bs": bs, "t": t_arg})
                sc.last_elapsed = 0
                return b""
            if timeout == math.inf:
                raise vsync.SpinDetected("scenario ended: the endpoint waits for ever on a silent peer")
            sc.clock.now += timeout
            sc.log({"ev": "trecv", "kind": "timeout", "e": int(timeout), "bs": bs, "t": t_arg})
            raise TimeoutError("scripted timeout")

        def recv(self, bufsize: int, timeout: float) -> bytes:
            return self._recv(bufsize, timeout)

        def recv_into(self, buffer: Any, timeout: float) -> int:
            with memoryview(buffer) as v:
                data = self._recv(v.nbytes, timeout)
                v[: len(data)] = data
                return len(data)

        def send(self, data: Any, timeout: float) -> int:
            return len(data)

        def send_eof(self) -> None:
            pass

    return ScriptedStreamTransport


class Scenario:
    def __init__(self, seed: int) -> None:
        self.rng = random.Random(seed)
        rng = self.rng
        self.clock = vsync.FakeClock()
        npk = rng.randint(1, 4)
        self.packets = ["p%d" % i + "x" * rng.randint(0, 3) for i in range(npk)]
        self.data = "".join(p + "\n" for p in self.packets).encode()
        self.ends = []
        acc = 0
        for p in self.packets:
            acc += len(p) + 1
            self.ends.append(acc)
        total = len(self.data)
        self.closeat = rng.choice([-1, -1, total, total, rng.randint(0, total)])
        self.limit = total if self.closeat < 0 else self.closeat
        self.bufsize = rng.choice([1, 2, 3, 5, 64])
        self.wire = 0
        self.read = 0
        self.closed = False
        self.events: list[dict[str, Any]] = []
        self.last_elapsed = 0
        self.nguard = 0

    def guard(self) -> None:
        self.nguard += 1
        if self.nguard > 3000:
            raise vsync.SpinDetected("too many transport calls")

    def log(self, e: dict[str, Any]) -> None:
        self.events.append(e)

    def avail(self) -> int:
        return self.wire - self.read

    def take(self, k: int) -> bytes:
        d = self.data[self.read : self.read + k]
        self.read += k
        return d

    def peer_write(self, n: int) -> None:
        n = min(n, self.limit - self.wire)
        if n > 0:
            self.wire += n
            self.log({"ev": "write", "n": n})

    def peer_close(self) -> None:
        if not self.closed and self.closeat >= 0 and self.wire == self.limit:
            self.closed = True
            self.log({"ev": "close"})

    def peer_acts(self, timeout: float) -> None:
        """Called when the endpoint is about to wait with nothing buffered."""
        rng = self.rng
        self.last_elapsed = 0
        room = self.limit - self.wire
        if timeout == 0:
            return
        choices = []
        if room > 0:
            choices += ["write", "write", "write"]
        elif self.closeat >= 0:
            choices += ["close", "close"]
        if timeout != math.inf:
            choices.append("nothing")
        if not choices:
            return
        c = rng.choice(choices)
        if c == "nothing":
            return
        e = rng.randint(0, 3 if timeout == math.inf else int(timeout))
        self.clock.now += e
        self.last_elapsed = e
        if c == "write":
            self.peer_write(rng.randint(1, min(room, 4)))
        else:
            self.peer_close()

    def between_calls(self) -> None:
        rng = self.rng
        for _ in range(rng.randint(0, 2)):
            if self.wire < self.limit and rng.random() < 0.7:
                self.peer_write(rng.randint(1, 5))
            elif self.wire == self.limit:
                self.peer_close()


def run_sync(seed: int, buffered: bool) -> dict[str, Any]:
    from easynetwork.lowlevel.api_sync.endpoints.stream import StreamEndpoint
    from easynetwork.protocol import BufferedStreamProtocol, StreamProtocol
    from easynetwork.serializers.line import StringLineSerializer

    sc = Scenario(seed)
    cls = _transport_classes()
    proto = (BufferedStreamProtocol if buffered else StreamProtocol)(StringLineSerializer())
    delivered = 0
    problems: list[str] = []
    with vsync.patched_clock(sc.clock):
        ep = StreamEndpoint(cls(sc), proto, max_recv_size=sc.bufsize)
        for _ in range(sc.rng.randint(2, 8)):
            sc.between_calls()
            t = sc.rng.choice([None, None, 0, 0, 1, 2, 4])
            sc.log({"ev": "call", "t": -1 if t is None else t})
            t0 = sc.clock.now
            try:
                pkt = ep.recv_packet(timeout=t)
                delivered += 1
                if delivered > len(sc.packets) or pkt != sc.packets[delivered - 1]:
                    problems.append(f"packet #{delivered} is {pkt!r}")
                sc.log({"ev": "ret", "kind": "packet"})
            except TimeoutError:
                sc.log({"ev": "ret", "kind": "timeout"})
            except ConnectionAbortedError:
                sc.log({"ev": "ret", "kind": "eof"})
            except vsync.SpinDetected:
                sc.events.pop()  # the scenario cannot go on (silent peer, no timeout): drop the unfinished call
                while sc.events and sc.events[-1]["ev"] == "trecv":
                    sc.events.pop()
                break
            except Exception as exc:  # noqa: BLE001
                sc.log({"ev": "ret", "kind": "error:" + type(exc).__name__})
            if t is not None and sc.clock.now - t0 > t + 1e-9:
                problems.append(f"recv_packet(timeout={t}) took {sc.clock.now - t0} on the fake clock")
        eof_reported = any(e["ev"] == "ret" and e.get("kind") == "eof" for e in sc.events)
        ep.close()
        if eof_reported:
            # "every later call reports it again": also the call made after the endpoint itself was closed - the end of the stream
            # that was reported stays the answer, and the (closed) transport is not asked again
            sc.log({"ev": "call", "t": 0})
            try:
                ep.recv_packet(timeout=0)
                sc.log({"ev": "ret", "kind": "packet"})
            except TimeoutError:
                sc.log({"ev": "ret", "kind": "timeout"})
            except ConnectionAbortedError:
                sc.log({"ev": "ret", "kind": "eof"})
            except Exception as exc:  # noqa: BLE001
                sc.log({"ev": "ret", "kind": "error:" + type(exc).__name__})
    evs = traces.uniform(sc.events, EVD)
    if problems:
        evs.append(dict(EVD, ev="problem"))
    return {
        "par": {"ends": sc.ends, "bufsize": sc.bufsize, "closeat": sc.closeat},
        "events": evs,
        "meta": f"StreamEndpoint({'buffered' if buffered else 'copy'}) seed={seed} packets={sc.packets} closeat={sc.closeat} bufsize={sc.bufsize} problems={problems}",
    }


async def _run_async(seed: int, buffered: bool) -> dict[str, Any]:
    from easynetwork.lowlevel.api_async.backend._asyncio.backend import AsyncIOBackend
    from easynetwork.lowlevel.api_async.endpoints.stream import AsyncStreamEndpoint
    from easynetwork.protocol import BufferedStreamProtocol, StreamProtocol
    from easynetwork.serializers.line import StringLineSerializer

    sc = Scenario(seed)
    backend = AsyncIOBackend()
    rx, tx = memtransport.MemPipe(), memtransport.MemPipe()
    problems: list[str] = []

    class Recording(memtransport.MemStreamTransport):
        async def recv(self, bufsize: int) -> bytes:
            data = await super().recv(bufsize)
            if data:
                sc.read += len(data)
                sc.log({"ev": "trecv", "kind": "data", "k": len(data), "e": 0, "bs": bufsize, "t": -1})
            else:
                sc.log({"ev": "trecv", "kind": "eof", "e": 0, "bs": bufsize, "t": -1})
            return data

    rx.fragment = lambda: sc.rng.randint(1, 4)
    transport = Recording(backend, rx, tx)
    proto = (BufferedStreamProtocol if buffered else StreamProtocol)(StringLineSerializer())
    ep = AsyncStreamEndpoint(transport, proto, max_recv_size=sc.bufsize)
    delivered = 0

    def feed_some() -> None:
        if sc.wire < sc.limit and sc.rng.random() < 0.8:
            n = min(sc.rng.randint(1, 5), sc.limit - sc.wire)
            rx.feed(sc.data[sc.wire : sc.wire + n])
            sc.wire += n
            sc.log({"ev": "write", "n": n})
        elif sc.wire == sc.limit and sc.closeat >= 0 and not sc.closed:
            sc.closed = True
            rx.close_write()
            sc.log({"ev": "close"})

    for _ in range(sc.rng.randint(2, 8)):
        for _ in range(sc.rng.randint(0, 2)):
            feed_some()
        sc.log({"ev": "call", "t": -1})
        task = asyncio.ensure_future(ep.recv_packet())
        for _ in range(40):
            await asyncio.sleep(0)
            if task.done():
                break
            feed_some()
        if not task.done():
            task.cancel()
            try:
                await task
            except BaseException:  # noqa: BLE001
                pass
            sc.events.pop() if sc.events and sc.events[-1]["ev"] == "call" else None
            # drop the unfinished call (nothing more will ever arrive): remove its trecv events too
            while sc.events and sc.events[-1]["ev"] in ("trecv",):
                sc.events.pop()
            if sc.events and sc.events[-1]["ev"] == "call":
                sc.events.pop()
            break
        try:
            pkt = task.result()
            delivered += 1
            if delivered > len(sc.packets) or pkt != sc.packets[delivered - 1]:
                problems.append(f"packet #{delivered} is {pkt!r}")
            sc.log({"ev": "ret", "kind": "packet"})
        except ConnectionAbortedError:
            sc.log({"ev": "ret", "kind": "eof"})
        except Exception as exc:  # noqa: BLE001
            sc.log({"ev": "ret", "kind": "error:" + type(exc).__name__})
    await ep.aclose()
    evs = traces.uniform(sc.events, EVD)
    if problems:
        evs.append(dict(EVD, ev="problem"))
    return {
        "par": {"ends": sc.ends, "bufsize": 64, "closeat": sc.closeat},
        "events": evs,
        "meta": f"AsyncStreamEndpoint({'buffered' if buffered else 'copy'}) seed={seed} packets={sc.packets} closeat={sc.closeat} problems={problems}",
    }


def record_all(chk: Check, n: int) -> list[dict[str, Any]]:
    rec: list[dict[str, Any]] = []
    for i in range(n):
        seed = chk.seed * 1000003 + i
        rec.append(run_sync(seed, False))
        rec.append(run_sync(seed, True))
        if i % 2 == 0:
            rec.append(vloop.run(lambda: _run_async(seed, False)))
            rec.append(vloop.run(lambda: _run_async(seed, True)))
    return rec


def validate(chk: Check, rec: list[dict[str, Any]], label: str) -> None:
    slim = [{"par": t["par"], "events": t["events"]} for t in rec]
    res = traces.validate("RecvEndpointTrace", slim, cfg_text=TRACE_CFG, parallel=12, chunk=800)
    chk.traces += len(rec)
    chk.states += res.tlc.distinct
    chk.transitions += res.tlc.generated
    for t in rec:
        chk.distinct.add(tuple(tuple(e.values()) for e in t["events"]) + (str(t["par"]),))
    chk.sample({"meta": rec[0]["meta"], "events": [{k: v for k, v in e.items() if v not in (0, "")} for e in rec[0]["events"][:14]]}, cap=4)
    rets: dict[str, int] = {}
    for t in rec:
        for e in t["events"]:
            if e["ev"] == "ret":
                rets[e["kind"]] = rets.get(e["kind"], 0) + 1
    chk.extra[label] = {"traces": len(rec), "events": res.nevents, "rejected": len(res.rejected), "outcomes": rets}
    for idx, pos in sorted(res.rejected.items())[:40]:
        t = rec[idx]
        failing = t["events"][pos - 1] if 0 < pos <= len(t["events"]) else None
        chk.violation(
            {"kind": "trace", "spec": "RecvEndpoint", "target": t["meta"].split()[0], "event": failing["ev"] if failing else "?"},
            f"receive endpoint: not a behaviour of RecvEndpoint (event #{pos}: {failing}) -- {t['meta']}",
            {"kind": "recvendpoint_trace", "trace": slim[idx], "meta": t["meta"], "rejected_at": pos},
        )


def run(chk: Check) -> None:
    quick = chk.tier == "quick"
    chk.rule = (
        "traces = seeded scenarios: 1-4 packets, the peer closes between packets / inside a frame / before any data / never, 2-8 recv_packet calls "
        "with timeouts drawn from {None, 0, 1, 2, 4}, peer writes of 1-5 bytes while the endpoint waits, read sizes 1-64; blocking endpoint on a "
        "scripted transport + fake clock (both receivers), asynchronous endpoint on an in-memory transport (both receivers); plus, seen from the "
        "public API (RecvClient): AsyncStreamEndpoint over the asyncio socket adapter, AsyncTCPNetworkClient over loopback TCP in virtual time and the "
        "blocking TCPNetworkClient over a scripted socket/selector world, 2-9 recv_packet / iter_received_packets calls with timeouts None / 0 / positive "
        "and pauses during which the peer writes or closes"
    )
    if not model(chk, quick):
        return
    rec = record_all(chk, 1200 if quick else 15000)
    validate(chk, rec, "endpoint_traces")
    from . import c03_clients

    c03_clients.run(chk)
    chk.evaluations = chk.traces
    from .. import burst, recvbuffer

    burst.report(chk, "every complete packet once, then end-of-stream")
    recvbuffer.run(chk)
    chk.assumptions += [
        "the scripted transport honours the transport contract (returns available bytes without waiting, b'' only after the peer closed and all "
        "bytes were read, TimeoutError only after waiting the whole timeout with nothing to deliver)",
    ]


def replay(data: dict[str, Any]) -> int:
    r = data["replay"]
    print(r.get("meta"))
    for i, e in enumerate(r["trace"]["events"], 1):
        print(i, {k: v for k, v in e.items() if v not in (0, "")})
    return 0
