from __future__ import annotations
def run(chk): pass
def replay(data): return 0
