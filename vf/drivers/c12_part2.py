"""C12 part 2: SendLock.tla behaviours replayed on the real clients (exact projection after every action)."""

from __future__ import annotations

import asyncio
import os
import tempfile
from collections.abc import Generator
from typing import Any

from .. import graph, harness, memtransport, tlc, vloop
from ..common import Check


def _serializer(nchunks: int) -> Any:
    from easynetwork.serializers.abc import AbstractIncrementalPacketSerializer

    class ChunkedSerializer(AbstractIncrementalPacketSerializer[tuple[int, int], tuple[int, int]]):
        """A packet (sender, n) is written as `nchunks` chunks 's.n.k;'."""

        def incremental_serialize(self, packet: tuple[int, int]) -> Generator[bytes, None, None]:
            for k in range(1, nchunks + 1):
                yield b"%d.%d.%d;" % (packet[0], packet[1], k)

        def incremental_deserialize(self) -> Generator[None, bytes, tuple[tuple[int, int], bytes]]:
            buf = b""
            while buf.count(b";") < nchunks:
                buf += yield
            parts = buf.split(b";", nchunks)
            s, n, _ = parts[0].split(b".")
            return (int(s), int(n)), parts[-1]

    return ChunkedSerializer()


def _decode(chunk: bytes) -> tuple[int, int, int]:
    s, n, k = chunk.rstrip(b";").split(b".")
    return int(s), int(n), int(k)


class _Target:
    """One object under test with N concurrent callers of send_packet; built inside a running loop."""

    name = "?"

    def __init__(self, senders: list[int], nchunks: int) -> None:
        self.senders = senders
        self.nchunks = nchunks
        self.gates = {s: harness.Gate() for s in senders}
        self.tasks: dict[int, asyncio.Task[None] | None] = {s: None for s in senders}
        self.pkt = {s: 1 for s in senders}
        self.ncalls_done = {s: 0 for s in senders}
        self.wire: list[tuple[int, int, int]] = []
        self.errors: list[str] = []

    async def send_hook(self, data: bytes) -> None:
        s, _, _ = _decode(data)
        await self.gates[s].pass_()
        self.wire.append(_decode(data))

    async def send(self, packet: tuple[int, int]) -> None:
        raise NotImplementedError

    async def setup(self) -> None:
        raise NotImplementedError

    async def teardown(self) -> None:
        pass

    async def _call(self, s: int, n: int) -> None:
        await self.send((s, n))

    async def apply(self, action: str, args: tuple[Any, ...], pkts_per: int) -> None:
        (s,) = args
        if action == "Call":
            self.tasks[s] = asyncio.get_running_loop().create_task(self._call(s, self.pkt[s]))
        elif action == "Send":
            if self.gates[s].waiting() != 1:
                raise AssertionError(f"sender {s} should be suspended in the transport, but {self.gates[s].waiting()} calls are")
            self.gates[s].open_once()
        elif action == "Cancel":
            t = self.tasks[s]
            assert t is not None
            t.cancel()
        await harness.settle()
        # collect finished calls
        for s2, t in self.tasks.items():
            if t is not None and t.done():
                self.tasks[s2] = None
                self.pkt[s2] += 1
                if t.cancelled():
                    if not (action == "Cancel" and s2 == s):
                        raise AssertionError(f"send_packet of sender {s2} was cancelled although nobody cancelled it")
                elif t.exception() is not None:
                    raise AssertionError(f"send_packet of sender {s2} raised {t.exception()!r}")
                elif action == "Cancel" and s2 == s:
                    raise AssertionError("cancelled queued send_packet completed normally")

    def project(self, pkts_per: int) -> dict[str, Any]:
        pc = []
        holder = 0
        for s in self.senders:
            t = self.tasks[s]
            if t is None:
                pc.append("done" if self.pkt[s] > pkts_per else "idle")
            elif self.gates[s].waiting():
                pc.append("sending")
                holder = s if holder == 0 else -1
            else:
                pc.append("queued")
        return {"pc": tuple(pc), "holder": holder, "wire": tuple(self.wire)}


class _AsyncTCPClientTarget(_Target):
    name = "AsyncTCPNetworkClient.send_packet"

    async def setup(self) -> None:
        from easynetwork.clients.async_tcp import AsyncTCPNetworkClient
        from easynetwork.protocol import StreamProtocol

        self.backend = harness.HarnessBackend()
        self.sock, self.peer_sock = harness.loopback_tcp_pair()
        rx, tx = memtransport.MemPipe(), memtransport.MemPipe()
        self.transport = memtransport.MemStreamTransport(
            self.backend, rx, tx, extra=harness.socket_extra(self.sock), send_hook=self.send_hook
        )
        self.backend.stream_factory = lambda sock: self.transport
        self.client = AsyncTCPNetworkClient(self.sock, StreamProtocol(_serializer(self.nchunks)), backend=self.backend)
        await self.client.wait_connected()

    async def send(self, packet: tuple[int, int]) -> None:
        await self.client.send_packet(packet)

    async def teardown(self) -> None:
        for t in self.tasks.values():
            if t is not None:
                t.cancel()
        await harness.settle()
        try:
            await self.client.aclose()
        finally:
            self.sock.close()
            self.peer_sock.close()


class _ServerSideClientTarget(_Target):
    """The client object that AsyncTCPNetworkServer hands to the request handler; the senders are tasks that share it."""

    name = "server-side client send_packet (AsyncTCPNetworkServer)"

    async def setup(self) -> None:
        from easynetwork.protocol import StreamProtocol
        from easynetwork.servers.handlers import AsyncStreamRequestHandler

        from .. import srvharness

        got: dict[str, Any] = {}
        ready = asyncio.Event()

        class Handler(AsyncStreamRequestHandler[Any, Any]):
            async def handle(self, client: Any) -> Any:
                got["client"] = client
                ready.set()
                while True:
                    yield

        self.fx = srvharness.TCPServerFixture(StreamProtocol(_serializer(self.nchunks)), Handler())
        await self.fx.start()
        self.mc = self.fx.connect()
        tr = self.mc.server_side
        orig_send_all = tr.send_all
        target = self

        async def send_all(data: Any) -> None:
            # one gate passage per chunk, as the in-memory transport of the client target does
            await target.send_hook(bytes(data))
            await orig_send_all(data)

        async def send_all_from_iterable(it: Any) -> None:
            for data in it:
                await send_all(data)

        tr.send_all = send_all  # type: ignore[method-assign]
        tr.send_all_from_iterable = send_all_from_iterable  # type: ignore[method-assign]
        await asyncio.wait_for(ready.wait(), 5)
        self.client = got["client"]

    async def send(self, packet: tuple[int, int]) -> None:
        await self.client.send_packet(packet)

    async def teardown(self) -> None:
        for t in self.tasks.values():
            if t is not None:
                t.cancel()
        await harness.settle()
        await self.fx.stop()


TARGETS: list[type[_Target]] = [_AsyncTCPClientTarget, _ServerSideClientTarget]


def _cfg(path: str, nsenders: int, nchunks: int, pkts: int, maxcancel: int, liveness: bool) -> dict[str, str]:
    consts = {
        "Senders": "{" + ", ".join(str(i) for i in range(1, nsenders + 1)) + "}",
        "NChunks": str(nchunks),
        "PktsPer": str(pkts),
        "MaxCancel": str(maxcancel),
    }
    tlc.write_cfg(
        path,
        constants=consts,
        invariants=["Contiguous", "ExactlyOnce", "SenderOrder", "HolderConsistent", "NeverWritten", "AllSent"],
        properties=["Terminates"] if liveness else [],
        check_deadlock=True,
    )
    return consts


async def _run_path(target_cls: type[_Target], g: graph.Graph, path: graph.Path, nsenders: int, nchunks: int, pkts: int) -> tuple[list[str], str | None, list[str]]:
    tgt = target_cls(list(range(1, nsenders + 1)), nchunks)
    await tgt.setup()
    done: list[str] = []
    try:
        for action, args, dst in path:
            if not args:
                continue  # terminal stuttering
            label = f"{action}({args[0]})"
            done.append(label)
            try:
                await tgt.apply(action, args, pkts)
            except AssertionError as exc:
                return done, str(exc), ["error"]
            got = tgt.project(pkts)
            want = g.states[dst]
            bad = [k for k in got if got[k] != want[k]]
            if bad:
                return done, "; ".join(f"{k}: impl={got[k]!r} spec={want[k]!r}" for k in bad), sorted(bad)
        return done, None, []
    finally:
        await tgt.teardown()


async def _lazy_connect_scenario(how: str) -> dict[str, Any]:
    """The client is not connected yet: the first send_packet() performs the connection while a second one is queued behind it.
    how = "cancel": the first call is cancelled during the connection attempt; "refused": that attempt fails with ConnectionRefusedError.
    The queued call (which nobody cancelled) must still succeed - with a connection of its own - and its packet reach the wire whole."""
    from easynetwork.clients.async_tcp import AsyncTCPNetworkClient
    from easynetwork.protocol import StreamProtocol

    backend = harness.HarnessBackend()
    gate = asyncio.Event()
    sock, peer = harness.loopback_tcp_pair()
    rx, tx = memtransport.MemPipe(), memtransport.MemPipe()
    attempts = [0]

    async def create_tcp_connection(*a: Any, **kw: Any) -> Any:
        attempts[0] += 1
        n = attempts[0]
        await gate.wait()
        if how == "refused" and n == 1:
            raise ConnectionRefusedError(111, "Connection refused")
        return memtransport.MemStreamTransport(backend, rx, tx, extra=harness.socket_extra(sock))

    backend.create_tcp_connection = create_tcp_connection  # type: ignore[method-assign]
    client = AsyncTCPNetworkClient(("verif.invalid", 9), StreamProtocol(_serializer(1)), backend=backend)
    results: dict[str, str] = {}

    async def send(name: str, packet: tuple[int, int]) -> None:
        try:
            await client.send_packet(packet)
            results[name] = "ok"
        except asyncio.CancelledError:
            results[name] = "cancelled"
        except ConnectionError as exc:
            results[name] = "connection_error:" + type(exc).__name__
        except BaseException as exc:  # noqa: BLE001
            results[name] = f"error:{type(exc).__name__}:{exc}"

    try:
        ta = asyncio.ensure_future(send("A", (1, 1)))
        await harness.settle()
        tb = asyncio.ensure_future(send("B", (2, 1)))
        await harness.settle()
        if how == "cancel":
            ta.cancel()
            await harness.settle()
        gate.set()
        await asyncio.wait([ta, tb], timeout=30)
        for t in (ta, tb):
            if not t.done():
                t.cancel()
        await harness.settle()
        wire = [list(_decode(c)) for c in b"".join(tx.log).split(b";") if c] if hasattr(tx, "log") else []
    finally:
        try:
            await asyncio.wait_for(client.aclose(), 5)
        except BaseException:  # noqa: BLE001
            pass
        sock.close()
        peer.close()
    problems = []
    if results.get("B") != "ok":
        problems.append(f"B (never cancelled): {results.get('B')}")
    if how == "cancel" and results.get("A") != "cancelled":
        problems.append(f"A: {results.get('A')}")
    if how == "refused" and not str(results.get("A")).startswith("connection_error"):
        problems.append(f"A: {results.get('A')}")
    if problems:
        wire.append([0, 0, 0])
    return {"nchunks": 1, "wire": wire, "cancelled": [[1, 1]], "expected": [[2, 1]], "meta": f"lazy connection, first attempt {how}: results={results} attempts={attempts[0]} problems={problems} wire={wire}"}


def run(chk: Check) -> None:
    quick = chk.tier == "quick"
    lazy = [vloop.run(lambda: _lazy_connect_scenario(how)) for how in ("cancel", "refused")]
    from .. import traces as _traces
    from .c12_threads import TRACE_CFG as WIRE_CFG

    lres = _traces.validate("SendLockWire", [{"nchunks": t["nchunks"], "wire": t["wire"], "cancelled": t["cancelled"], "expected": t["expected"], "events": []} for t in lazy], cfg_text=WIRE_CFG)
    chk.traces += len(lazy)
    chk.extra["lazy_connection"] = {"scenarios": len(lazy), "rejected": len(lres.rejected)}
    for idx in sorted(lres.rejected):
        t = lazy[idx]
        chk.distinct.add(t["meta"])
        chk.violation(
            {"kind": "wire", "target": "AsyncTCPNetworkClient", "scenario": "lazy_connection"},
            f"AsyncTCPNetworkClient, senders queued behind the connection attempt: {t['meta']}",
            {"kind": "lazy_connection", "meta": t["meta"]},
        )
    nsenders, nchunks, pkts, maxcancel = (3, 2, 1, 1) if quick else (3, 2, 2, 2)
    with tempfile.TemporaryDirectory(prefix="vf_c12b_") as d:
        cfg = os.path.join(d, "sl.cfg")
        consts = _cfg(cfg, *((3, 2, 2, 2) if quick else (3, 3, 2, 2)), liveness=True)
        res = tlc.run_tlc("SendLock", cfg, coverage=True)
        chk.add_model("SendLock", res, consts, "contiguity, exactly-once, per-sender order, termination")
        if not res.ok:
            chk.model_violation("SendLock", res, consts)
            return
        cfg2 = os.path.join(d, "sl2.cfg")
        consts2 = _cfg(cfg2, nsenders, nchunks, pkts, maxcancel, liveness=False)
        g, _ = graph.dump_graph("SendLock", cfg2)
    paths = graph.edge_cover_paths(g, seed=chk.seed)
    info: dict[str, Any] = {"graph_states": len(g.states), "graph_edges": g.nedges, "behaviours": len(paths), "constants": consts2, "targets": {}}
    for target_cls in TARGETS:
        n = 0
        for _root, path in paths:
            done, err, bad = vloop.run(lambda: _run_path(target_cls, g, path, nsenders, nchunks, pkts))
            n += 1
            chk.traces += 1
            chk.distinct.add((target_cls.name, tuple(done)))
            if err is not None:
                chk.violation(
                    {"kind": "replay", "target": target_cls.name, "vars": bad},
                    f"{target_cls.name} diverges from SendLock after {' '.join(done)}: {err}",
                    {"kind": "sendlock_path", "target": target_cls.name, "path": done, "constants": [nsenders, nchunks, pkts]},
                )
            elif len(done) >= 8:
                chk.sample({"target": target_cls.name, "behaviour": done}, cap=6)
        info["targets"][target_cls.name] = n
    chk.extra["sendlock_replay"] = info


def replay(data: dict[str, Any]) -> int:
    print("re-run the check: SendLock replays are deterministic; path =", data["replay"].get("path"))
    return 0
