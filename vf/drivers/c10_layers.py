"""C10 part 2: cancellation / timeout schedules through the upper receive layers, decided by StreamAbsTrace.

Every scenario: the peer writes a stream of packets in pieces at scripted virtual times (each piece becomes *visible* to the event
loop at a scripted time, possibly exactly when a deadline fires); the receiver performs receive calls under timeouts / move-on scopes /
task cancellation with scripted delays; afterwards it reads without timeout.  The trace (feed / deliver events) must be a behaviour of
StreamAbs: every packet exactly once, in order, nothing left over - i.e. no byte was lost, duplicated or reordered by a cancellation.
"""

from __future__ import annotations

import asyncio
import random
import socket
from typing import Any

from .. import harness, traces, vloop
from ..common import Check
from .c01_roundtrip import TRACE_CFG

TICK = 0.25


def _protocols() -> dict[str, Any]:
    from easynetwork.protocol import BufferedStreamProtocol, StreamProtocol
    from easynetwork.serializers.line import StringLineSerializer

    return {
        "copy": lambda: StreamProtocol(StringLineSerializer()),
        "buffered": lambda: BufferedStreamProtocol(StringLineSerializer()),
    }


async def _scenario(target: str, path: str, seed: int) -> dict[str, Any]:
    from easynetwork.lowlevel.api_async.backend._asyncio.backend import AsyncIOBackend
    from easynetwork.lowlevel.api_async.endpoints.stream import AsyncStreamEndpoint

    rng = random.Random(seed)
    loop = asyncio.get_running_loop()
    assert isinstance(loop, vloop.VLoop)
    backend = AsyncIOBackend()
    npk = rng.randint(2, 5)
    packets = [f"p{i}" + "x" * rng.randint(0, 6) for i in range(npk)]
    data = "".join(p + "\n" for p in packets).encode()
    ends = []
    acc = 0
    for p in packets:
        acc += len(p) + 1
        ends.append(acc)
    events: list[dict[str, Any]] = []

    def ev(kind: str, n: int = 0, idx: int = 0, eq: bool = False, held: int = 0) -> None:
        events.append({"ev": kind, "n": n, "idx": idx, "eq": eq, "held": held})

    if target == "client":
        a, b = harness.loopback_tcp_pair()
    else:
        a, b = socket.socketpair()
        a.setblocking(False)
        b.setblocking(False)
    fd = a.fileno()
    inflight = {"sent": 0}
    loop.vselector.real_wait = lambda: False
    t0 = loop.time()
    # peer script: pieces and their (write time, visible time) on the tick grid
    pos = 0
    t = 0
    script = []
    while pos < len(data):
        n = rng.randint(1, max(1, min(len(data) - pos, rng.choice([1, 2, 3, 5, 9, 20]))))
        t += rng.choice([0, 0, 1, 1, 2, 3])
        vis = t + rng.choice([0, 0, 0, 1, 2])
        script.append((pos, n, t, vis))
        pos += n

    def write(pos: int, n: int, vis: int) -> None:
        loop.hide_until(fd, t0 + vis * TICK)
        b.send(data[pos : pos + n])
        inflight["sent"] += n
        ev("feed", n=n)

    def run_script(i: int) -> None:
        # one timer at a time: timers that are due at the same instant are not ordered by asyncio, the stream must be
        pos_, n_, t_, vis_ = script[i]
        write(pos_, n_, vis_)
        if i + 1 < len(script):
            loop.call_at(t0 + script[i + 1][2] * TICK, run_script, i + 1)

    loop.call_at(t0 + script[0][2] * TICK, run_script, 0)
    end_time = t0 + (script[-1][3] + 1) * TICK

    delivered: list[str] = []

    def got(pkt: str) -> None:
        delivered.append(pkt)
        idx = len(delivered)
        ev("deliver", idx=idx, eq=idx <= len(packets) and pkt == packets[idx - 1])

    proto = _protocols()[path]()
    problems: list[str] = []
    try:
        if target == "endpoint":
            transport = await backend.wrap_stream_socket(a)
            endpoint = AsyncStreamEndpoint(transport, proto, max_recv_size=rng.choice([1, 2, 3, 8, 1024]))

            async def recv_once(mode: str, delay: float) -> None:
                if mode == "move_on":
                    with backend.move_on_after(delay):
                        got(await endpoint.recv_packet())
                elif mode == "timeout":
                    try:
                        with backend.timeout(delay):
                            got(await endpoint.recv_packet())
                    except TimeoutError:
                        pass
                else:  # task cancellation from a timer
                    inner = asyncio.ensure_future(endpoint.recv_packet())
                    h = loop.call_later(delay, inner.cancel)
                    try:
                        got(await inner)
                    except asyncio.CancelledError:
                        pass
                    finally:
                        h.cancel()

            attempts = 0
            while len(delivered) < npk and attempts < 60 and loop.time() < end_time + 5:
                attempts += 1
                await recv_once(rng.choice(["move_on", "timeout", "task"]), rng.choice([0, 1, 1, 2, 3]) * TICK)
            while len(delivered) < npk:
                try:
                    with backend.timeout(60):
                        got(await endpoint.recv_packet())
                except TimeoutError:
                    problems.append("final receive timed out: bytes are missing")
                    break
            closer: Any = endpoint
        else:
            from easynetwork.clients.async_tcp import AsyncTCPNetworkClient

            client = AsyncTCPNetworkClient(a, proto, backend=backend, max_recv_size=rng.choice([1, 3, 1024]))
            await client.wait_connected()
            attempts = 0
            while len(delivered) < npk and attempts < 40 and loop.time() < end_time + 5:
                attempts += 1
                async for pkt in client.iter_received_packets(timeout=rng.choice([0, 1, 2, 3]) * TICK):
                    got(pkt)
                    if len(delivered) >= npk:
                        break
            while len(delivered) < npk:
                try:
                    with backend.timeout(60):
                        got(await client.recv_packet())
                except TimeoutError:
                    problems.append("final receive timed out: bytes are missing")
                    break
            closer = client
        # anything extra?
        try:
            with backend.move_on_after(2 * TICK):
                extra = await (closer.recv_packet())
                problems.append(f"extra packet delivered: {extra!r}")
        except Exception as exc:  # noqa: BLE001
            problems.append(f"unexpected error on the final probe: {exc!r}")
        ev("end", held=0)
        await closer.aclose()
    finally:
        a.close()
        b.close()
    return {"ends": ends, "events": events, "problems": problems, "meta": f"{target}/{path} seed={seed} packets={packets} script={script}"}


async def _tls_scenario(path: str, seed: int) -> dict[str, Any]:
    """Receives through AsyncStreamEndpoint over AsyncTLSStreamTransport, cancelled by timeouts / task cancellation while the
    transport's own writer holds the send lock for scripted periods (the peer drains slowly): the TLS layer has suspension points of
    its own (send lock before and after a read, receive lock, the underlying recv) and none of them may lose decrypted bytes."""
    from easynetwork.lowlevel.api_async.backend._asyncio.backend import AsyncIOBackend
    from easynetwork.lowlevel.api_async.endpoints.stream import AsyncStreamEndpoint
    from easynetwork.lowlevel.api_async.transports.tls import AsyncTLSStreamTransport

    from .. import memtransport, tlspeer

    rng = random.Random(seed)
    loop = asyncio.get_running_loop()
    backend = AsyncIOBackend()
    npk = rng.randint(3, 8)
    packets = [f"p{i}" + "x" * rng.randint(0, 30) for i in range(npk)]
    data = "".join(p + "\n" for p in packets).encode()
    ends = []
    acc = 0
    for p in packets:
        acc += len(p) + 1
        ends.append(acc)
    events: list[dict[str, Any]] = []

    def ev(kind: str, n: int = 0, idx: int = 0, eq: bool = False, held: int = 0) -> None:
        events.append({"ev": kind, "n": n, "idx": idx, "eq": eq, "held": held})

    frag = rng.choice([1, 5, 100, None, None])
    lib2peer = memtransport.MemPipe(capacity=4096)
    peer2lib = memtransport.MemPipe(fragment=frag)
    inner = memtransport.MemStreamTransport(backend, peer2lib, lib2peer)
    lib_is_server = rng.random() < 0.5
    peer = tlspeer.Peer(lib2peer, peer2lib, server_side=not lib_is_server)
    hs = asyncio.ensure_future(peer.handshake())
    if lib_is_server:
        tls = await AsyncTLSStreamTransport.wrap(inner, tlspeer.server_context(), server_side=True, handshake_timeout=60)
    else:
        tls = await AsyncTLSStreamTransport.wrap(inner, tlspeer.client_context(), server_hostname="localhost", handshake_timeout=60)
    await hs
    endpoint = AsyncStreamEndpoint(tls, _protocols()[path](), max_recv_size=rng.choice([1, 3, 8, 64, 1024]))
    t0 = loop.time()
    # the peer's script: plaintext pieces (one TLS record each) at ticks
    pieces = []
    pos = 0
    while pos < len(data):
        n = rng.randint(1, max(1, min(len(data) - pos, rng.choice([1, 3, 9, 20, 60, 200]))))
        pieces.append((pos, n, rng.choice([0, 0, 1, 1, 2, 3])))
        pos += n

    async def peer_writer() -> None:
        for pos_, n_, dt in pieces:
            if dt:
                await asyncio.sleep(dt * TICK)
            ev("feed", n=n_)
            await peer.write(data[pos_ : pos_ + n_])

    # the library side also writes: periods during which its send lock is held because the peer is not reading
    bursts = [(rng.choice([0, 1, 2, 4]), rng.choice([20_000, 60_000, 150_000]), rng.choice([1, 2, 3, 5, 8])) for _ in range(rng.randint(0, 3))]
    sent_total = sum(b[1] for b in bursts)

    async def lib_writer() -> None:
        for wait, size, _ in bursts:
            await asyncio.sleep(wait * TICK)
            await tls.send_all(b"w" * size)

    async def peer_reader() -> None:
        got_ = 0
        for wait, size, hold in bursts:
            await asyncio.sleep((wait + hold) * TICK)  # the peer looks at its socket only `hold` ticks after the burst started
            want = got_ + size
            while got_ < want:
                chunk = await peer.read(65536)
                if not chunk:
                    return
                got_ += len(chunk)

    side = [asyncio.ensure_future(c()) for c in (peer_writer, lib_writer, peer_reader)]
    delivered: list[str] = []
    problems: list[str] = []

    def got(pkt: str) -> None:
        delivered.append(pkt)
        idx = len(delivered)
        ev("deliver", idx=idx, eq=idx <= len(packets) and pkt == packets[idx - 1])

    async def recv_once(mode: str, delay: float) -> None:
        if mode == "move_on":
            with backend.move_on_after(delay):
                got(await endpoint.recv_packet())
        elif mode == "timeout":
            try:
                with backend.timeout(delay):
                    got(await endpoint.recv_packet())
            except TimeoutError:
                pass
        else:
            task = asyncio.ensure_future(endpoint.recv_packet())
            h = loop.call_later(delay, task.cancel)
            try:
                got(await task)
            except asyncio.CancelledError:
                pass
            finally:
                h.cancel()

    try:
        attempts = 0
        end_time = t0 + (sum(p[2] for p in pieces) + sum(b[0] + b[2] for b in bursts) + 2) * TICK
        broken = False
        while len(delivered) < npk and attempts < 80 and loop.time() < end_time:
            attempts += 1
            try:
                await recv_once(rng.choice(["move_on", "timeout", "task"]), rng.choice([0, 1, 1, 2, 3]) * TICK)
            except Exception as exc:  # noqa: BLE001
                # the peer neither closed nor sent anything wrong: a receive has no reason to fail
                problems.append(f"a receive failed with {type(exc).__name__}: {exc}")
                broken = True
                break
        while len(delivered) < npk and not broken:
            try:
                with backend.timeout(120):
                    got(await endpoint.recv_packet())
            except TimeoutError:
                problems.append("final receive timed out: bytes are missing")
                break
            except Exception as exc:  # noqa: BLE001
                problems.append(f"a receive failed with {type(exc).__name__}: {exc}")
                break
        done, pending = await asyncio.wait(side, timeout=120)
        if pending:
            problems.append("writer / peer tasks did not finish")
        for t in done:
            if t.exception() is not None:
                problems.append(f"side task failed: {t.exception()!r}")
        try:
            with backend.move_on_after(2 * TICK):
                extra = await endpoint.recv_packet()
                problems.append(f"extra packet delivered: {extra!r}")
        except Exception as exc:  # noqa: BLE001
            problems.append(f"unexpected error on the final probe: {exc!r}")
        ev("end", held=0)
    finally:
        for t in side:
            t.cancel()
        await asyncio.wait(side, timeout=1)
        from easynetwork.lowlevel.api_async.transports.utils import aclose_forcefully

        await aclose_forcefully(tls)
    return {
        "ends": ends,
        "events": events,
        "problems": problems,
        "meta": f"tls/{path} seed={seed} role={'server' if lib_is_server else 'client'} packets={[len(p) for p in packets]} pieces={pieces} frag={frag} bursts(start,size,peer reads after)={bursts} written={sent_total}",
    }


async def _iter_cancel_scenario(k: int, mode: str, buffered: bool) -> list[str]:
    """The asynchronous client's packet iterator, cancelled from outside (task.cancel() or a cancel scope around the loop) k loop iterations
    after eight packets arrived in one segment - i.e. while it is handing out packets that are already there, not while it waits."""
    from easynetwork.clients.async_tcp import AsyncTCPNetworkClient
    from easynetwork.lowlevel.api_async.backend._asyncio.backend import AsyncIOBackend
    from easynetwork.protocol import BufferedStreamProtocol, StreamProtocol
    from easynetwork.serializers.line import StringLineSerializer

    loop = asyncio.get_running_loop()
    backend = AsyncIOBackend()
    a, b = harness.loopback_tcp_pair()
    want = [f"P{i}" for i in range(8)]
    got: list[str] = []
    problems: list[str] = []
    try:
        client = AsyncTCPNetworkClient(a, (BufferedStreamProtocol if buffered else StreamProtocol)(StringLineSerializer()), backend=backend)
        await client.wait_connected()
        scope = backend.open_cancel_scope()

        async def consume() -> None:
            with scope:
                async for pkt in client.iter_received_packets(timeout=None):
                    got.append(pkt)

        task = loop.create_task(consume())
        await harness.settle()
        b.sendall("".join(p + "\n" for p in want).encode())

        def fire(j: int) -> None:
            if j:
                loop.call_soon(fire, j - 1)
            elif mode == "task":
                task.cancel()
            else:
                scope.cancel()

        # the segment is in the kernel: the loop sees it at its next poll; the cancellation comes k iterations after this point
        loop.call_soon(fire, k)
        await asyncio.wait([task], timeout=5)
        if not task.done():
            task.cancel()
            await asyncio.wait([task], timeout=5)
        while len(got) < len(want):
            try:
                with backend.timeout(5):
                    got.append(await client.recv_packet())
            except TimeoutError:
                problems.append("the rest of the stream never arrives")
                break
        if got != want:
            problems.append(f"delivered {got}, sent {want}")
        await client.aclose()
    finally:
        a.close()
        b.close()
    return problems


def run(chk: Check) -> None:
    quick = chk.tier == "quick"
    n = 150 if quick else 1500
    rec: list[dict[str, Any]] = []
    for path in ("copy", "buffered"):
        for i in range(n // 2):
            seed = chk.seed * 100019 + i
            try:
                t = vloop.run(lambda: _tls_scenario(path, seed), spin_limit=200000)
            except vloop.VirtualDeadlock as exc:
                t = {"ends": [1], "events": [{"ev": "deadlock", "n": 0, "idx": 0, "eq": False, "held": 0}], "problems": [str(exc)], "meta": f"tls/{path} seed={seed}"}
            rec.append(t)
    for target, path in (("endpoint", "copy"), ("endpoint", "buffered"), ("client", "copy"), ("client", "buffered")):
        for i in range(n if target == "endpoint" else n // 3):
            seed = chk.seed * 100003 + i
            try:
                t = vloop.run(lambda: _scenario(target, path, seed))
            except vloop.VirtualDeadlock as exc:
                t = {"ends": [1], "events": [{"ev": "deadlock", "n": 0, "idx": 0, "eq": False, "held": 0}], "problems": [str(exc)], "meta": f"{target}/{path} seed={seed}"}
            rec.append(t)
    slim = [{"ends": t["ends"], "events": t["events"] if not t["problems"] else t["events"] + [{"ev": "problem", "n": 0, "idx": 0, "eq": False, "held": 0}]} for t in rec]
    res = traces.validate("StreamAbsTrace", slim, cfg_text=TRACE_CFG, parallel=8, chunk=400)
    chk.traces += len(rec)
    chk.states += res.tlc.distinct
    chk.transitions += res.tlc.generated
    for t in rec:
        chk.distinct.add(t["meta"])
    chk.sample({"layer": rec[0]["meta"], "events": [(e["ev"], e["n"], e["idx"]) for e in rec[0]["events"][:12]]}, cap=6)
    chk.extra["layer_scenarios"] = {"traces": len(rec), "events": res.nevents, "rejected": len(res.rejected)}
    # the client's packet iterator cancelled from outside while it hands out packets that are already there
    nit = 0
    for buffered in (False, True):
        for mode in ("task", "scope"):
            for k in range(0, 16 if quick else 40):
                try:
                    problems = vloop.run(lambda: _iter_cancel_scenario(k, mode, buffered))
                except vloop.VirtualDeadlock as exc:
                    problems = [str(exc)]
                nit += 1
                chk.traces += 1
                chk.distinct.add(("iter_cancel", buffered, mode, k))
                if problems:
                    chk.violation(
                        {"kind": "iterator_cancel", "what": "bytes_lost", "mode": mode},
                        f"AsyncTCPNetworkClient.iter_received_packets() ({'buffered' if buffered else 'copying'} path) cancelled by "
                        f"{'task.cancel()' if mode == 'task' else 'a cancel scope around the loop'} {k} loop iteration(s) after 8 packets arrived in one segment: {problems}",
                        {"kind": "iterator_cancel", "k": k, "mode": mode, "buffered": buffered},
                    )
    chk.extra["iterator_cancel_scenarios"] = nit
    # the blocking side of the property: receives that end with TimeoutError in the middle of a frame, followed by further receives
    from . import c03_recv_endpoint

    brec = []
    for i in range(300 if quick else 4000):
        brec.append(c03_recv_endpoint.run_sync(chk.seed * 77 + 900000 + i, bool(i % 2)))
    ntimeouts = sum(1 for t in brec for e in t["events"] if e["ev"] == "ret" and e["kind"] == "timeout")
    c03_recv_endpoint.validate(chk, brec, "blocking_endpoint_timeouts")
    chk.extra["blocking_endpoint_timeouts"]["receives_ended_by_TimeoutError"] = ntimeouts
    for idx, pos in sorted(res.rejected.items())[:40]:
        t = rec[idx]
        failing = slim[idx]["events"][pos - 1] if 0 < pos <= len(slim[idx]["events"]) else None
        chk.violation(
            {"kind": "trace", "spec": "StreamAbs", "layer": t["meta"].split()[0], "what": "bytes_lost"},
            f"receive layer {t['meta'].split()[0]}: not a behaviour of StreamAbs (event #{pos}: {failing}; {t['problems']}) -- {t['meta'][:300]}",
            {"kind": "layer_scenario", "meta": t["meta"], "events": t["events"], "problems": t["problems"]},
        )
