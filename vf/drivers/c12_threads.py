"""C12 part 3: the thread-safe blocking clients.  Real threads, real loopback sockets, a peer that reads when told;
the bytes received by the peer are parsed back into packets and the wire is decided by TLC against SendLockWire."""

from __future__ import annotations

import socket
import threading
import time
from typing import Any

from .. import traces
from ..common import Check

TRACE_CFG = (
    "INIT TInit\nNEXT TNext\nCONSTANTS\n  Senders = {}\n  NChunks = 1\n  PktsPer = 1\n  MaxCancel = 0\n"
    "CONSTRAINT Constr\nPOSTCONDITION Post\nCHECK_DEADLOCK FALSE\n"
)


def _serializer() -> Any:
    from easynetwork.serializers.abc import AbstractIncrementalPacketSerializer

    class Framed(AbstractIncrementalPacketSerializer[tuple[int, int, int], Any]):
        """packet (sender, n, size) -> b'<s.n.size:' + filler + b'>' written as two chunks"""

        def incremental_serialize(self, packet: tuple[int, int, int]) -> Any:
            s, n, size = packet
            yield b"<%d.%d.%d:" % (s, n, size)
            yield bytes([ord("a") + s]) * size + b">"

        def incremental_deserialize(self) -> Any:
            yield
            raise NotImplementedError

    return Framed()


def parse_wire(data: bytes) -> list[list[int]]:
    out: list[list[int]] = []
    pos = 0
    while pos < len(data):
        try:
            assert data[pos : pos + 1] == b"<"
            colon = data.index(b":", pos)
            s, n, size = (int(x) for x in data[pos + 1 : colon].split(b"."))
            body = data[colon + 1 : colon + 1 + size]
            assert body == bytes([ord("a") + s]) * size and data[colon + 1 + size : colon + 2 + size] == b">"
            out.append([s, n, 1])
            pos = colon + 2 + size
        except (AssertionError, ValueError):
            out.append([0, 0, 0])
            break
    return out


def _loopback() -> tuple[socket.socket, socket.socket]:
    srv = socket.socket()
    srv.bind(("127.0.0.1", 0))
    srv.listen(1)
    a = socket.socket()
    a.setsockopt(socket.SOL_SOCKET, socket.SO_SNDBUF, 65536)
    a.connect(srv.getsockname())
    b, _ = srv.accept()
    b.setsockopt(socket.SOL_SOCKET, socket.SO_RCVBUF, 65536)
    srv.close()
    return a, b


def _drain(peer: socket.socket, until: Any, budget: float = 20.0) -> bytes:
    peer.settimeout(0.2)
    got = bytearray()
    t0 = time.monotonic()
    while time.monotonic() - t0 < budget and not until(got):
        try:
            data = peer.recv(1 << 20)
        except (TimeoutError, socket.timeout):
            continue
        if not data:
            break
        got += data
    return bytes(got)


def scenario_lock_timeout() -> dict[str, Any]:
    """A blocked mid-packet (peer idle), B times out waiting for the send lock, C queues; then the peer reads."""
    from easynetwork.clients.tcp import TCPNetworkClient
    from easynetwork.protocol import StreamProtocol

    a, b = _loopback()
    client = TCPNetworkClient(a, StreamProtocol(_serializer()), retry_interval=0.05)
    BIG = 4 * 1024 * 1024
    results: dict[str, Any] = {}

    def send(name: str, packet: tuple[int, int, int], timeout: float | None) -> None:
        try:
            client.send_packet(packet, timeout=timeout)
            results[name] = "ok"
        except TimeoutError:
            results[name] = "timeout"
        except BaseException as exc:  # noqa: BLE001
            results[name] = f"error:{type(exc).__name__}:{exc}"

    ta = threading.Thread(target=send, args=("A", (1, 1, BIG), None), daemon=True)
    ta.start()
    time.sleep(0.15)  # A is now blocked in the middle of its packet (the peer does not read)
    tb = threading.Thread(target=send, args=("B", (2, 1, 64), 0.05), daemon=True)
    tb.start()
    tb.join(5)
    tc = threading.Thread(target=send, args=("C", (3, 1, 64), None), daemon=True)
    tc.start()
    time.sleep(0.05)
    expected_len = len(b"<1.1.%d:" % BIG) + BIG + 1 + len(b"<3.1.64:") + 64 + 1
    data = _drain(b, lambda got: len(got) >= expected_len)
    ta.join(10)
    tc.join(10)
    try:
        client.close()
    finally:
        b.close()
    wire = parse_wire(data)
    problems = []
    if results.get("B") != "timeout":
        problems.append(f"B should have timed out on the send lock: {results.get('B')}")
    for n in ("A", "C"):
        if results.get(n) != "ok":
            problems.append(f"sender {n}: {results.get(n)}")
    if problems:
        wire.append([0, 0, 0])
    return {"nchunks": 1, "wire": wire, "cancelled": [[2, 1]], "expected": [[1, 1], [3, 1]], "meta": f"lock_timeout results={results} problems={problems} wire={wire[:6]}"}


def scenario_accessor() -> dict[str, Any]:
    """A is blocked in the middle of a big packet (the peer is idle), B waits for the send lock, and a third thread keeps using the
    client's socket proxy (fileno, getsockopt, addresses) - which is built over the same lock.  Then the peer reads."""
    from easynetwork.clients.tcp import TCPNetworkClient
    from easynetwork.protocol import StreamProtocol

    a, b = _loopback()
    client = TCPNetworkClient(a, StreamProtocol(_serializer()), retry_interval=0.05)
    BIG = 4 * 1024 * 1024
    results: dict[str, Any] = {}
    stop = threading.Event()

    def send(name: str, packet: tuple[int, int, int]) -> None:
        try:
            client.send_packet(packet)
            results[name] = "ok"
        except BaseException as exc:  # noqa: BLE001
            results[name] = f"error:{type(exc).__name__}:{exc}"

    def accessor() -> None:
        n = 0
        try:
            while not stop.is_set() and n < 2000:
                n += 1
                client.fileno()
                client.socket.getsockopt(socket.SOL_SOCKET, socket.SO_SNDBUF)
                client.get_local_address()
                time.sleep(0.001)
            results["accessor"] = "ok"
        except BaseException as exc:  # noqa: BLE001
            results["accessor"] = f"error:{type(exc).__name__}:{exc}"

    ta = threading.Thread(target=send, args=("A", (1, 1, BIG)), daemon=True)
    ta.start()
    time.sleep(0.15)
    tb = threading.Thread(target=send, args=("B", (2, 1, 10)), daemon=True)
    tb.start()
    tx = threading.Thread(target=accessor, daemon=True)
    tx.start()
    time.sleep(0.2)
    expected_len = len(b"<1.1.%d:" % BIG) + BIG + 1 + len(b"<2.1.10:") + 10 + 1
    data = _drain(b, lambda got: len(got) >= expected_len)
    ta.join(10)
    tb.join(10)
    stop.set()
    tx.join(10)
    try:
        client.close()
    finally:
        b.close()
    wire = parse_wire(data)
    problems = [f"{n}: {results.get(n)}" for n in ("A", "B", "accessor") if results.get(n) != "ok"]
    if problems:
        wire.append([0, 0, 0])
    return {"nchunks": 1, "wire": wire, "cancelled": [], "expected": [[1, 1], [2, 1]], "meta": f"accessor results={results} problems={problems} wire={wire[:6]}"}


def scenario_stress(nthreads: int, npkts: int, udp: bool = False) -> dict[str, Any]:
    from easynetwork.clients.tcp import TCPNetworkClient
    from easynetwork.protocol import StreamProtocol

    a, b = _loopback()
    client = TCPNetworkClient(a, StreamProtocol(_serializer()), retry_interval=0.05)
    errors: list[str] = []
    sizes = [1, 700, 20000, 90000]

    def worker(s: int) -> None:
        try:
            for n in range(1, npkts + 1):
                client.send_packet((s, n, sizes[(s + n) % len(sizes)]))
        except BaseException as exc:  # noqa: BLE001
            errors.append(f"sender {s}: {type(exc).__name__}: {exc}")

    total = sum(len(b"<%d.%d.%d:" % (s, n, sizes[(s + n) % len(sizes)])) + sizes[(s + n) % len(sizes)] + 1 for s in range(1, nthreads + 1) for n in range(1, npkts + 1))
    threads = [threading.Thread(target=worker, args=(s,), daemon=True) for s in range(1, nthreads + 1)]
    for t in threads:
        t.start()
    data = _drain(b, lambda got: len(got) >= total)
    for t in threads:
        t.join(10)
    try:
        client.close()
    finally:
        b.close()
    wire = parse_wire(data)
    if errors:
        wire.append([0, 0, 0])
    return {
        "nchunks": 1,
        "wire": wire,
        "cancelled": [],
        "expected": [[s, n] for s in range(1, nthreads + 1) for n in range(1, npkts + 1)],
        "meta": f"stress threads={nthreads} pkts={npkts} errors={errors} received={len(data)}/{total}",
    }


def run(chk: Check) -> None:
    quick = chk.tier == "quick"
    rec = [scenario_lock_timeout(), scenario_accessor()]
    for i in range(2 if quick else 10):
        rec.append(scenario_stress(4 if quick else 8, 6 if quick else 20))
    slim = [{"nchunks": t["nchunks"], "wire": t["wire"], "cancelled": t["cancelled"], "expected": t["expected"], "events": []} for t in rec]
    res = traces.validate("SendLockWire", slim, cfg_text=TRACE_CFG)
    chk.traces += len(rec)
    for t in rec:
        chk.distinct.add(t["meta"])
    chk.extra["blocking_client_threads"] = {"scenarios": len(rec), "rejected": len(res.rejected), "metas": [t["meta"][:160] for t in rec[:3]]}
    for idx in sorted(res.rejected):
        t = rec[idx]
        chk.violation(
            {"kind": "wire", "target": "TCPNetworkClient", "scenario": t["meta"].split()[0]},
            f"blocking TCP client: the wire is not a sequence of whole packets of the successful calls -- {t['meta']}",
            {"kind": "thread_wire", "meta": t["meta"], "wire": t["wire"][:50]},
        )
