"""C03 part 2: the property seen from the public API of the clients and of the endpoints over real transports (RecvClient.tla).

RecvEndpoint.tla binds the receive loop of the endpoints to the transport contract call by call; here the transport is not
observable: AsyncStreamEndpoint over the asyncio socket adapter (socket pair), AsyncTCPNetworkClient (loopback TCP) and the
blocking TCPNetworkClient (socket and selector following a coherent world: bytes written, end of stream, time).  The peer writes
the stream in pieces and closes at a chosen position *while nobody is receiving* or during a call; the caller issues recv_packet /
iter_received_packets calls with timeouts None / 0 / positive, with pauses in between.  The log (write / close / call / packet /
eof / timeout / stop) must be a behaviour of RecvClient: packets once and in order, end of stream only after every complete
packet, reported again by every later call, a positive timeout gives up only when nothing was there, no call hangs.
"""

from __future__ import annotations

import asyncio
import errno
import os
import random
import selectors
import socket
import tempfile
from typing import Any

from .. import harness, tlc, traces, vloop, vsync
from ..common import Check

TRACE_CFG = "INIT TInit\nNEXT TNext\nCONSTANTS\n  Params = {}\n  Timeouts <- TraceTimeouts\n  MaxCalls = 1000\nCONSTRAINT Constr\nPOSTCONDITION Post\nCHECK_DEADLOCK FALSE\n"
EVD = {"ev": "", "op": "", "t": 0, "idx": 0, "eq": False}
TICK = 1.0
FRAC = 0.37  # positive timeouts are k + 0.37 ticks; the peer acts on whole ticks, pauses are multiples of 0.5: no ties


def model(chk: Check, quick: bool) -> bool:
    with tempfile.TemporaryDirectory(prefix="vf_c03c_") as d:
        defs = {
            "MCParams": "{[ends |-> e, closeat |-> c] : e \\in {<<2>>, <<1, 3>>, <<2, 4, 5>>}, c \\in {0 - 1, 0, 1, 2, 3, 4, 5}}",
            "MCTimeouts": "{0 - 1, 0, 1}",
        }
        mod = tlc.write_mc_module(d, "MC_RecvClient", "RecvClient", defs)
        cfg = os.path.join(d, "mc.cfg")
        tlc.write_cfg(
            cfg,
            constants={"Params": "<- MCParams", "Timeouts": "<- MCTimeouts", "MaxCalls": "3" if quick else "4"},
            invariants=["NeverAhead", "EofAfterAll", "NoPartial"],
            properties=["EofIsFinal"],
            check_deadlock=False,
        )
        res = tlc.run_tlc(mod, cfg, timeout=900, coverage=True)
    chk.add_model("RecvClient", res, defs, "caller-visible laws over small streams x close positions x recv / iterator call histories with timeouts None, 0, positive")
    if not res.ok:
        chk.model_violation("RecvClient", res)
        return False
    return True


class Plan:
    """The stream, where the peer closes, and the bookkeeping shared by the three harnesses."""

    def __init__(self, seed: int) -> None:
        self.rng = rng = random.Random(seed)
        npk = rng.randint(1, 4)
        self.packets = ["p%d" % i + "x" * rng.randint(0, 5) for i in range(npk)]
        self.data = "".join(p + "\n" for p in self.packets).encode()
        self.ends: list[int] = []
        acc = 0
        for p in self.packets:
            acc += len(p) + 1
            self.ends.append(acc)
        total = len(self.data)
        self.closeat = rng.choice([-1, total, total, total, rng.randint(0, total), 0])
        self.limit = total if self.closeat < 0 else self.closeat
        self.wire = 0
        self.closed = False
        self.delivered = 0
        self.events: list[dict[str, Any]] = []
        self.problems: list[str] = []

    def log(self, ev: str, **kw: Any) -> None:
        self.events.append({"ev": ev, **kw})

    def complete(self, n: int) -> int:
        return sum(1 for e in self.ends if e <= n)

    def will_satisfy_blocking_call(self) -> bool:
        """A call without timeout is only issued when the script guarantees that it ends: a packet will be complete or the peer closes."""
        return self.closeat >= 0 or self.complete(self.limit) > self.delivered

    def got(self, pkt: Any) -> None:
        self.delivered += 1
        ok = self.delivered <= len(self.packets) and pkt == self.packets[self.delivered - 1]
        self.log("packet", idx=self.delivered, eq=ok)

    def par(self) -> dict[str, Any]:
        return {"ends": self.ends, "closeat": self.closeat}

    def pick_timeout(self, op: str) -> float | None:
        rng = self.rng
        t = rng.choice([None, None, 0, 0, 1, 2])
        if t is None and (not self.will_satisfy_blocking_call() or (op == "iter" and self.closeat < 0)):
            t = rng.choice([0, 1, 2])
        return t


def _protocol(buffered: bool) -> Any:
    from easynetwork.protocol import BufferedStreamProtocol, StreamProtocol
    from easynetwork.serializers.line import StringLineSerializer

    return (BufferedStreamProtocol if buffered else StreamProtocol)(StringLineSerializer())


# ---------------------------------------------------------------------------------------------------------------
# asynchronous side: real sockets on the virtual-time loop


async def _async_scenario(plan: Plan, target: str, buffered: bool) -> None:
    from easynetwork.lowlevel.api_async.backend._asyncio.backend import AsyncIOBackend

    rng = plan.rng
    loop = asyncio.get_running_loop()
    backend = AsyncIOBackend()
    if target == "client":
        a, b = harness.loopback_tcp_pair()
    else:
        a, b = socket.socketpair()
        a.setblocking(False)
        b.setblocking(False)
    t0 = loop.time()
    # the peer's script, on whole ticks
    script: list[tuple[int, str, int]] = []
    t = 0
    pos = 0
    while pos < plan.limit:
        n = rng.randint(1, max(1, min(plan.limit - pos, rng.choice([1, 2, 4, 9, 30]))))
        t += rng.choice([0, 0, 1, 1, 2])
        script.append((t, "write", n))
        pos += n
    if plan.closeat >= 0:
        t += rng.choice([0, 1, 2, 3])
        script.append((t, "close", 0))

    over = [False]

    def act(i: int) -> None:
        if over[0]:
            return
        _, what, n = script[i]
        if what == "write":
            b.send(plan.data[plan.wire : plan.wire + n])
            plan.wire += n
            plan.log("write", idx=n)
        else:
            b.shutdown(socket.SHUT_WR)
            plan.closed = True
            plan.log("close")
        if i + 1 < len(script):
            loop.call_at(t0 + script[i + 1][0] * TICK, act, i + 1)

    if script:
        loop.call_at(t0 + script[0][0] * TICK, act, 0)
    max_recv = rng.choice([1, 2, 3, 8, 1024])
    try:
        if target == "endpoint":
            from easynetwork.lowlevel.api_async.endpoints.stream import AsyncStreamEndpoint

            transport = await backend.wrap_stream_socket(a)
            obj: Any = AsyncStreamEndpoint(transport, _protocol(buffered), max_recv_size=max_recv)

            async def recv(timeout: float | None) -> Any:
                if timeout is None:
                    return await obj.recv_packet()
                with backend.timeout(timeout):
                    return await obj.recv_packet()

        else:
            from easynetwork.clients.async_tcp import AsyncTCPNetworkClient

            obj = AsyncTCPNetworkClient(a, _protocol(buffered), backend=backend, max_recv_size=max_recv)
            await obj.wait_connected()

            async def recv(timeout: float | None) -> Any:
                if timeout is None:
                    return await obj.recv_packet()
                with backend.timeout(timeout):
                    return await obj.recv_packet()

        for _ in range(rng.randint(2, 9)):
            pause = rng.choice([0, 0, 0.5, 1.5, 3.0])
            if pause:
                await asyncio.sleep(pause * TICK)
            op = "iter" if target == "client" and rng.random() < 0.35 else "recv"
            tmo = plan.pick_timeout(op)
            real = None if tmo is None else (0 if tmo == 0 else (tmo + FRAC) * TICK)
            plan.log("call", op=op, t=-1 if tmo is None else (0 if tmo == 0 else 1))
            if op == "recv":
                try:
                    plan.got(await recv(real))
                except TimeoutError:
                    plan.log("timeout")
                except ConnectionAbortedError:
                    plan.log("eof")
                except Exception as exc:  # noqa: BLE001
                    plan.log("error:" + type(exc).__name__)
            else:
                try:
                    async for pkt in obj.iter_received_packets(timeout=real):
                        plan.got(pkt)
                    plan.log("stop")
                except Exception as exc:  # noqa: BLE001
                    plan.log("error:" + type(exc).__name__)
        plan.log("end")
        over[0] = True
        await obj.aclose()
    finally:
        over[0] = True
        a.close()
        b.close()


def run_async(seed: int, target: str, buffered: bool) -> dict[str, Any]:
    plan = Plan(seed)
    try:
        vloop.run(lambda: _async_scenario(plan, target, buffered), spin_limit=5000)
    except vloop.VirtualDeadlock:
        plan.log("hang")
    name = "AsyncStreamEndpoint+socket adapter" if target == "endpoint" else "AsyncTCPNetworkClient"
    return {
        "par": plan.par(),
        "events": traces.uniform(plan.events, EVD),
        "meta": f"{name}({'buffered' if buffered else 'copy'}) seed={seed} packets={plan.packets} closeat={plan.closeat}",
    }


# ---------------------------------------------------------------------------------------------------------------
# blocking client: socket and selector follow one coherent world


class _World:
    def __init__(self, plan: Plan, clock: vsync.FakeClock) -> None:
        self.plan = plan
        self.clock = clock
        self.read = 0
        self.ncalls = 0

    def guard(self) -> None:
        self.ncalls += 1
        if self.ncalls > 4000:
            raise vsync.SpinDetected("too many socket / selector calls")

    def avail(self) -> int:
        return self.plan.wire - self.read

    def peer_write(self) -> bool:
        plan = self.plan
        room = plan.limit - plan.wire
        if room <= 0 or plan.closed:
            return False
        n = plan.rng.randint(1, min(room, plan.rng.choice([1, 2, 4, 9, 30])))
        plan.wire += n
        plan.log("write", idx=n)
        return True

    def peer_close(self) -> bool:
        plan = self.plan
        if plan.closed or plan.closeat < 0 or plan.wire < plan.limit:
            return False
        plan.closed = True
        plan.log("close")
        return True

    def peer_step(self) -> bool:
        return self.peer_write() or self.peer_close()


def _world_classes() -> Any:
    class WorldSocket(vsync.ScriptedSocket):
        world: _World

        def _recv_step(self, bufsize: int) -> bytes:
            w = self.world
            w.guard()
            if w.avail() > 0:
                k = w.plan.rng.randint(1, min(w.avail(), bufsize))
                data = w.plan.data[w.read : w.read + k]
                w.read += k
                return data
            if w.plan.closed:
                return b""
            raise BlockingIOError(errno.EAGAIN, "nothing to read")

    class WorldSelector(selectors.BaseSelector):
        def __init__(self, world: _World) -> None:
            self.world = world
            self._keys: dict[Any, selectors.SelectorKey] = {}

        def register(self, fileobj: Any, events: int, data: Any = None) -> selectors.SelectorKey:
            fd = fileobj if isinstance(fileobj, int) else fileobj.fileno()
            key = selectors.SelectorKey(fileobj, fd, events, data)
            self._keys[fileobj] = key
            return key

        def unregister(self, fileobj: Any) -> selectors.SelectorKey:
            return self._keys.pop(fileobj)

        def get_map(self) -> Any:
            return self._keys

        def select(self, timeout: float | None = None) -> list[tuple[selectors.SelectorKey, int]]:
            w = self.world
            w.guard()
            key = next(iter(self._keys.values()))
            if w.avail() > 0 or w.plan.closed:
                return [(key, key.events)]
            rng = w.plan.rng
            # the peer acts during the wait, or does not (only possible when the wait is bounded)
            nothing = timeout is not None and (timeout == 0 or rng.random() < 0.35)
            if not nothing:
                limit = 3.0 if timeout is None else timeout
                e = rng.choice([0.0, 0.5, 1.0, 2.0])
                if e < limit or timeout is None:
                    if w.peer_step():
                        w.clock.now += min(e, limit)
                        return [(key, key.events)]
            if timeout is None:
                raise vsync.SpinDetected("the client waits for ever on a peer that will do nothing more")
            w.clock.now += timeout
            return []

    return WorldSocket, WorldSelector


def run_sync(seed: int, buffered: bool) -> dict[str, Any]:
    from easynetwork.clients.tcp import TCPNetworkClient

    plan = Plan(seed)
    rng = plan.rng
    clock = vsync.FakeClock()
    env = vsync.Env(clock)
    world = _World(plan, clock)
    WorldSocket, WorldSelector = _world_classes()
    a, b = harness.loopback_tcp_pair()
    sock = WorldSocket(a.family, a.type, a.proto, fileno=a.detach())
    sock.env = env
    sock.world = world
    sock.setblocking(False)
    orig_poll = selectors.PollSelector
    selectors.PollSelector = lambda: WorldSelector(world)  # type: ignore[misc,assignment]
    try:
        with vsync.patched_clock(clock):
            client = TCPNetworkClient(sock, _protocol(buffered), max_recv_size=rng.choice([1, 2, 3, 8, 1024]), retry_interval=rng.choice([1.0, float("inf")]))
            for _ in range(rng.randint(2, 9)):
                for _ in range(rng.choice([0, 0, 1, 2])):  # while nobody is receiving
                    world.peer_step()
                op = "iter" if rng.random() < 0.35 else "recv"
                tmo = plan.pick_timeout(op)
                plan.log("call", op=op, t=-1 if tmo is None else (0 if tmo == 0 else 1))
                t_start = clock.now
                try:
                    if op == "recv":
                        try:
                            plan.got(client.recv_packet(timeout=tmo))
                        except TimeoutError:
                            plan.log("timeout")
                        except ConnectionAbortedError:
                            plan.log("eof")
                    else:
                        for pkt in client.iter_received_packets(timeout=tmo):
                            plan.got(pkt)
                        plan.log("stop")
                except vsync.SpinDetected:
                    plan.log("hang")
                    break
                except Exception as exc:  # noqa: BLE001
                    plan.log("error:" + type(exc).__name__)
                del t_start
            else:
                plan.log("end")
            try:
                client.close()
            except Exception:  # noqa: BLE001
                pass
    finally:
        selectors.PollSelector = orig_poll  # type: ignore[misc]
        try:
            sock.close()
        except OSError:
            pass
        b.close()
    return {
        "par": plan.par(),
        "events": traces.uniform(plan.events, EVD),
        "meta": f"TCPNetworkClient({'buffered' if buffered else 'copy'}) seed={seed} packets={plan.packets} closeat={plan.closeat}",
    }


def run_sync_real(seed: int, buffered: bool) -> dict[str, Any]:
    """The blocking client over a real loopback connection whose peer has already written everything and gone away before the first
    receive: orderly (FIN), or abortively (RST: SO_LINGER 0, or closing with unread bytes from the client).  The kernel holds the
    packets; they all have to come out, then the end of the stream - whatever SO_ERROR says meanwhile."""
    import struct

    from easynetwork.clients.tcp import TCPNetworkClient

    plan = Plan(seed)
    rng = plan.rng
    plan.closeat = rng.choice([len(plan.data), len(plan.data), rng.randint(0, len(plan.data))])
    plan.limit = plan.closeat
    how = rng.choice(["fin", "rst_linger", "rst_unread"])
    a, b = harness.loopback_tcp_pair()
    a.setblocking(True)
    b.setblocking(True)
    client = TCPNetworkClient(a, _protocol(buffered), max_recv_size=rng.choice([1, 3, 8, 1024]))
    try:
        if how == "rst_unread":
            client.send_packet("never read by the peer")
        if plan.limit:
            b.sendall(plan.data[: plan.limit])
            plan.wire = plan.limit
            plan.log("write", idx=plan.limit)
        import time

        time.sleep(0.02)
        if how == "rst_linger":
            b.setsockopt(socket.SOL_SOCKET, socket.SO_LINGER, struct.pack("ii", 1, 0))
        b.close()
        plan.closed = True
        plan.log("close")
        time.sleep(0.05)
        for _ in range(len(plan.packets) + 3):
            op = "iter" if rng.random() < 0.3 else "recv"
            tmo = rng.choice([None, 1, 0])
            plan.log("call", op=op, t=-1 if tmo is None else (0 if tmo == 0 else 1))
            try:
                if op == "recv":
                    try:
                        plan.got(client.recv_packet(timeout=tmo))
                    except TimeoutError:
                        plan.log("timeout")
                    except ConnectionAbortedError:
                        plan.log("eof")
                else:
                    for pkt in client.iter_received_packets(timeout=tmo):
                        plan.got(pkt)
                    plan.log("stop")
            except Exception as exc:  # noqa: BLE001
                plan.log("error:" + type(exc).__name__)
        plan.log("end")
    finally:
        try:
            client.close()
        except Exception:  # noqa: BLE001
            pass
        for s_ in (a, b):
            try:
                s_.close()
            except OSError:
                pass
    return {
        "par": plan.par(),
        "events": traces.uniform(plan.events, EVD),
        "meta": f"TCPNetworkClient over loopback ({'buffered' if buffered else 'copy'}) seed={seed} packets={plan.packets} closeat={plan.closeat} peer left by {how}",
    }


# ---------------------------------------------------------------------------------------------------------------


async def _write_failure_then_receive(buffered: bool, use_client: bool) -> list[Any]:
    """The peer sends three packets in one piece and goes away; the local side reads the first one, then writes into the dead connection
    until a write fails (asyncio closes its transport at that point), then goes on receiving: the two packets that had arrived are still
    delivered, and then the end of the stream is reported - again and again."""
    import socket

    from easynetwork.clients.async_tcp import AsyncTCPNetworkClient
    from easynetwork.exceptions import ClientClosedError
    from easynetwork.lowlevel.api_async.backend._asyncio.backend import AsyncIOBackend
    from easynetwork.lowlevel.api_async.endpoints.stream import AsyncStreamEndpoint

    backend = AsyncIOBackend()
    a, b = harness.loopback_tcp_pair()
    seen: list[Any] = []
    obj: Any = None
    try:
        if use_client:
            obj = AsyncTCPNetworkClient(a, _protocol(buffered), backend=backend)
            await obj.wait_connected()
        else:
            obj = AsyncStreamEndpoint(await backend.wrap_stream_socket(a), _protocol(buffered), max_recv_size=1024)
        b.sendall(b"packet-1\npacket-2\npacket-3\n")
        await asyncio.sleep(0.05)
        seen.append(await asyncio.wait_for(obj.recv_packet(), 5))
        b.setsockopt(socket.SOL_SOCKET, socket.SO_LINGER, __import__("struct").pack("ii", 1, 0))
        b.close()  # the peer is gone (reset)
        await asyncio.sleep(0.05)
        for _ in range(50):
            try:
                await asyncio.wait_for(obj.send_packet("x" * 1000), 5)
            except (OSError, ClientClosedError):
                break
            await asyncio.sleep(0.01)
        for _ in range(4):
            try:
                seen.append(await asyncio.wait_for(obj.recv_packet(), 5))
            except ConnectionError as exc:
                seen.append("<end-of-stream>" if isinstance(exc, (ConnectionAbortedError, ConnectionResetError)) else f"<{type(exc).__name__}>")
            except Exception as exc:  # noqa: BLE001
                seen.append(f"<{type(exc).__name__}>")
    finally:
        try:
            if obj is not None:
                await asyncio.wait_for(obj.aclose(), 5)
        except BaseException:  # noqa: BLE001
            pass
        a.close()
    return seen


def _run_three(arg: tuple[int, bool]) -> list[dict[str, Any]]:
    seed, buffered = arg
    out = [run_async(seed, "endpoint", buffered), run_async(seed, "client", buffered), run_sync(seed, buffered)]
    if seed % 4 == 0:
        out.append(run_sync_real(seed, buffered))
    return out


def run(chk: Check) -> None:
    quick = chk.tier == "quick"
    if not model(chk, quick):
        return
    n = 250 if quick else 4000
    from ..common import pmap

    rec: list[dict[str, Any]] = []
    for part in pmap(_run_three, [(chk.seed * 1000033 + i, bool(i % 2)) for i in range(n)]):
        rec += part
    slim = [{"par": t["par"], "events": t["events"]} for t in rec]
    res = traces.validate("RecvClientTrace", slim, cfg_text=TRACE_CFG, parallel=8, chunk=600)
    chk.traces += len(rec)
    chk.states += res.tlc.distinct
    chk.transitions += res.tlc.generated
    for t in rec:
        chk.distinct.add(tuple(tuple(e.values()) for e in t["events"]) + (t["meta"].split("(")[0], str(t["par"])))
    outcomes: dict[str, int] = {}
    for t in rec:
        for e in t["events"]:
            if e["ev"] in ("packet", "eof", "timeout", "stop"):
                outcomes[e["ev"]] = outcomes.get(e["ev"], 0) + 1
    for buffered in (False, True):
        for use_client in (False, True):
            seen = asyncio.run(_write_failure_then_receive(buffered, use_client))
            chk.traces += 1
            chk.distinct.add(("write_failure_then_receive", buffered, use_client))
            # (a reset may legitimately cost the packets that were still in the kernel: what is required is that nothing the local side
            # already holds is withheld, that the end is an end-of-stream / connection error, and that it is repeated)
            pk = [x for x in seen if not str(x).startswith("<")]
            tail = [x for x in seen if str(x).startswith("<")]
            ok = pk == ["packet-1", "packet-2", "packet-3"][: len(pk)] and len(pk) >= 1 and tail and all(x == "<end-of-stream>" for x in tail) and seen[len(pk) :] == tail
            if len(pk) < 3 and use_client is not None:
                # all three packets arrived in one piece and were read from the socket together with the first one
                ok = False
            if not ok:
                chk.violation(
                    {"kind": "write_failure_then_receive", "what": "withheld_packets"},
                    f"{'AsyncTCPNetworkClient' if use_client else 'AsyncStreamEndpoint over the asyncio adapter'} ({'buffered' if buffered else 'copying'} path): three packets arrive in one piece, "
                    f"the first is read, the peer resets, a write fails, then receives: observed {seen}; expected packet-1, packet-2, packet-3, then the end of the stream, repeated",
                    {"kind": "write_failure_then_receive", "buffered": buffered, "client": use_client},
                )
    chk.extra["client_traces"] = {"traces": len(rec), "events": res.nevents, "rejected": len(res.rejected), "outcomes": outcomes}
    chk.sample({"meta": rec[1]["meta"], "events": [{k: v for k, v in e.items() if v not in (0, "", False)} for e in rec[1]["events"][:16]]}, cap=4)
    for idx, pos in sorted(res.rejected.items())[:40]:
        t = rec[idx]
        failing = t["events"][pos - 1] if 0 < pos <= len(t["events"]) else None
        chk.violation(
            {"kind": "trace", "spec": "RecvClient", "target": t["meta"].split("(")[0], "event": failing["ev"] if failing else "?"},
            f"stream client: not a behaviour of RecvClient (event #{pos}: {failing}) -- {t['meta']} events={[(e['ev'], e['op'], e['t'], e['idx']) for e in t['events']]}",
            {"kind": "recvclient_trace", "trace": slim[idx], "meta": t["meta"], "rejected_at": pos},
        )
    chk.assumptions += [
        "asynchronous scenarios: the peer acts on whole ticks of virtual time, positive timeouts last k + 0.37 ticks and pauses are multiples of half a tick, so a deadline never ties with an arrival",
        "a call with a zero timeout may time out whatever the kernel holds (it only polls what the client already has)",
    ]
