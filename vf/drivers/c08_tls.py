"""C08 - the TLS transport is a transparent, encrypted byte stream.

TLSChannel.tla: the lock discipline of _retry_ssl_method (reader + writer task per side, bounded pipe) is model-checked for
deadlock freedom, conservation and completion.  The real AsyncTLSStreamTransport is then run against an independent peer built on
ssl.SSLObject over in-memory pipes with scripted fragmentation (down to 1 byte per read), both roles, both directions active at
once, write sizes from 1 byte to several hundred KiB, send_all / send_all_from_iterable, recv / recv_into; every write, every read
(with a byte-for-byte comparison at its offset) and the ciphertext seen by the wrapped transport (must parse as TLS records and
must not contain a random plaintext token) are logged and the logs are validated by TLC against TLSStreamTrace.  The virtual-time
loop turns a deadlock into a rejected trace.  The blocking SSLStreamTransport is exercised over a real socket pair against a
threaded stdlib peer.
"""

from __future__ import annotations

import asyncio
import os
import random
import socket
import ssl
import tempfile
import threading
from typing import Any

from .. import memtransport, tlc, tlspeer, traces, vloop
from ..common import Check

LEVEL = "model_checking"
TRACE_CFG = "INIT TInit\nNEXT TNext\nCONSTRAINT Constr\nPOSTCONDITION Post\nCHECK_DEADLOCK FALSE\n"
EVD = {"ev": "", "d": "", "n": 0, "ok": False}
TOKEN = b"PLAINTEXT-TOKEN-7f3a9c1e5b2d"


def _model(chk: Check, quick: bool) -> None:
    with tempfile.TemporaryDirectory(prefix="vf_c08_") as d:
        for fixed, cap, n, expect_ok in ((False, 3, 3, True), (True, 1, 3, True), (False, 1, 2, False)):
            cfg = os.path.join(d, f"mc_{fixed}_{cap}.cfg")
            consts = {"N": str(n if quick else n + 1), "Cap": str(cap if cap == 1 else (n if quick else n + 1)), "Fixed": "TRUE" if fixed else "FALSE"}
            tlc.write_cfg(cfg, constants=consts, invariants=["NoOverDelivery", "Conservation"], properties=["Completes"], check_deadlock=True)
            res = tlc.run_tlc("TLSChannel", cfg)
            label = f"TLSChannel[{'repaired' if fixed else 'as written'},cap={'1' if cap == 1 else 'unbounded'}]"
            chk.add_model(label, res, consts, "deadlock check + Completes (liveness) + conservation")
            if expect_ok and not res.ok:
                chk.model_violation("TLSChannel", res, consts)
            if not expect_ok:
                chk.extra["bounded_pipe_design_counterexample"] = {
                    "constants": consts,
                    "violation": res.violation,
                    "trace": [s["action"] for s in res.trace][:20],
                    "note": "lock discipline as written + a pipe that holds one record per direction: both writers hold their send lock blocked on a full "
                    "window, both readers wait for that lock before they would read (finding F10)",
                }
                if res.ok:
                    chk.machinery_errors.append("TLSChannel as written with Cap=1 is expected to deadlock (model lost its sensitivity)")
                else:
                    chk.violation(
                        {"kind": "model", "module": "TLSChannel", "what": "deadlock", "pipe": "bounded"},
                        f"TLC: {res.violation} in TLSChannel (lock discipline as written, bounded pipe)",
                        {"kind": "tlc_counterexample", "constants": consts, "trace": [s["action"] for s in res.trace]},
                    )


async def _session(seed: int, *, bounded: bool = False) -> dict[str, Any]:
    from easynetwork.lowlevel.api_async.backend._asyncio.backend import AsyncIOBackend
    from easynetwork.lowlevel.api_async.transports.tls import AsyncTLSStreamTransport

    rng = random.Random(seed)
    backend = AsyncIOBackend()
    frag_choices: list[Any] = [1, 7, 100, 1500, 16384, None, "rand"]
    fa, fb = rng.choice(frag_choices), rng.choice(frag_choices)

    def frag(f: Any) -> Any:
        if f == "rand":
            return lambda: rng.choice([1, 2, 5, 64, 4000])
        return f

    cap = 4096 if bounded else None
    lib2peer = memtransport.MemPipe(fragment=frag(fa), capacity=cap)
    peer2lib = memtransport.MemPipe(fragment=frag(fb), capacity=cap)
    inner = memtransport.MemStreamTransport(backend, peer2lib, lib2peer, per_chunk=rng.random() < 0.5)
    lib_is_server = rng.random() < 0.4
    peer = tlspeer.Peer(lib2peer, peer2lib, server_side=not lib_is_server)
    events: list[dict[str, Any]] = []

    def ev(kind: str, d: str = "", n: int = 0, ok: bool = False) -> None:
        events.append({"ev": kind, "d": d, "n": n, "ok": ok})

    def wire_ok() -> bool:
        blob = b"".join(lib2peer.log)
        ok, _ = tlspeer.parse_records(blob)
        return ok and TOKEN not in blob

    hs = asyncio.ensure_future(peer.handshake())
    if lib_is_server:
        tls = await AsyncTLSStreamTransport.wrap(inner, tlspeer.server_context(), server_side=True, handshake_timeout=60)
    else:
        tls = await AsyncTLSStreamTransport.wrap(inner, tlspeer.client_context(), server_hostname="localhost", handshake_timeout=60)
    await hs
    ev("wire", ok=wire_ok())
    sizes = [1, 2, 17, 1000, 16384, 16385, 40000]
    big = [300_000, 600_000] if not bounded else [200_000]
    out_writes = [rng.choice(sizes) for _ in range(rng.randint(1, 4))] + ([rng.choice(big)] if rng.random() < (0.9 if bounded else 0.25) else [])
    in_writes = [rng.choice(sizes) for _ in range(rng.randint(1, 4))] + ([rng.choice(big)] if rng.random() < (0.9 if bounded else 0.25) else [])
    rng.shuffle(out_writes)
    rng.shuffle(in_writes)

    def payload(n: int, salt: int) -> bytes:
        base = TOKEN + bytes([65 + (salt % 26)]) * 37
        return (base * (n // len(base) + 1))[:n]

    out_stream = b"".join(payload(n, i) for i, n in enumerate(out_writes))
    in_stream = b"".join(payload(n, i + 7) for i, n in enumerate(in_writes))

    async def lib_writer() -> None:
        pos = 0
        for n in out_writes:
            data = out_stream[pos : pos + n]
            pos += n
            ev("write", "out", n)
            how = rng.random()
            if how < 0.45:
                await tls.send_all(data)
            elif how < 0.8 or n < 1500:
                k = rng.randint(0, n)
                await tls.send_all_from_iterable([data[:k], b"", data[k:]])
            else:
                # a packet produced as a great many small chunks (an incremental serializer yielding field by field)
                step = max(1, n // rng.choice([1100, 2500, 5000]))
                await tls.send_all_from_iterable(data[i : i + step] for i in range(0, n, step))
            if rng.random() < 0.3:
                await asyncio.sleep(0)

    async def peer_reader() -> None:
        pos = 0
        while pos < len(out_stream):
            data = await peer.read(rng.choice([1, 100, 65536]))
            if not data:
                ev("eof", "out")
                return
            ev("read", "out", len(data), data == out_stream[pos : pos + len(data)])
            pos += len(data)

    async def peer_writer() -> None:
        pos = 0
        for n in in_writes:
            ev("write", "in", n)
            await peer.write(in_stream[pos : pos + n])
            pos += n
            if rng.random() < 0.3:
                await asyncio.sleep(0)

    async def lib_reader() -> None:
        pos = 0
        buf = bytearray(rng.choice([1, 64, 20000]))
        while pos < len(in_stream):
            if rng.random() < 0.5:
                data = await tls.recv(rng.choice([1, 100, 65536]))
            else:
                k = await tls.recv_into(buf)
                data = bytes(buf[:k])
            if not data:
                ev("eof", "in")
                return
            ev("read", "in", len(data), data == in_stream[pos : pos + len(data)])
            pos += len(data)

    tasks = [asyncio.ensure_future(c()) for c in (lib_writer, peer_reader, peer_writer, lib_reader)]
    done, pending = await asyncio.wait(tasks, timeout=600)
    problem = ""
    for t in done:
        if t.exception() is not None:
            problem = f"{type(t.exception()).__name__}: {t.exception()}"
    if pending:
        problem = "timeout"
        for t in pending:
            t.cancel()
    ev("wire", ok=wire_ok())
    if not problem:
        # orderly close: the peer must see our close_notify, we must see a clean end of stream after its
        closer = asyncio.ensure_future(tls.aclose())
        last = await peer.read()
        await peer.close_notify()
        await asyncio.wait([closer], timeout=120)
        if last != b"" or not closer.done() or closer.exception() is not None or not inner.closed:
            problem = f"close: peer_read={last[:20]!r} closer_done={closer.done()} inner_closed={inner.closed}"
    if problem:
        ev("problem:" + problem[:60])
    else:
        ev("end")
    return {
        "events": events,
        "meta": f"seed={seed} role={'server' if lib_is_server else 'client'} frag(lib->peer)={fa} frag(peer->lib)={fb} bounded={bounded} out={out_writes} in={in_writes} problem={problem}",
    }


async def _connect(rng: random.Random, cap: int | None, frag_choices: list[Any]) -> tuple[Any, Any, Any, Any, Any, bool]:
    from easynetwork.lowlevel.api_async.backend._asyncio.backend import AsyncIOBackend
    from easynetwork.lowlevel.api_async.transports.tls import AsyncTLSStreamTransport

    backend = AsyncIOBackend()
    lib2peer = memtransport.MemPipe(fragment=rng.choice(frag_choices), capacity=cap)
    peer2lib = memtransport.MemPipe(fragment=rng.choice(frag_choices), capacity=cap)
    inner = memtransport.MemStreamTransport(backend, peer2lib, lib2peer)
    lib_is_server = rng.random() < 0.5
    peer = tlspeer.Peer(lib2peer, peer2lib, server_side=not lib_is_server)
    hs = asyncio.ensure_future(peer.handshake())
    if lib_is_server:
        tls = await AsyncTLSStreamTransport.wrap(inner, tlspeer.server_context(), server_side=True, handshake_timeout=60)
    else:
        tls = await AsyncTLSStreamTransport.wrap(inner, tlspeer.client_context(), server_hostname="localhost", handshake_timeout=60)
    await hs
    return backend, lib2peer, inner, peer, tls, lib_is_server


async def _pingpong_session(seed: int) -> dict[str, Any]:
    """Request / response: the library side's reader is parked in recv() *before* its writer sends a request, and the peer says
    nothing until it has received the whole request (then it answers; several rounds, either side may start)."""
    rng = random.Random(seed)
    backend, lib2peer, inner, peer, tls, lib_is_server = await _connect(rng, rng.choice([None, 4096]), [1, 7, 1500, None])
    events: list[dict[str, Any]] = []

    def ev(kind: str, d: str = "", n: int = 0, ok: bool = False) -> None:
        events.append({"ev": kind, "d": d, "n": n, "ok": ok})

    rounds = [(rng.choice([1, 17, 1000, 16384, 16385, 70000]), rng.choice([1, 17, 1000, 40000])) for _ in range(rng.randint(1, 4))]
    problem = ""

    async def lib_read_exactly(n: int, expected: bytes) -> None:
        got = 0
        while got < n:
            data = await tls.recv(rng.choice([1, 100, 65536]))
            if not data:
                ev("eof", "in")
                return
            ev("read", "in", len(data), data == expected[got : got + len(data)])
            got += len(data)

    async def lib_side() -> None:
        for i, (req, resp) in enumerate(rounds):
            request = bytes([65 + i]) * req
            response = bytes([97 + i]) * resp
            reader = asyncio.ensure_future(lib_read_exactly(resp, response))
            for _ in range(rng.randint(3, 8)):
                await asyncio.sleep(0)  # the reader is parked in the wrapped transport's recv by now
            ev("write", "out", req)
            await tls.send_all(request)
            await reader

    async def peer_side() -> None:
        for i, (req, resp) in enumerate(rounds):
            request = bytes([65 + i]) * req
            got = await peer.read_exactly(req)
            ev("read", "out", len(got), got == request)
            ev("write", "in", resp)
            await peer.write(bytes([97 + i]) * resp)

    tasks = [asyncio.ensure_future(lib_side()), asyncio.ensure_future(peer_side())]
    done, pending = await asyncio.wait(tasks, timeout=600)
    for t in done:
        if t.exception() is not None:
            problem = f"{type(t.exception()).__name__}: {t.exception()}"
    if pending:
        problem = "timeout"
        for t in pending:
            t.cancel()
    blob = b"".join(lib2peer.log)
    ev("wire", ok=tlspeer.parse_records(blob)[0])
    ev("problem:" + problem[:60]) if problem else ev("end")
    return {"events": events, "meta": f"request/response seed={seed} role={'server' if lib_is_server else 'client'} rounds(request,response)={rounds} problem={problem}"}


async def _abandoned_sender_session(seed: int) -> dict[str, Any]:
    """Back-pressure: a first send_all(A) is blocked (the peer is not reading), a second send_all(B) queues behind it and is cancelled
    while queued, then the peer reads and a third send_all(C) follows.  The peer must be able to decrypt everything and read
    A, then a prefix of B (what TLS had already accepted; possibly nothing), then C."""
    rng = random.Random(seed)
    backend, lib2peer, inner, peer, tls, lib_is_server = await _connect(rng, 4096, [1500, None])
    events: list[dict[str, Any]] = []

    def ev(kind: str, d: str = "", n: int = 0, ok: bool = False) -> None:
        events.append({"ev": kind, "d": d, "n": n, "ok": ok})

    A = b"A" * rng.choice([30000, 100000])
    B = b"B" * rng.choice([1, 1000, 20000])
    C = b"C" * rng.choice([1, 500, 30000])
    wa = asyncio.ensure_future(tls.send_all(A))
    for _ in range(rng.randint(5, 30)):
        await asyncio.sleep(0)
    # a second sender overlaps the suspended one: it may not return before its bytes can be handed over (the pipe is full, nobody reads)
    D = b"D" * rng.choice([1, 700])
    wd = asyncio.ensure_future(tls.send_all(D))
    for _ in range(60):
        await asyncio.sleep(0)
    d_early = wd.done() and not wa.done()
    wb = asyncio.ensure_future(tls.send_all(B))
    for _ in range(rng.randint(1, 30)):
        await asyncio.sleep(0)
    wb.cancel()
    await asyncio.gather(wb, return_exceptions=True)
    b_finished = wb.done() and not wb.cancelled() and wb.exception() is None
    got = bytearray()
    problem = ""

    async def peer_reader(total_min: int) -> None:
        while len(got) < total_min:
            data = await peer.read(65536)
            if not data:
                return
            got.extend(data)

    async def until_c() -> None:
        # C is the only place where b"C" occurs
        while got.count(b"C") < len(C):
            data = await peer.read(65536)
            if not data:
                return
            got.extend(data)

    try:
        pr = asyncio.ensure_future(peer_reader(len(A) + len(D)))
        await asyncio.wait([wa, wd, pr], timeout=300, return_when=asyncio.ALL_COMPLETED)
        reader = asyncio.ensure_future(until_c())
        wc = asyncio.ensure_future(tls.send_all(C))
        done, pending = await asyncio.wait([reader, wc], timeout=300)
        if pending:
            problem = "timeout"
            for t in pending:
                t.cancel()
        for t in done:
            if t.exception() is not None:
                raise t.exception()  # type: ignore[misc]
    except ssl.SSLError as exc:
        problem = f"peer could not decrypt: {type(exc).__name__}"
    except OSError as exc:
        problem = f"{type(exc).__name__}: {exc}"
    nb = bytes(got).count(b"B")
    expected = A + D + B[:nb] + C
    if d_early and not problem:
        problem = "send_all() of an overlapping sender returned while the first one was still suspended and nobody was reading (no back-pressure)"
    ev("write", "out", len(A))
    ev("write", "out", len(D))
    ev("write", "out", nb)  # an abandoned write counts for what TLS had accepted of it
    ev("write", "out", len(C))
    ev("read", "out", len(got), bytes(got) == expected and (nb == len(B) or not b_finished))
    ev("wire", ok=tlspeer.parse_records(b"".join(lib2peer.log))[0])
    ev("problem:" + problem[:60]) if problem else ev("end")
    return {"events": events, "meta": f"abandoned queued sender seed={seed} role={'server' if lib_is_server else 'client'} A={len(A)} B={len(B)} C={len(C)} B_delivered={nb} problem={problem}"}


def _run_special(fn: Any, seed: int) -> dict[str, Any]:
    try:
        return vloop.run(lambda: fn(seed), spin_limit=200000)
    except vloop.VirtualDeadlock:
        return {"events": [dict(EVD, ev="deadlock")], "meta": f"{fn.__name__} seed={seed} VirtualDeadlock: nobody can make progress"}
    except Exception as exc:  # noqa: BLE001
        return {"events": [dict(EVD, ev="exception")], "meta": f"{fn.__name__} seed={seed} {type(exc).__name__}: {exc}"}


def _run_session(seed: int, bounded: bool) -> dict[str, Any]:
    try:
        return vloop.run(lambda: _session(seed, bounded=bounded), spin_limit=200000)
    except vloop.VirtualDeadlock:
        return {"events": [dict(EVD, ev="deadlock")], "meta": f"seed={seed} bounded={bounded} VirtualDeadlock: nobody can make progress"}
    except Exception as exc:  # noqa: BLE001
        return {"events": [dict(EVD, ev="exception")], "meta": f"seed={seed} bounded={bounded} {type(exc).__name__}: {exc}"}


def _run_dual(seed: int) -> list[dict[str, Any]]:
    """Two TLS connections served by the same event loop at the same time: nothing of one may leak into the other."""

    async def both() -> list[dict[str, Any]]:
        return list(await asyncio.gather(_session(seed), _session(seed + 500_000)))

    try:
        out = vloop.run(both, spin_limit=400000)
        for t in out:
            t["meta"] = "two connections in one loop: " + t["meta"]
        return out  # type: ignore[no-any-return]
    except vloop.VirtualDeadlock:
        return [{"events": [dict(EVD, ev="deadlock")], "meta": f"two connections in one loop seed={seed} VirtualDeadlock"}]
    except Exception as exc:  # noqa: BLE001
        return [{"events": [dict(EVD, ev="exception")], "meta": f"two connections in one loop seed={seed} {type(exc).__name__}: {exc}"}]


class _SockPipe:
    """The MemPipe reader / writer interface of tlspeer.Peer over a non-blocking socket."""

    def __init__(self, sock: socket.socket) -> None:
        self.sock = sock

    async def read(self, n: int) -> bytes:
        return await asyncio.get_running_loop().sock_recv(self.sock, n)

    async def write(self, data: bytes) -> None:
        await asyncio.get_running_loop().sock_sendall(self.sock, data)


async def _two_connections_over_sockets(seed: int) -> list[dict[str, Any]]:
    """Two TLS connections over the real asyncio socket adapter, both readers parked; their peers' records reach the two sockets inside
    the same event-loop iteration (the ciphertext is handed to the kernel back to back, without yielding to the loop)."""
    from easynetwork.lowlevel.api_async.backend._asyncio.backend import AsyncIOBackend
    from easynetwork.lowlevel.api_async.transports.tls import AsyncTLSStreamTransport

    rng = random.Random(seed)
    backend = AsyncIOBackend()
    conns = []
    for _ in range(2):
        a, b = socket.socketpair()
        a.setblocking(False)
        b.setblocking(False)
        pipe = _SockPipe(b)
        lib_is_server = rng.random() < 0.5
        peer = tlspeer.Peer(pipe, pipe, server_side=not lib_is_server)  # type: ignore[arg-type]
        hs = asyncio.ensure_future(peer.handshake())
        inner = await backend.wrap_stream_socket(a)
        if lib_is_server:
            tls = await AsyncTLSStreamTransport.wrap(inner, tlspeer.server_context(), server_side=True, handshake_timeout=20)
        else:
            tls = await AsyncTLSStreamTransport.wrap(inner, tlspeer.client_context(), server_hostname="localhost", handshake_timeout=20)
        await hs
        conns.append({"a": a, "b": b, "peer": peer, "tls": tls, "events": [], "got": bytearray(), "sent": bytearray()})
    problem = ""
    try:
        for rnd in range(rng.randint(3, 6)):
            readers = [asyncio.ensure_future(c["tls"].recv(65536)) for c in conns]
            for _ in range(3):
                await asyncio.sleep(0)  # both readers are parked in the socket adapter
            blobs = []
            for i, c in enumerate(conns):
                msg = bytes([65 + i]) * rng.choice([1, 50, 3000]) + b"#%d" % rnd
                c["peer"].obj.write(msg)
                blobs.append(c["peer"].out.read())
                c["sent"] += msg
                c["events"].append({"ev": "write", "d": "in", "n": len(msg), "ok": False})
            for c, blob in zip(conns, blobs):
                c["b"].send(blob)  # no await between the two: same iteration for the event loop
            done, pending = await asyncio.wait(readers, timeout=10)
            for c, r in zip(conns, readers):
                if r in pending:
                    r.cancel()
                    problem = "a reader never woke up"
                elif r.exception() is not None:
                    problem = f"{type(r.exception()).__name__}: {r.exception()}"
                else:
                    data = r.result()
                    # (a record may come out in several reads: take the rest)
                    while len(c["got"]) + len(data) < len(c["sent"]):
                        more = await asyncio.wait_for(c["tls"].recv(65536), 10)
                        if not more:
                            break
                        data += more
                    c["events"].append({"ev": "read", "d": "in", "n": len(data), "ok": bytes(c["sent"][len(c["got"]) : len(c["got"]) + len(data)]) == data})
                    c["got"] += data
            if problem:
                break
    except Exception as exc:  # noqa: BLE001
        problem = f"{type(exc).__name__}: {exc}"
    out = []
    for i, c in enumerate(conns):
        c["events"].append({"ev": "problem:" + problem[:60], "d": "", "n": 0, "ok": False} if problem else {"ev": "end", "d": "", "n": 0, "ok": False})
        try:
            await asyncio.wait_for(c["tls"].aclose(), 0.5)
        except BaseException:  # noqa: BLE001
            pass
        c["a"].close()
        c["b"].close()
        out.append({"events": c["events"], "meta": f"two connections over socket adapters, records delivered in the same loop iteration: seed={seed} connection={i} problem={problem}"})
    return out


def _run_two_sockets(seed: int) -> list[dict[str, Any]]:
    try:
        return asyncio.run(asyncio.wait_for(_two_connections_over_sockets(seed), 60))
    except Exception as exc:  # noqa: BLE001
        return [{"events": [dict(EVD, ev="exception")], "meta": f"two connections over socket adapters seed={seed} {type(exc).__name__}: {exc}"}]


def _run_unbounded(seed: int) -> dict[str, Any]:
    return _run_session(seed, False)


def _run_bounded(seed: int) -> dict[str, Any]:
    return _run_session(seed, True)


def _run_pingpong(seed: int) -> dict[str, Any]:
    return _run_special(_pingpong_session, seed)


def _run_abandoned(seed: int) -> dict[str, Any]:
    return _run_special(_abandoned_sender_session, seed)


def _blocking_session(seed: int) -> dict[str, Any]:
    """SSLStreamTransport over a real socket pair against a threaded stdlib peer (fragmented writes)."""
    from easynetwork.lowlevel.api_sync.transports.socket import SSLStreamTransport

    rng = random.Random(seed)
    a, b = socket.socketpair()
    events: list[dict[str, Any]] = []
    lib_is_server = rng.random() < 0.5
    out_writes = [rng.choice([1, 17, 5000, 16392, 40000]) for _ in range(rng.randint(1, 3))] + [rng.choice([16392, 40000])]
    in_writes = [rng.choice([1, 17, 5000, 40000]) for _ in range(rng.randint(1, 3))]
    # (the bytes of a write are not uniform: a reordering of its chunks must be visible)
    out_stream = b"".join(bytes((65 + i + (j % 7)) % 256 for j in range(n)) for i, n in enumerate(out_writes))
    in_stream = b"".join(bytes([97 + i]) * n for i, n in enumerate(in_writes))
    peer_got = bytearray()
    peer_err: list[str] = []

    def peer_thread() -> None:
        try:
            ctx = tlspeer.client_context() if lib_is_server else tlspeer.server_context()
            s = ctx.wrap_socket(b, server_side=not lib_is_server, server_hostname="localhost" if lib_is_server else None)
            pos = 0
            for n in in_writes:
                chunk = in_stream[pos : pos + n]
                pos += n
                for i in range(0, len(chunk), 3000):
                    s.sendall(chunk[i : i + 3000])
            while len(peer_got) < len(out_stream):
                data = s.recv(65536)
                if not data:
                    break
                peer_got.extend(data)
            try:
                s.unwrap()
            except (OSError, ssl.SSLError):
                pass
            s.close()
        except Exception as exc:  # noqa: BLE001
            peer_err.append(f"{type(exc).__name__}: {exc}")

    th = threading.Thread(target=peer_thread, daemon=True)
    th.start()
    problem = ""
    try:
        if lib_is_server:
            tr = SSLStreamTransport(a, tlspeer.server_context(), retry_interval=0.5, server_side=True, handshake_timeout=20)
        else:
            tr = SSLStreamTransport(a, tlspeer.client_context(), retry_interval=0.5, server_hostname="localhost", handshake_timeout=20)
        for n in in_writes:
            events.append({"ev": "write", "d": "in", "n": n})
        pos = 0
        for n in out_writes:
            events.append({"ev": "write", "d": "out", "n": n})
            data = out_stream[pos : pos + n]
            if rng.random() < 0.35:
                tr.send_all(data, 20)
            else:
                # a packet made of several chunks (header + body ...): small before big, big before small, with an empty one
                k = rng.choice([0, 1, min(n, 8), min(n, 8), n // 2, max(n - 3, 0), n])
                tr.send_all_from_iterable([data[:k], b"", data[k:]], 20)
            pos += n
        got = bytearray()
        while len(got) < len(in_stream):
            data = tr.recv(rng.choice([1, 1000, 65536]), 20)
            if not data:
                break
            events.append({"ev": "read", "d": "in", "n": len(data), "ok": data == in_stream[len(got) : len(got) + len(data)]})
            got.extend(data)
        tr.close()
        th.join(20)
        events.append({"ev": "read", "d": "out", "n": len(peer_got), "ok": bytes(peer_got) == out_stream})
    except Exception as exc:  # noqa: BLE001
        problem = f"{type(exc).__name__}: {exc}"
    finally:
        for s in (a, b):
            try:
                s.close()
            except OSError:
                pass
    if peer_err:
        problem = problem or peer_err[0]
    events.append({"ev": "problem"} if problem else {"ev": "end"})
    return {"events": traces.uniform(events, EVD), "meta": f"blocking SSLStreamTransport seed={seed} role={'server' if lib_is_server else 'client'} out={out_writes} in={in_writes} problem={problem}"}


def run(chk: Check) -> None:
    quick = chk.tier == "quick"
    chk.rule = (
        "sessions = seeded: role (client/server), per-direction fragmentation of the ciphertext (1, 7, 100, 1500, 16384, unlimited, random), 1-5 writes per "
        "direction of 1 B .. 600 KB, both directions concurrently with reader and writer tasks on both sides, send_all / send_all_from_iterable (with an "
        "empty chunk), recv / recv_into, orderly close; plus bounded-pipe sessions (4 KiB per direction), blocking-transport sessions, request/response sessions "
        "(reader parked before the writer sends, silent peer until the request is complete) and sessions in which a queued sender is cancelled under back-pressure"
    )
    _model(chk, quick)
    from ..common import pmap

    rec = pmap(_run_unbounded, [chk.seed * 1009 + i for i in range(40 if quick else 3000)], min_items=100)
    rec_b = pmap(_run_bounded, [chk.seed * 4001 + i for i in range(6 if quick else 300)], min_items=100)
    rec_s = [_blocking_session(chk.seed * 17 + i) for i in range(12 if quick else 150)]
    rec_p = pmap(_run_pingpong, [chk.seed * 7919 + i for i in range(12 if quick else 1000)], min_items=100)
    rec_a = pmap(_run_abandoned, [chk.seed * 6007 + i for i in range(8 if quick else 500)], min_items=100)
    rec_d: list[dict[str, Any]] = []
    for part in pmap(_run_dual, [chk.seed * 3571 + i for i in range(10 if quick else 500)], min_items=100):
        rec_d += part
    for part in pmap(_run_two_sockets, [chk.seed * 2221 + i for i in range(6 if quick else 300)], min_items=100):
        rec_d += part
    allrec = rec + rec_b + rec_s + rec_p + rec_a + rec_d
    slim = [{"events": traces.uniform(t["events"], EVD)} for t in allrec]
    res = traces.validate("TLSStreamTrace", slim, cfg_text=TRACE_CFG, parallel=8, chunk=200)
    chk.traces += len(allrec)
    chk.evaluations = len(allrec)
    chk.states += res.tlc.distinct
    chk.transitions += res.tlc.generated
    for t in allrec:
        chk.distinct.add(t["meta"])
    chk.sample({"meta": rec[0]["meta"], "events": [(e["ev"], e["d"], e["n"], e["ok"]) for e in rec[0]["events"][:14]]}, cap=3)
    chk.extra["sessions"] = {"unbounded": len(rec), "bounded_pipe": len(rec_b), "blocking": len(rec_s), "request_response": len(rec_p), "two_connections_in_one_loop": len(rec_d), "abandoned_queued_sender": len(rec_a), "events": res.nevents, "rejected": len(res.rejected)}
    for idx, pos in sorted(res.rejected.items())[:40]:
        t = allrec[idx]
        evs = t["events"]
        failing = evs[pos - 1] if 0 < pos <= len(evs) else None
        bounded = "bounded=True" in t["meta"]
        kindname = (failing or {}).get("ev", "?").split(":")[0]
        chk.violation(
            {"kind": "trace", "spec": "TLSStream", "what": "deadlock" if kindname == "deadlock" or "timeout" in (failing or {}).get("ev", "") else kindname, "pipe": "bounded" if bounded else "unbounded"},
            f"TLS session: not a behaviour of TLSStreamTrace (event #{pos}: {failing}) -- {t['meta']}",
            {"kind": "tls_session", "meta": t["meta"], "events": evs[:60]},
        )
    chk.assumptions += [
        "OpenSSL is the environment: abstracted as a record layer in the model, real in the sessions; the independent peer is built on ssl.SSLObject only",
        "user contexts that keep OP_IGNORE_UNEXPECTED_EOF are outside the library's control (see C09)",
    ]


def replay(data: dict[str, Any]) -> int:
    print(data["replay"].get("meta"))
    for e in data["replay"].get("events", []):
        print(e)
    return 0
