"""C12 part 4: concurrent senders on one AsyncTLSStreamTransport over a wrapped transport that suspends in the middle of a
send; the independent peer decrypts and the plaintext must be a sequence of whole packets (SendLockWire)."""

from __future__ import annotations

import asyncio
import random
from typing import Any

from .. import memtransport, tlspeer, traces, vloop
from ..common import Check
from .c12_threads import TRACE_CFG, parse_wire


def _packet(s: int, n: int, size: int) -> bytes:
    return b"<%d.%d.%d:" % (s, n, size) + bytes([ord("a") + s]) * size + b">"


async def _scenario(seed: int) -> dict[str, Any]:
    from easynetwork.lowlevel.api_async.backend._asyncio.backend import AsyncIOBackend
    from easynetwork.lowlevel.api_async.transports.tls import AsyncTLSStreamTransport

    rng = random.Random(seed)
    backend = AsyncIOBackend()
    lib2peer, peer2lib = memtransport.MemPipe(), memtransport.MemPipe()

    class SlicingTransport(memtransport.MemStreamTransport):
        """Writes in small slices and suspends in between, as a congested socket would: two unserialised send_all() calls interleave."""

        async def send_all(self, data: Any) -> None:
            # like a socket transport, what was handed over is written even if the caller is cancelled meanwhile
            await asyncio.shield(asyncio.ensure_future(self._slices(bytes(data))))

        async def _slices(self, data: bytes) -> None:
            step = rng.choice([64, 500, 5000])
            for i in range(0, len(data), step):
                self.tx.feed(data[i : i + step])
                if rng.random() < 0.7:
                    await asyncio.sleep(0)

    inner = SlicingTransport(backend, peer2lib, lib2peer)
    peer = tlspeer.Peer(lib2peer, peer2lib, server_side=True)
    hs = asyncio.ensure_future(peer.handshake())
    tls = await AsyncTLSStreamTransport.wrap(inner, tlspeer.client_context(), server_hostname="localhost")
    await hs
    nsend = rng.randint(2, 4)
    npk = rng.randint(1, 3)
    sizes = [1, 100, 5000, 20000]
    expected = []
    total = 0
    plan: dict[int, list[bytes]] = {}
    for s in range(1, nsend + 1):
        plan[s] = []
        for n in range(1, npk + 1):
            p = _packet(s, n, rng.choice(sizes))
            plan[s].append(p)
            expected.append([s, n])
            total += len(p)
    errors: list[str] = []

    async def sender(s: int) -> None:
        try:
            for p in plan[s]:
                if rng.random() < 0.5:
                    await tls.send_all(p)
                else:
                    k = rng.randint(0, len(p))
                    await tls.send_all_from_iterable([p[:k], p[k:]])
        except Exception as exc:  # noqa: BLE001
            errors.append(f"sender {s}: {type(exc).__name__}: {exc}")

    # a reader task on the library side keeps hitting SSLWantReadError (and flushing) while the senders run
    async def lib_reader() -> None:
        # receive calls started at arbitrary moments and abandoned after a few loop iterations (as under a short timeout):
        # each of them runs into SSLWantReadError and its "flush pending writes first" step while senders are mid-packet
        try:
            while True:
                t = asyncio.ensure_future(tls.recv(10))
                for _ in range(rng.randint(1, 6)):
                    await asyncio.sleep(0)
                if not t.done():
                    t.cancel()
                await asyncio.gather(t, return_exceptions=True)
        except asyncio.CancelledError:
            raise
        except Exception:  # noqa: BLE001
            pass

    async def peer_chatter() -> None:
        try:
            for _ in range(20):
                await peer.write(b"x")
                for _ in range(10):
                    await asyncio.sleep(0)
        except Exception:  # noqa: BLE001
            pass

    rd = asyncio.ensure_future(lib_reader())
    ch = asyncio.ensure_future(peer_chatter())
    senders = [asyncio.ensure_future(sender(s)) for s in range(1, nsend + 1)]
    got = bytearray()
    try:
        while len(got) < total:
            data = await asyncio.wait_for(peer.read(), 60)
            if not data:
                break
            got += data
    except Exception as exc:  # noqa: BLE001
        errors.append(f"peer: {type(exc).__name__}: {exc}")
    await asyncio.wait(senders, timeout=60)
    rd.cancel()
    ch.cancel()
    wire = parse_wire(bytes(got))
    if errors or len(got) != total:
        wire.append([0, 0, 0])
    return {"nchunks": 1, "wire": wire, "cancelled": [], "expected": expected, "meta": f"tls seed={seed} senders={nsend} pkts={npk} errors={errors} got={len(got)}/{total}"}


def run(chk: Check) -> None:
    quick = chk.tier == "quick"
    rec = []
    for i in range(25 if quick else 400):
        try:
            rec.append(vloop.run(lambda: _scenario(chk.seed * 31 + i), spin_limit=200000))
        except vloop.VirtualDeadlock:
            rec.append({"nchunks": 1, "wire": [[0, 0, 0]], "cancelled": [], "expected": [], "meta": f"tls seed={chk.seed * 31 + i} VirtualDeadlock"})
    slim = [{"nchunks": t["nchunks"], "wire": t["wire"], "cancelled": t["cancelled"], "expected": t["expected"], "events": []} for t in rec]
    res = traces.validate("SendLockWire", slim, cfg_text=TRACE_CFG)
    chk.traces += len(rec)
    for t in rec:
        chk.distinct.add(t["meta"])
    chk.extra["tls_concurrent_senders"] = {"scenarios": len(rec), "rejected": len(res.rejected)}
    for idx in sorted(res.rejected)[:10]:
        t = rec[idx]
        chk.violation(
            {"kind": "wire", "target": "AsyncTLSStreamTransport"},
            f"TLS transport, concurrent senders: the plaintext recovered by the peer is not a sequence of whole packets -- {t['meta']}",
            {"kind": "tls_wire", "meta": t["meta"], "wire": t["wire"][:40]},
        )
