"""C19 part 2: the connection race as AsyncTCPNetworkClient runs it (ClientConnect.tla).

The real client, the real AsyncIOBackend.create_tcp_connection() and the real resolver code run with a scripted address resolution
(2-3 addresses, IPv4 and IPv6 loopback) and connection attempts that finish when the harness opens their gate (success against a
real local listener, success followed by an immediate reset from the server, or refusal).  The race is triggered by wait_connected()
or by send_packet(), and abandoned by client.aclose() from another task or by cancelling the task, at a seeded moment.  Every socket
the library creates is a recording subclass; /proc/self/fd is compared before and after.  The logs are validated by TLC against
ClientConnect.
"""

from __future__ import annotations

import asyncio
import errno
import os
import random
import socket
import struct
from typing import Any

from .. import harness, traces, vloop
from ..common import Check

TRACE_CFG = "INIT TInit\nNEXT TNext\nCONSTRAINT Constr\nPOSTCONDITION Post\nCHECK_DEADLOCK FALSE\n"
EVD = {"ev": "", "i": 0, "nopen": 0, "kind": ""}


def _nfds() -> int:
    return len(os.listdir("/proc/self/fd"))


async def _scenario(seed: int) -> dict[str, Any]:
    import easynetwork.lowlevel.api_async.backend._common.dns_resolver as mod
    from easynetwork.clients.async_tcp import AsyncTCPNetworkClient
    from easynetwork.exceptions import ClientClosedError
    from easynetwork.lowlevel.api_async.backend._asyncio.backend import AsyncIOBackend
    from easynetwork.lowlevel.api_async.backend._asyncio.dns_resolver import AsyncIODNSResolver
    from easynetwork.protocol import StreamProtocol
    from easynetwork.serializers.line import StringLineSerializer

    rng = random.Random(seed)
    loop = asyncio.get_running_loop()
    fds_before = _nfds()
    n = rng.randint(1, 3)
    events: list[dict[str, Any]] = []
    created: list[Any] = []
    gates: dict[int, asyncio.Future[str]] = {}
    listeners: dict[int, socket.socket] = {}
    accepted: list[socket.socket] = []

    def nopen() -> int:
        return sum(1 for s in created if s.fileno() != -1)

    def ev(name: str, i: int = 0, kind: str = "", with_nopen: bool = False) -> None:
        events.append({"ev": name, "i": i, "nopen": nopen() if with_nopen else 0, "kind": kind})

    class RecSocket(socket.socket):
        def __init__(self, *a: Any, **kw: Any) -> None:
            super().__init__(*a, **kw)
            created.append(self)
            self.idx = len(created)

    class SocketModuleProxy:
        def __getattr__(self, name: str) -> Any:
            return getattr(socket, name)

    proxy = SocketModuleProxy()
    proxy.socket = RecSocket  # type: ignore[attr-defined]
    fams = [rng.choice([socket.AF_INET, socket.AF_INET6]) for _ in range(n)]
    for f in set(fams):
        ls = socket.socket(f, socket.SOCK_STREAM)
        ls.bind(("127.0.0.1", 0) if f == socket.AF_INET else ("::1", 0))
        ls.listen(8)
        ls.setblocking(False)
        listeners[f] = ls
    remote = [(f, socket.SOCK_STREAM, 0, "", listeners[f].getsockname()) for f in fams]

    async def ensure_resolved(self: Any, backend: Any, host: str, port: int, **kw: Any) -> Any:
        await asyncio.sleep(0)
        return remote

    async def connect_socket(self: Any, sock: Any, address: Any) -> None:
        i = sock.idx
        ev("start", i, with_nopen=True)
        gates[i] = loop.create_future()
        how = await gates[i]
        if how == "refused":
            raise ConnectionRefusedError(errno.ECONNREFUSED, "refused")
        await loop.sock_connect(sock, address)
        conn, _ = await loop.sock_accept(listeners[sock.family])
        if how == "ok_then_reset":
            conn.setsockopt(socket.SOL_SOCKET, socket.SO_LINGER, struct.pack("ii", 1, 0))
            conn.close()
            await asyncio.sleep(0)
        else:
            accepted.append(conn)

    saved = (mod._socket, AsyncIODNSResolver.ensure_resolved, AsyncIODNSResolver.connect_socket)
    mod._socket = proxy  # type: ignore[assignment]
    AsyncIODNSResolver.ensure_resolved = ensure_resolved  # type: ignore[method-assign,assignment]
    AsyncIODNSResolver.connect_socket = connect_socket  # type: ignore[method-assign,assignment]
    problems: list[str] = []
    op = rng.choice(["wait", "wait", "send"])
    abandon = rng.choice(["aclose", "aclose", "cancel", "none", "none"])
    try:
        backend = AsyncIOBackend()
        client = AsyncTCPNetworkClient(("verif.invalid", 9), StreamProtocol(StringLineSerializer()), backend=backend, happy_eyeballs_delay=0.25)

        async def operation() -> str:
            try:
                if op == "wait":
                    await client.wait_connected()
                else:
                    await client.send_packet("hello")
                return "connected"
            except ClientClosedError:
                return "closed"
            except asyncio.CancelledError:
                return "cancelled"
            except (OSError, BaseExceptionGroup):
                return "error"

        ev("call", kind=op)
        # one scenario in five: the abandonment is a timer armed before the operation starts, due at a stagger tick plus k loop
        # iterations (the instant at which the race's own scope has just expired); attempts stay pending until then
        at_tick = abandon != "none" and rng.random() < 0.2
        tick_info = {"scope_asked_first": False}
        closer: asyncio.Task[Any] | None = None
        abandoned = False
        if at_tick:

            def fire(j: int) -> None:
                nonlocal closer, abandoned
                if j:
                    loop.call_soon(fire, j - 1)
                    return
                abandoned = True
                if task.done():
                    return
                if abandon == "aclose":
                    ev("aclose")
                    closer = loop.create_task(client.aclose())
                else:
                    tick_info["scope_asked_first"] = task.cancelling() > 0
                    ev("cancel")
                    task.cancel()

            loop.call_at(loop.time() + 0.25 * rng.choice([1, 2]), fire, rng.choice([0, 1, 1, 2, 3]))
        task = loop.create_task(operation())
        steps = 0
        abandon_at = rng.randint(0, 4)
        while not task.done() and steps < 60:
            steps += 1
            await harness.settle()
            if task.done():
                break
            if at_tick:
                if abandoned:
                    # abandoned at the tick: whatever was pending must be given up without any help from the environment
                    for _ in range(100):
                        await asyncio.sleep(0)
                    if closer is not None:
                        ev("aclose_ret", kind="prompt" if closer.done() and closer.exception() is None else ("late" if not closer.done() else "error:" + type(closer.exception()).__name__))
                    break
                await asyncio.sleep(0.26)
                continue
            if not abandoned and abandon != "none" and steps > abandon_at:
                abandoned = True
                # somewhere inside the race (possibly right after an attempt finished)
                for _ in range(rng.randint(0, 3)):
                    await asyncio.sleep(0)
                if task.done():
                    break
                if abandon == "aclose":
                    ev("aclose")
                    closer = loop.create_task(client.aclose())
                else:
                    ev("cancel")
                    task.cancel()
                await harness.settle()
                if closer is not None:
                    ev("aclose_ret", kind="prompt" if closer.done() and closer.exception() is None else ("late" if not closer.done() else "error:" + type(closer.exception()).__name__))
                continue
            pending = [i for i, g in gates.items() if not g.done()]
            if pending and rng.random() < 0.7:
                i = rng.choice(pending)
                how = rng.choice(["ok", "ok", "refused", "ok_then_reset"])
                ev("gate", i, how)
                gates[i].set_result(how)
            else:
                await asyncio.sleep(0.26)  # the stagger delay: the next attempt starts
        await harness.settle()
        if not task.done():
            problems.append("the operation never ended")
            task.cancel()
            await harness.settle()
        kind = task.result() if not task.cancelled() else "cancelled"
        ev("ret", kind=kind, with_nopen=True)
        if closer is not None and not closer.done():
            await asyncio.wait([closer], timeout=5)
        if kind == "connected":
            await client.aclose()
            await harness.settle()
            ev("closed_client", with_nopen=True)
        else:
            try:
                await asyncio.wait_for(client.aclose(), 5)
            except Exception:  # noqa: BLE001
                pass
        for g in gates.values():
            if not g.done():
                g.cancel()
        await harness.settle()
        ev("end", with_nopen=True)
    finally:
        mod._socket, AsyncIODNSResolver.ensure_resolved, AsyncIODNSResolver.connect_socket = saved  # type: ignore[method-assign,assignment]
        for s in created:
            s.close()
        for s in list(listeners.values()) + accepted:
            s.close()
    await asyncio.sleep(0)
    if _nfds() != fds_before:
        problems.append(f"/proc/self/fd: {fds_before} descriptors before, {_nfds()} after")
    if problems:
        events.append(dict(EVD, ev="problem"))
    return {"n": n, "events": traces.uniform(events, EVD), "problems": problems, "abandon": abandon, "at_tick": at_tick, "scope_asked_first": tick_info["scope_asked_first"], "meta": f"client seed={seed} addresses={['v4' if f == socket.AF_INET else 'v6' for f in fams]} operation={op} abandon={abandon}@{'a stagger tick' if at_tick else abandon_at} problems={problems}"}


def _run_one(seed: int) -> dict[str, Any]:
    try:
        return vloop.run(lambda: _scenario(seed), spin_limit=20000)  # type: ignore[no-any-return]
    except vloop.VirtualDeadlock as exc:
        return {"n": 1, "events": [dict(EVD, ev="deadlock")], "problems": [str(exc)], "meta": f"client seed={seed} VirtualDeadlock"}


def run(chk: Check) -> None:
    quick = chk.tier == "quick"
    from ..common import pmap

    rec: list[dict[str, Any]] = pmap(_run_one, [chk.seed * 40009 + i for i in range(250 if quick else 8000)])
    res = traces.validate("ClientConnect", [{"n": t["n"], "events": t["events"]} for t in rec], cfg_text=TRACE_CFG, parallel=4, chunk=400)
    chk.traces += len(rec)
    chk.states += res.tlc.distinct
    chk.transitions += res.tlc.generated
    for t in rec:
        chk.distinct.add(tuple((e["ev"], e["i"], e["nopen"], e["kind"]) for e in t["events"]))
    endings: dict[str, int] = {}
    for t in rec:
        for e in t["events"]:
            if e["ev"] == "ret":
                endings[e["kind"]] = endings.get(e["kind"], 0) + 1
    chk.extra["client_connect"] = {"scenarios": len(rec), "events": res.nevents, "rejected": len(res.rejected), "endings": endings}
    for idx, pos in sorted(res.rejected.items())[:40]:
        t = rec[idx]
        failing = t["events"][pos - 1] if 0 < pos <= len(t["events"]) else None
        chk.violation(
            {
                "kind": "trace",
                "spec": "ClientConnect",
                "event": (failing or {}).get("ev", "?"),
                "what": (failing or {}).get("kind", ""),
                "abandon": t.get("abandon", ""),
                "at_stagger_tick": bool(t.get("at_tick")),
                "scope_asked_first": bool(t.get("scope_asked_first")),
            },
            f"client connection race: not allowed by ClientConnect (event #{pos}: {failing}) -- {t['meta']} events={[(e['ev'], e['i'], e['nopen'], e['kind']) for e in t['events']]}",
            {"kind": "client_connect", "meta": t["meta"], "events": t["events"]},
        )
