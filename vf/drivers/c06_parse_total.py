"""C06 - malformed network input only ever surfaces as a parse error.

ParseTotal.tla fixes the outcome alphabet of a parse step and the progress law (every packet / parse error consumes at least
one byte).  TLC contributes the oracle; the exploration of the input space is a seeded mutation fuzzer (truncation, bit flips,
duplicated / missing separators, invalid UTF-8, bad base64, corrupted compressed blocks, wrong checksums, noise, repeated frames)
plus structurally extreme input up to the limit (deep nesting, very long tokens), for every serializer of the table in one-shot,
incremental and buffered mode.  Every parse call is one event of a trace validated by TLC; any other exception type, a crash
wrapper or a hang is an event without action.
"""

from __future__ import annotations

import os
import pickle
import random
import signal
import tempfile
from typing import Any

from .. import mutate, serializers, tlc, traces
from ..common import Check

LEVEL = "exploration"
TRACE_CFG = "INIT TInit\nNEXT TNext\nCONSTANTS\n  MaxBytes = 0\nCONSTRAINT Constr\nPOSTCONDITION Post\nCHECK_DEADLOCK FALSE\n"
EVD = {"ev": "", "n": 0, "k": "", "r": 0}


class _Hang(BaseException):
    pass


def _alarm(signum: int, frame: Any) -> None:
    raise _Hang()


def _model(chk: Check) -> bool:
    with tempfile.TemporaryDirectory(prefix="vf_c06_") as d:
        cfg = os.path.join(d, "mc.cfg")
        tlc.write_cfg(cfg, constants={"MaxBytes": "6"}, invariants=["Progress", "Bounded"], check_deadlock=False)
        res = tlc.run_tlc("ParseTotal", cfg)
    chk.add_model("ParseTotal", res, {"MaxBytes": 6}, "outcome alphabet + progress law (errors bounded by bytes received)")
    chk.states += 0
    if not res.ok:
        chk.model_violation("ParseTotal", res)
        return False
    return True


def _restricted_pickle_entries() -> list[serializers.Entry]:
    from easynetwork.serializers.pickle import PickleSerializer

    class NoGlobals(pickle._Unpickler):  # type: ignore[name-defined,misc]
        def find_class(self, module: str, name: str) -> Any:  # hostile opcodes cannot import anything
            raise pickle.UnpicklingError(f"global {module}.{name} is forbidden")

    # Objects whose reconstruction runs their own constructor on what the stream says: a corrupted argument makes that constructor raise its
    # own exception class (ZeroDivisionError, decimal.InvalidOperation, re.error, ...).  Only these harmless globals can be resolved.
    allowed = {
        ("fractions", "Fraction"),
        ("decimal", "Decimal"),
        ("re", "_compile"),
        ("datetime", "datetime"),
        ("datetime", "date"),
        ("datetime", "timedelta"),
        ("builtins", "complex"),
        ("uuid", "UUID"),
        ("ipaddress", "IPv4Address"),
        ("collections", "OrderedDict"),
    }

    class AllowList(pickle._Unpickler):  # type: ignore[name-defined,misc]
        def find_class(self, module: str, name: str) -> Any:
            if (module, name) in allowed:
                return super().find_class(module, name)
            raise pickle.UnpicklingError(f"global {module}.{name} is forbidden")

    def objects(rng: random.Random) -> Any:
        import collections
        import datetime
        import decimal
        import fractions
        import ipaddress
        import re
        import uuid

        return rng.choice(
            [
                lambda: fractions.Fraction(rng.randint(1, 99), rng.randint(1, 9)),
                lambda: decimal.Decimal(f"{rng.randint(1, 999)}.{rng.randint(0, 9)}"),
                lambda: re.compile(rng.choice(["a+b", "(x|y)*z", "[a-c]{2}"])),
                lambda: datetime.datetime(2024, rng.randint(1, 12), rng.randint(1, 28), 10, 30),
                lambda: datetime.timedelta(days=rng.randint(0, 9), seconds=rng.randint(0, 99)),
                lambda: complex(rng.randint(0, 9), rng.randint(0, 9)),
                lambda: uuid.UUID(int=rng.getrandbits(128)),
                lambda: ipaddress.IPv4Address(rng.getrandbits(32)),
                lambda: collections.OrderedDict(a=rng.randint(0, 9)),
                lambda: [fractions.Fraction(1, 3), decimal.Decimal("2.5")],
            ]
        )()

    return [
        serializers.Entry("PickleSerializer(restricted)", lambda: PickleSerializer(unpickler_cls=NoGlobals), serializers._json_value, incremental=False),
        serializers.Entry("PickleSerializer(allow-list)", lambda: PickleSerializer(unpickler_cls=AllowList), objects, incremental=False),
    ]


def _oneshot(entry: serializers.Entry, data: bytes) -> str:
    from easynetwork.exceptions import DatagramProtocolParseError

    proto = entry.datagram_protocol()
    try:
        proto.build_packet_from_datagram(data)
        return "pkt"
    except DatagramProtocolParseError:
        return "err"
    except _Hang:
        return "hang"
    except BaseException as exc:  # noqa: BLE001
        return "crash:" + type(exc).__name__


def _incremental(entry: serializers.Entry, data: bytes, buffered: bool, rng: random.Random) -> list[dict[str, Any]]:
    from easynetwork.exceptions import StreamProtocolParseError
    from easynetwork.lowlevel._stream import BufferedStreamDataConsumer, StreamDataConsumer

    events: list[dict[str, Any]] = []
    consumer: Any = BufferedStreamDataConsumer(entry.buffered_protocol(), rng.choice([1, 7, 64, 4096])) if buffered else StreamDataConsumer(entry.stream_protocol())

    def held() -> int:
        if not buffered:
            return len(consumer.get_buffer())
        return -1

    def step(arg: Any, n: int) -> str:
        try:
            consumer.next(arg)
            k = "pkt"
        except StopIteration:
            k = "more"
        except StreamProtocolParseError as exc:
            k = "err"
            if not isinstance(bytes(exc.remaining_data), bytes):
                k = "crash:remaining_data"
        except _Hang:
            k = "hang"
        except BaseException as exc:  # noqa: BLE001
            k = "crash:" + type(exc).__name__ + ":" + str(getattr(exc, "__cause__", ""))[:40].replace(" ", "_")
        events.append({"ev": "feed", "n": n, "k": k, "r": held() if k in ("pkt", "err") else 0})
        return k

    pos = 0
    steps = 0
    max_steps = 2 * len(data) + 1000  # every step consumes >= 1 input byte, so this bound is never reached by a progressing parser
    while pos < len(data) and steps < max_steps:
        steps += 1
        n = min(rng.choice([1, 2, 3, 7, 16, 64, 1024, 65536]), len(data) - pos)
        if buffered:
            try:
                with memoryview(consumer.get_write_buffer()) as view:
                    n = min(n, view.nbytes)
                    view[:n] = data[pos : pos + n]
            except _Hang:
                events.append({"ev": "feed", "n": 0, "k": "hang", "r": 0})
                break
            except BaseException as exc:  # noqa: BLE001
                events.append({"ev": "feed", "n": 0, "k": "crash:get_write_buffer:" + type(exc).__name__, "r": 0})
                break
            k = step(n, n)
        else:
            k = step(data[pos : pos + n], n)
        pos += n
        if k.startswith(("crash", "hang")):
            break
        drains = 0
        while k in ("pkt", "err") and drains < max_steps:
            drains += 1
            k = step(None, 0)
            if k == "more":
                events.pop()  # next(None) with nothing deliverable is not a parse step
        if k.startswith(("crash", "hang")):
            break
    if steps >= max_steps:
        events.append({"ev": "feed", "n": 0, "k": "no-progress", "r": 0})
    return events


def run(chk: Check) -> None:
    quick = chk.tier == "quick"
    rng = random.Random(chk.seed)
    chk.rule = (
        "inputs = seeded mutations of valid serializations (12 mutation operators), random bytes, and structurally extreme documents up to the limit, "
        "for every serializer entry x {one-shot, incremental, buffered}; distinct = distinct (entry, mode, input bytes); non-trivial = inputs that differ "
        "from a valid serialization (measured: the one-shot outcome is recorded for each)"
    )
    if not _model(chk):
        return
    ents = serializers.entries() + _restricted_pickle_entries()
    ents = [e for e in ents if e.name != "PickleSerializer"]  # unrestricted pickle executes what it reads: fuzzed through the restricted unpickler only
    rec: list[dict[str, Any]] = []
    nmut = 25 if quick else 400
    old = signal.signal(signal.SIGALRM, _alarm)
    inputs_seen: set[tuple[str, bytes]] = set()
    n_nontrivial = 0
    nhangs = 0
    try:
        for e in ents:
            valid_stream = b""
            valid_one: list[bytes] = []
            for _ in range(3):
                p = e.gen(rng)
                proto = e.datagram_protocol()
                valid_one.append(proto.make_datagram(p))
                if e.incremental:
                    valid_stream += b"".join(e.stream_protocol().generate_chunks(p))
            fuzz: list[bytes] = []
            for v in valid_one + ([valid_stream] if valid_stream else []):
                fuzz += mutate.mutations(v, rng, nmut)
            if "allow-list" in e.name:
                for _ in range(6 if quick else 40):
                    fuzz += mutate.single_byte_sweep(e.datagram_protocol().make_datagram(e.gen(rng)))
            if "JSON" in e.name or "Line" in e.name or "Base64" in e.name or "AutoSep" in e.name:
                fuzz += mutate.extreme_inputs(rng, 65536) if (not quick or "JSON" in e.name) else mutate.extreme_inputs(rng, 65536)[:3]
            for data in fuzz:
                key = (e.name, data)
                if key in inputs_seen:
                    continue
                inputs_seen.add(key)
                if nhangs >= 6:
                    break  # the verdict is there: no need to sit out the watchdog on every further input
                try:
                    # (the watchdog is one-shot: armed again before every parse run, a run that hangs has used it up)
                    signal.setitimer(signal.ITIMER_REAL, 20)
                    k = _oneshot(e, data)
                    evs = [{"ev": "oneshot", "n": len(data), "k": k, "r": 0}]
                    if k == "err":
                        n_nontrivial += 1
                    nhangs += k == "hang"
                    rec.append({"events": evs, "meta": f"{e.name} one-shot input={data[:50]!r}... len={len(data)}"})
                    if e.incremental:
                        signal.setitimer(signal.ITIMER_REAL, 20)
                        rec.append({"events": _incremental(e, data, False, rng), "meta": f"{e.name} incremental input={data[:50]!r}... len={len(data)}"})
                        nhangs += any(x["k"] == "hang" for x in rec[-1]["events"])
                        if e.buffered:
                            signal.setitimer(signal.ITIMER_REAL, 20)
                            rec.append({"events": _incremental(e, data, True, rng), "meta": f"{e.name} buffered input={data[:50]!r}... len={len(data)}"})
                            nhangs += any(x["k"] == "hang" for x in rec[-1]["events"])
                finally:
                    signal.setitimer(signal.ITIMER_REAL, 0)
    finally:
        signal.signal(signal.SIGALRM, old)
    rec = [t for t in rec if t["events"]]
    slim = [{"events": traces.uniform(t["events"], EVD)} for t in rec]
    res = traces.validate("ParseTotalTrace", slim, cfg_text=TRACE_CFG, parallel=12, chunk=1500)
    chk.traces += len(rec)
    chk.evaluations = len(rec)
    chk.distinct_extra = len(inputs_seen)
    chk.extra["fuzz"] = {
        "inputs": len(inputs_seen),
        "inputs_rejected_by_one_shot_parser": n_nontrivial,
        "parse_traces": len(rec),
        "parse_events": res.nevents,
        "rejected": len(res.rejected),
        "entries": [e.name for e in ents],
    }
    chk.sample({"meta": rec[7]["meta"], "events": rec[7]["events"][:6]}, cap=4)
    for idx, pos in sorted(res.rejected.items())[:40]:
        t = rec[idx]
        failing = t["events"][pos - 1] if 0 < pos <= len(t["events"]) else None
        kind = (failing or {}).get("k", "?")
        chk.violation(
            {"kind": "trace", "spec": "ParseTotal", "entry": t["meta"].split(" ")[0].split("(")[0], "outcome": kind.split(":")[1] if kind.startswith("crash:") and ":" in kind[6:] else kind.split(":")[0] if not kind.startswith("crash") else kind[6:]},
            f"parse step outside the allowed outcomes (event #{pos}: {failing}) -- {t['meta']}",
            {"kind": "parse_trace", "meta": t["meta"], "events": t["events"][:30]},
        )
    chk.assumptions += [
        "TLC decides every parse step against the outcome alphabet and the progress law; the input space itself is explored by the seeded fuzzer, not by TLC",
        "pickle is fuzzed through restricted unpicklers (find_class refuses everything, or everything but a short allow-list of harmless value classes whose constructors then run on corrupted arguments) so that hostile opcodes cannot execute anything; these unpicklers derive from the pure-Python implementation (pickle._Unpickler): the C one answers a corrupted LONG_BINPUT index by allocating a multi-gigabyte memo table (measured: 25 GB and 22 s for an 81-byte input, ending in UnpicklingError) which is the interpreter's doing and would endanger the run",
        "cbor / msgpack serializers are not importable offline",
    ]


def replay(data: dict[str, Any]) -> int:
    r = data["replay"]
    print(r.get("meta"))
    for i, e in enumerate(r.get("events", []), 1):
        print(i, e)
    return 0
