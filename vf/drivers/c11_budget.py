"""C11 - a timeout is a budget for the whole blocking operation.

Three specifications carry the property, each bound to the code by trace validation:
  * RecvEndpoint.tla - the endpoint receive loop: the timeout handed to every transport call must be the remaining budget
    (recomputed after every partial read), a zero timeout never waits, TimeoutError only when the budget is used up;
  * SendAll.tla      - _retry under the send loops: min(remaining, retry_interval) waits, recompute after every wait;
  * Budget.tla       - the whole client call (lock wait + selector waits + retries): TCPNetworkClient.recv_packet / send_packet /
    iter_received_packets and AsyncTCPNetworkClient.iter_received_packets, on a scripted socket / selector / lock with a fake clock
    (virtual time for the asynchronous iterator), every wait logged.
"""

from __future__ import annotations

import asyncio
import math
import os
import random
import selectors
import socket
import tempfile
from typing import Any

from .. import harness, tlc, traces, vloop, vsync
from ..common import Check
from . import c03_recv_endpoint, c04_send_all

LEVEL = "model_checking"
TRACE_CFG = "INIT TInit\nNEXT TNext\nCONSTANTS\n  Ts = {}\nCONSTRAINT Constr\nPOSTCONDITION Post\nCHECK_DEADLOCK FALSE\n"
EVD = {"ev": "", "e": 0, "kind": ""}


class ScriptedLock:
    """threading.Lock look-alike whose contention is scripted and measured on the fake clock."""

    def __init__(self, env: vsync.Env, rng: random.Random, contended: bool) -> None:
        self.env, self.rng, self.contended = env, rng, contended
        self.held = False

    def acquire(self, blocking: bool = True, timeout: float = -1) -> bool:
        if not self.contended:
            self.held = True
            return True
        if not blocking:
            return False
        if timeout is None or timeout < 0:
            e = self.rng.randint(0, 2)
            self.env.clock.now += e
            self.env.events.append({"ev": "wait", "e": e, "src": "lock"})
            self.contended = False
            self.held = True
            return True
        ok = self.rng.random() < 0.7
        e = self.rng.randint(0, int(timeout)) if ok else timeout
        self.env.clock.now += e
        self.env.events.append({"ev": "wait", "e": e, "src": "lock"})
        if ok:
            self.contended = False
            self.held = True
        return ok

    def release(self) -> None:
        self.held = False

    def __enter__(self) -> bool:
        return self.acquire()

    def __exit__(self, *a: Any) -> None:
        self.release()


class _LockHolder:
    def __init__(self, lock: ScriptedLock) -> None:
        self._lock = lock

    def get(self) -> ScriptedLock:
        return self._lock


def _client_scenario(seed: int) -> dict[str, Any]:
    from easynetwork.clients.tcp import TCPNetworkClient
    from easynetwork.protocol import StreamProtocol
    from easynetwork.serializers.line import StringLineSerializer

    rng = random.Random(seed)
    clock = vsync.FakeClock()
    env = vsync.Env(clock)
    a, b = harness.loopback_tcp_pair()
    sock = vsync.ScriptedSocket(a.family, a.type, a.proto, fileno=a.detach())
    sock.env = env
    sock.setblocking(False)
    op = rng.choice(["recv", "recv", "iter", "send"])
    T = rng.choice([None, 0, 0, 1, 2, 3, 5])
    ri = rng.choice([math.inf, 1.0, 2.0])
    orig_poll = selectors.PollSelector
    selectors.PollSelector = lambda: vsync.ScriptedSelector(env)  # type: ignore[misc,assignment]
    out_events: list[dict[str, Any]] = []
    problems: list[str] = []
    try:
        with vsync.patched_clock(clock):
            client = TCPNetworkClient(sock, StreamProtocol(StringLineSerializer()), retry_interval=ri, max_recv_size=rng.choice([1, 2, 8, 64]))
            contended = rng.random() < 0.4
            lock = ScriptedLock(env, rng, contended)
            try:
                setattr(client, "_TCPNetworkClient__receive_lock" if op != "send" else "_TCPNetworkClient__send_lock", _LockHolder(lock))
            except AttributeError:
                pass
            # scripts
            npk = rng.randint(1, 3)
            stream = "".join("pk%d\n" % i for i in range(npk)).encode()
            pos = 0
            while pos < len(stream):
                k = rng.randint(1, 4)
                if rng.random() < 0.5:
                    env.recv_script.append(rng.choice([("eagain",), ("eagain",), ("eintr",)]))
                env.recv_script.append(("data", stream[pos : pos + k]))
                pos += k
            for _ in range(rng.randint(0, 4)):
                env.send_script.append(rng.choice([("accept", 1), ("accept", 2), ("eagain",), ("eintr",), ("accept", 100)]))
            for _ in range(12):
                env.select_script.append(rng.choice([("ready", 0), ("ready", 1), ("ready", 1), ("ready", 2), ("timeout",), ("timeout",)]))
            t0 = clock.now
            ending = "?"
            ndeliv = 0
            try:
                if op == "recv":
                    client.recv_packet(timeout=T)
                    ending = "ok"
                elif op == "send":
                    client.send_packet("hello world", timeout=T)
                    ending = "ok"
                else:
                    for _pkt in client.iter_received_packets(timeout=T):
                        ndeliv += 1
                        env.events.append({"ev": "deliver"})
                        if ndeliv >= npk:
                            break
                    ending = "ok" if ndeliv >= npk else "timeout"
            except TimeoutError:
                ending = "timeout"
            except vsync.SpinDetected:
                ending = "spin"
            except Exception as exc:  # noqa: BLE001
                ending = "error:" + type(exc).__name__
            elapsed = clock.now - t0
            for e in env.events:
                if e["ev"] == "wait":
                    out_events.append({"ev": "wait", "e": int(e["e"])})
                elif e["ev"] == "deliver":
                    out_events.append({"ev": "deliver"})
            if op == "iter" and T is None and ending == "timeout":
                ending = "eof"  # script exhausted with an infinite timeout cannot happen: the select script always ends "ready"
            out_events.append({"ev": "ret", "kind": ending})
            if T is not None and elapsed > T + 1e-9:
                problems.append(f"{op}(timeout={T}) took {elapsed} on the fake clock")
            if op in ("recv", "send") and lock.held:
                # whoever comes next would wait for ever (or time out with the data at hand): the budget of the NEXT call is gone
                problems.append(f"{op}(timeout={T}) ended ({ending}) and left the client's lock taken")
            try:
                client.close()
            except Exception:  # noqa: BLE001
                pass
    finally:
        selectors.PollSelector = orig_poll  # type: ignore[misc]
        try:
            sock.close()
        except OSError:
            pass
        b.close()
    if problems:
        out_events.append({"ev": "problem"})
    return {
        "t": -1 if T is None else T,
        "events": traces.uniform(out_events, EVD),
        "meta": f"TCPNetworkClient.{op} timeout={T} retry_interval={ri} contended_lock={contended} seed={seed} ending={ending} elapsed={elapsed} problems={problems}",
    }


async def _async_iter_scenario(seed: int) -> dict[str, Any]:
    """AsyncClientRecvIterator: the timeout covers the whole iteration (virtual time)."""
    from easynetwork.clients.async_tcp import AsyncTCPNetworkClient
    from easynetwork.lowlevel.api_async.backend._asyncio.backend import AsyncIOBackend
    from easynetwork.protocol import StreamProtocol
    from easynetwork.serializers.line import StringLineSerializer

    rng = random.Random(seed)
    loop = asyncio.get_running_loop()
    a, b = harness.loopback_tcp_pair()
    T = rng.choice([0, 1, 2, 3, 5])
    client = AsyncTCPNetworkClient(a, StreamProtocol(StringLineSerializer()), backend=AsyncIOBackend())
    await client.wait_connected()
    npk = rng.randint(1, 3)
    times = sorted(rng.randint(0, 6) for _ in range(npk))
    fd = a.fileno()
    t0 = loop.time()
    assert isinstance(loop, vloop.VLoop)

    def writer(i: int) -> None:
        try:
            b.send(b"pk%d\n" % i)
        except OSError:
            return  # the scenario is over (iterator timed out, sockets closed)
        if i + 1 < npk:
            loop.call_at(t0 + times[i + 1], writer, i + 1)

    loop.call_at(t0 + times[0], writer, 0)
    del fd
    events: list[dict[str, Any]] = []
    last = t0
    n = 0
    # the library measures elapsed time with time.perf_counter: make it read the loop's virtual clock
    import time as _time

    orig_pc = _time.perf_counter
    _time.perf_counter = loop.time  # type: ignore[assignment]
    try:
        n, last = await _iterate(client, T, npk, loop, events, last)
    finally:
        _time.perf_counter = orig_pc  # type: ignore[assignment]
    now = loop.time()
    ending = "ok" if n >= npk else "timeout"
    if ending == "timeout":
        events.append({"ev": "wait", "e": int(round(now - last))})
    events.append({"ev": "ret", "kind": ending})
    await client.aclose()
    b.close()
    return {"t": T, "events": traces.uniform(events, EVD), "meta": f"AsyncTCPNetworkClient.iter_received_packets timeout={T} arrivals={times} seed={seed} ending={ending}"}


async def _iterate(client: Any, T: int, npk: int, loop: Any, events: list[dict[str, Any]], last: float) -> tuple[int, float]:
    n = 0
    async for _pkt in client.iter_received_packets(timeout=T):
        now = loop.time()
        events.append({"ev": "wait", "e": int(round(now - last))})
        events.append({"ev": "deliver"})
        last = now
        n += 1
        if n >= npk:
            break
    return n, last


def _tls_scenario(seed: int) -> dict[str, Any]:
    """Blocking SSLStreamTransport under StreamEndpoint.recv_packet(timeout): one TLS record that carries the packet reaches the socket
    in slices at scripted moments of the fake clock (every slice makes the socket readable although no plaintext is available yet:
    spurious readiness).  The peer is an ssl.SSLObject driven inline by the selector that the transport is given, so the run is
    single-threaded and deterministic; the handshake goes through the same selector."""
    import ssl

    from easynetwork.lowlevel.api_sync.endpoints.stream import StreamEndpoint
    from easynetwork.lowlevel.api_sync.transports.socket import SSLStreamTransport
    from easynetwork.protocol import StreamProtocol
    from easynetwork.serializers.line import StringLineSerializer

    from .. import tlspeer

    rng = random.Random(seed)
    clock = vsync.FakeClock()
    lib_sock, peer_raw = socket.socketpair()
    peer_raw.setblocking(False)
    inc, out = ssl.MemoryBIO(), ssl.MemoryBIO()
    lib_is_server = rng.random() < 0.5
    ctx = tlspeer.client_context() if lib_is_server else tlspeer.server_context()
    obj = ctx.wrap_bio(inc, out, server_side=not lib_is_server, server_hostname="localhost" if lib_is_server else None)
    state = {"hs_done": False}
    script: list[list[Any]] = []  # [gap, bytes] slices of ciphertext still to arrive
    waits: list[dict[str, Any]] = []
    data_phase = [False]

    def pump_peer() -> None:
        try:
            while True:
                chunk = peer_raw.recv(65536)
                if not chunk:
                    break
                inc.write(chunk)
        except BlockingIOError:
            pass
        if not state["hs_done"]:
            try:
                obj.do_handshake()
                state["hs_done"] = True
            except (ssl.SSLWantReadError, ssl.SSLWantWriteError):
                pass
        data = out.read()
        if data:
            peer_raw.sendall(data)

    class WorldSelector(selectors.BaseSelector):
        def __init__(self) -> None:
            self._real = selectors.PollSelector()
            self._keys: dict[Any, selectors.SelectorKey] = {}

        def register(self, fileobj: Any, events: int, data: Any = None) -> selectors.SelectorKey:
            key = self._real.register(fileobj, events, data)
            self._keys[fileobj] = key
            return key

        def unregister(self, fileobj: Any) -> selectors.SelectorKey:
            self._keys.pop(fileobj, None)
            return self._real.unregister(fileobj)

        def get_map(self) -> Any:
            return self._real.get_map()

        def close(self) -> None:
            self._real.close()

        def select(self, timeout: float | None = None) -> list[tuple[selectors.SelectorKey, int]]:
            for _ in range(50):
                pump_peer()
                ready = self._real.select(0)
                if ready:
                    if data_phase[0]:
                        waits.append({"ev": "wait", "e": 0})
                    return ready
                if not data_phase[0]:
                    continue
                break
            if not data_phase[0]:
                raise RuntimeError("handshake does not progress")
            if script:
                gap, piece = script[0]
                if timeout is None or gap <= timeout:
                    script.pop(0)
                    clock.now += gap
                    peer_raw.sendall(piece)
                    waits.append({"ev": "wait", "e": int(gap)})
                    return self._real.select(1.0)
                script[0][0] = gap - timeout
            if timeout is None:
                raise vsync.SpinDetected("nothing more will arrive")
            clock.now += timeout
            waits.append({"ev": "wait", "e": int(timeout)})
            return []

    T = rng.choice([None, 0, 1, 2, 3, 5, 8])
    ri = rng.choice([math.inf, 1.0, 2.0])
    problems: list[str] = []
    ending = "?"
    tr = None
    try:
        with vsync.patched_clock(clock):
            kw: dict[str, Any] = {"retry_interval": ri, "handshake_timeout": 1000, "shutdown_timeout": 0, "selector_factory": WorldSelector}
            if lib_is_server:
                tr = SSLStreamTransport(lib_sock, tlspeer.server_context(), server_side=True, **kw)
            else:
                tr = SSLStreamTransport(lib_sock, tlspeer.client_context(), server_hostname="localhost", **kw)
            for _ in range(5):
                pump_peer()  # session tickets and the like
            ep = StreamEndpoint(tr, StreamProtocol(StringLineSerializer()), max_recv_size=rng.choice([16, 1024, 65536]))
            # the record with the packet, cut in slices
            obj.write(b"packet-" + b"x" * rng.randint(0, 40) + b"\n")
            cipher = out.read()
            cuts = sorted(rng.sample(range(1, len(cipher)), min(len(cipher) - 1, rng.randint(0, 4))))
            pieces = [cipher[a:b] for a, b in zip([0] + cuts, cuts + [len(cipher)])]
            for piece in pieces:
                script.append([rng.choice([0, 1, 1, 2, 3]), piece])
            data_phase[0] = True
            t0 = clock.now
            try:
                ep.recv_packet(timeout=T)
                ending = "ok"
            except TimeoutError:
                ending = "timeout"
            except vsync.SpinDetected:
                ending = "spin"
            except Exception as exc:  # noqa: BLE001
                ending = "error:" + type(exc).__name__
            elapsed = clock.now - t0
            if T is not None and elapsed > T + 1e-9:
                problems.append(f"recv_packet(timeout={T}) took {elapsed} on the fake clock")
    except Exception as exc:  # noqa: BLE001
        ending = "setup_error:" + type(exc).__name__ + ":" + str(exc)[:60]
        elapsed = 0
    finally:
        data_phase[0] = False
        for s_ in (lib_sock, peer_raw):
            try:
                s_.close()
            except OSError:
                pass
        if tr is not None:
            try:
                tr.close()
            except Exception:  # noqa: BLE001
                pass
    events = list(waits)
    if ending == "ok":
        events.append({"ev": "deliver"})
    events.append({"ev": "ret", "kind": ending})
    if problems:
        events.append({"ev": "problem"})
    return {
        "t": -1 if T is None else T,
        "events": traces.uniform(events, EVD),
        "meta": f"SSLStreamTransport+StreamEndpoint.recv timeout={T} retry_interval={ri} role={'server' if lib_is_server else 'client'} seed={seed} ending={ending} elapsed={elapsed} problems={problems}",
    }


def _budget_model(chk: Check) -> bool:
    with tempfile.TemporaryDirectory(prefix="vf_c11_") as d:
        mod = tlc.write_mc_module(d, "MC_Budget", "Budget", {"MCTs": "{0 - 1, 0, 1, 3}", "Bounded": "waited <= 8"})
        cfg = os.path.join(d, "mc.cfg")
        tlc.write_cfg(cfg, constants={"Ts": "<- MCTs"}, invariants=["WithinBudget", "ZeroNeverWaits"], check_deadlock=False, constraints=["Bounded"])
        res = tlc.run_tlc(mod, cfg)
    chk.add_model("Budget", res, {"Ts": [-1, 0, 1, 3]}, "whole-call budget law")
    if not res.ok:
        chk.model_violation("Budget", res)
        return False
    return True


def _drip_scenario(op: str) -> list[str]:
    """A packet that never ends, dripping in one byte every 0.4 ms of (fake) time: recv_packet(timeout=0.3) gives up after 0.3 s -
    waits far below a millisecond are waits too, a thousand of them are charged like one long one."""
    from easynetwork.clients.tcp import TCPNetworkClient
    from easynetwork.protocol import StreamProtocol
    from easynetwork.serializers.line import StringLineSerializer

    clock = vsync.FakeClock()
    env = vsync.Env(clock)
    a, b = harness.loopback_tcp_pair()
    sock = vsync.ScriptedSocket(a.family, a.type, a.proto, fileno=a.detach())
    sock.env = env
    sock.setblocking(False)
    orig_poll = selectors.PollSelector
    selectors.PollSelector = lambda: vsync.ScriptedSelector(env)  # type: ignore[misc,assignment]
    problems: list[str] = []
    T = 0.3
    try:
        with vsync.patched_clock(clock):
            client = TCPNetworkClient(sock, StreamProtocol(StringLineSerializer()), retry_interval=math.inf, max_recv_size=64)
            for _ in range(2500):
                env.recv_script.append(("eagain",))
                env.recv_script.append(("data", b"x"))
                env.select_script.append(("ready", 0.0004))
            t0 = clock.now
            ending = "?"
            try:
                if op == "recv":
                    client.recv_packet(timeout=T)
                else:
                    for _p in client.iter_received_packets(timeout=T):
                        pass
                ending = "returned"
            except TimeoutError:
                ending = "timeout"
            except vsync.SpinDetected:
                ending = "spin"
            except Exception as exc:  # noqa: BLE001
                ending = "error:" + type(exc).__name__
            elapsed = clock.now - t0
            if op == "recv" and ending != "timeout":
                problems.append(f"recv_packet(timeout={T}) on a packet that never ends: {ending}")
            if elapsed > T + 0.01:
                problems.append(f"{op}(timeout={T}) went on for {elapsed:.3f} s of waiting, in steps of 0.4 ms")
            try:
                client.close()
            except Exception:  # noqa: BLE001
                pass
    finally:
        selectors.PollSelector = orig_poll  # type: ignore[misc]
        try:
            sock.close()
        except OSError:
            pass
        b.close()
    return problems


async def _zero_budget_iteration(kind: str, buffered: bool) -> list[str]:
    """The asynchronous iterators with a zero (or just exhausted) budget: what has already arrived is handed out, without waiting; with
    nothing there the iteration ends at once.  kind: "udp" (datagrams queued in the endpoint) | "tcp" (packets already in the client's
    own buffer: one read brought several)."""
    import socket

    from easynetwork.lowlevel.api_async.backend._asyncio.backend import AsyncIOBackend
    from easynetwork.protocol import BufferedStreamProtocol, DatagramProtocol, StreamProtocol
    from easynetwork.serializers.line import StringLineSerializer

    backend = AsyncIOBackend()
    loop = asyncio.get_running_loop()
    problems: list[str] = []
    if kind == "udp":
        from easynetwork.clients.async_udp import AsyncUDPNetworkClient

        a, b = harness.loopback_udp_pair()
        client: Any = AsyncUDPNetworkClient(a, DatagramProtocol(StringLineSerializer()), backend=backend)
        await client.wait_connected()
        for p in ("A", "B", "C"):
            b.send(p.encode())
        want = ["A", "B", "C"]
    else:
        from easynetwork.clients.async_tcp import AsyncTCPNetworkClient

        a, b = harness.loopback_tcp_pair()
        client = AsyncTCPNetworkClient(a, (BufferedStreamProtocol if buffered else StreamProtocol)(StringLineSerializer()), backend=backend)
        await client.wait_connected()
        b.sendall(b"first\nA\nB\nC\n")
        want = ["A", "B", "C"]
    try:
        for _ in range(20):
            await asyncio.sleep(0.001)  # everything has reached the client's side of the loop
        if kind == "tcp":
            with backend.timeout(5):
                if await client.recv_packet() != "first":
                    problems.append("unexpected first packet")
        t0 = loop.time()
        got = [p async for p in client.iter_received_packets(timeout=0)]
        if got != want:
            problems.append(f"iter_received_packets(timeout=0) yielded {got}; {want} had already arrived")
        if loop.time() - t0 > 0.2:
            problems.append(f"iter_received_packets(timeout=0) took {loop.time() - t0:.2f}s")
        t0 = loop.time()
        got2 = [p async for p in client.iter_received_packets(timeout=0)]
        if got2 or loop.time() - t0 > 0.2:
            problems.append(f"with nothing left, iter_received_packets(timeout=0) yielded {got2} after {loop.time() - t0:.2f}s")
    finally:
        await client.aclose()
        a.close()
        b.close()
    return problems


def run(chk: Check) -> None:
    quick = chk.tier == "quick"
    rng = random.Random(chk.seed)
    chk.rule = (
        "traces = seeded scenarios with integer fake time: (a) endpoint receive loop on a scripted transport (drip-feeding, bursts, timeouts None/0/finite), "
        "(b) send loops on a scripted socket (EAGAIN/EINTR/partial writes, retry_interval in {inf,1,2}, spurious readiness), (c) whole client calls incl. lock "
        "contention and the iterators; distinct = distinct event sequences"
    )
    ok = c03_recv_endpoint.model(chk, quick) and _budget_model(chk)
    if not ok:
        return
    for kind, buffered in (("udp", False), ("tcp", False), ("tcp", True)):
        problems = asyncio.run(_zero_budget_iteration(kind, buffered))
        chk.traces += 1
        chk.distinct.add(("zero_budget_iteration", kind, buffered))
        if problems:
            chk.violation(
                {"kind": "zero_budget_iteration", "client": kind},
                f"asynchronous {'UDP' if kind == 'udp' else 'TCP'} client{' (buffered path)' if buffered else ''}: {problems}",
                {"kind": "zero_budget_iteration", "client": kind, "buffered": buffered},
            )
    for op in ("recv", "iter"):
        problems = _drip_scenario(op)
        chk.traces += 1
        chk.distinct.add(("drip", op))
        if problems:
            chk.violation({"kind": "drip", "op": op}, f"blocking TCP client, {op}: {problems}", {"kind": "drip", "op": op})
    # (a) endpoint receive loop
    rec = []
    for i in range(800 if quick else 10000):
        seed = chk.seed * 9176 + 500000 + i
        rec.append(c03_recv_endpoint.run_sync(seed, False))
        rec.append(c03_recv_endpoint.run_sync(seed, True))
    c03_recv_endpoint.validate(chk, rec, "recv_loop_traces")
    # (b) send loops
    rec2 = []
    for i in range(1200 if quick else 15000):
        target = rng.choice(["transport", "transport-nosendmsg", "endpoint"])
        rec2.append(c04_send_all._scenario(target, list(rng.choice(c04_send_all.CHUNKSEQS)), rng.choice([1, 2, 1024]), rng.choice([0, 1, 2, 3, 5]), rng.choice([0, 1, 2]), rng))
    slim2 = [{"par": t["par"], "events": t["events"]} for t in rec2]
    res2 = traces.validate("SendAllTrace", slim2, cfg_text=c04_send_all.TRACE_CFG, parallel=12, chunk=800)
    chk.traces += len(rec2)
    chk.states += res2.tlc.distinct
    chk.transitions += res2.tlc.generated
    chk.extra["send_loop_traces"] = {"traces": len(rec2), "rejected": len(res2.rejected), "timeouts": sum(1 for t in rec2 if t["events"][-1]["ev"] == "timeout")}
    for idx, pos in sorted(res2.rejected.items())[:20]:
        t = rec2[idx]
        chk.violation(
            {"kind": "trace", "spec": "SendAll", "mode": t["par"]["mode"]},
            f"send loop budget: not a behaviour of SendAll (event #{pos}) -- {t['meta']}",
            {"kind": "sendall_trace", "trace": slim2[idx], "meta": t["meta"]},
        )
    # (c) whole client calls
    rec3 = [_client_scenario(chk.seed * 31337 + i) for i in range(1500 if quick else 20000)]
    rec3 += [vloop.run(lambda: _async_iter_scenario(chk.seed * 7 + i)) for i in range(150 if quick else 2000)]
    rec_tls = [_tls_scenario(chk.seed * 911 + i) for i in range(150 if quick else 2500)]
    chk.extra["tls_blocking_traces"] = {"traces": len(rec_tls), "endings": {k: sum(1 for t in rec_tls if t["events"][-1]["kind"] == k or (t["events"][-1]["ev"] == "problem" and k == "problem")) for k in ("ok", "timeout", "problem")}}
    rec3 += rec_tls
    slim3 = [{"t": t["t"], "events": t["events"]} for t in rec3]
    res3 = traces.validate("BudgetTrace", slim3, cfg_text=TRACE_CFG, parallel=8, chunk=1000)
    chk.traces += len(rec3)
    chk.states += res3.tlc.distinct
    chk.transitions += res3.tlc.generated
    for t in rec2 + rec3:
        chk.distinct.add(t["meta"])
    chk.sample({"meta": rec3[2]["meta"], "events": [(e["ev"], e["e"], e["kind"]) for e in rec3[2]["events"]]}, cap=5)
    endings: dict[str, int] = {}
    for t in rec3:
        endings[t["events"][-1]["kind"] or t["events"][-1]["ev"]] = endings.get(t["events"][-1]["kind"] or t["events"][-1]["ev"], 0) + 1
    chk.extra["client_call_traces"] = {"traces": len(rec3), "rejected": len(res3.rejected), "endings": endings}
    for idx, pos in sorted(res3.rejected.items())[:30]:
        t = rec3[idx]
        failing = t["events"][pos - 1] if 0 < pos <= len(t["events"]) else None
        chk.violation(
            {"kind": "trace", "spec": "Budget", "target": t["meta"].split()[0]},
            f"client call budget: not a behaviour of Budget (event #{pos}: {failing}) -- {t['meta']} events={[(e['ev'], e['e'], e['kind']) for e in t['events']]}",
            {"kind": "budget_trace", "trace": slim3[idx], "meta": t["meta"]},
        )
    chk.evaluations = chk.traces
    chk.assumptions += [
        "processing time is zero on the fake clock: 'at most T plus bounded processing time' becomes 'at most T'",
        "the blocking TLS transport is driven through the selector_factory it accepts: the peer is an ssl.SSLObject pumped inline, its record arrives in scripted slices",
    ]


def replay(data: dict[str, Any]) -> int:
    r = data["replay"]
    print(r.get("meta"))
    for i, e in enumerate(r["trace"]["events"], 1):
        print(i, e)
    return 0
