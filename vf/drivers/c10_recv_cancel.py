"""C10 - cancelling or timing out a receive never loses data.

RecvCancel.tla models StreamReaderBufferedProtocol.receive_data / receive_data_into together with the iteration structure of
the event loop.  TLC checks byte conservation over every order of {read-ready handle, cancellation handle, task step} within
and across iterations.  Every behaviour (edge cover of the state graph) is then realised on the real protocol + real selector
transport: the harness steps a real (virtual-time, gated) event loop one iteration at a time, places the cancellation either as a
call_soon handle (runs before the I/O handle) or as a due timer (runs after it), decides whether the poll sees the readable
socket, and compares delivered bytes / protocol buffer / kernel buffer / outcomes with the specification after every iteration.
Part 2 pushes random schedules of cancellations through the upper layers (endpoint recv_packet on both paths, client iterator,
blocking endpoint with TimeoutError) with the StreamAbs trace specification as oracle.
"""

from __future__ import annotations

import asyncio
import os
import socket
import tempfile
from typing import Any

from .. import graph, tlc, vloop
from ..common import Check

LEVEL = "model_checking"


def _cfg(path: str, maxbytes: int, b: int, maxcalls: int, maxcancels: int, into: bool, fixed: bool, double: bool = False) -> dict[str, str]:
    consts = {
        "Double": "TRUE" if double else "FALSE",
        "MaxBytes": str(maxbytes),
        "B": str(b),
        "MaxCalls": str(maxcalls),
        "MaxCancels": str(maxcancels),
        "Into": "TRUE" if into else "FALSE",
        "Fixed": "TRUE" if fixed else "FALSE",
    }
    tlc.write_cfg(path, constants=consts, invariants=["NoLoss", "Conservation", "InOrder"], check_deadlock=False)
    return consts


class Impl:
    """The real adapter on a socketpair, stepped one event-loop iteration at a time."""

    def __init__(self, b: int, maxcalls: int, into: bool) -> None:
        from easynetwork.lowlevel.api_async.backend._asyncio.backend import AsyncIOBackend

        self.loop = vloop.VLoop()
        self.sock, self.peer = socket.socketpair()
        self.sock.setblocking(False)
        self.peer.setblocking(False)
        self.b, self.maxcalls, self.into = b, maxcalls, into
        self.delivered: list[int] = []
        self.outcomes: list[str] = []
        asyncio.set_event_loop(self.loop)
        self.adapter = self.loop.run_until_complete(AsyncIOBackend().wrap_stream_socket(self.sock))
        self.proto = getattr(self.adapter, "_AsyncioTransportStreamSocketAdapter__protocol", None)
        self.fd = self.sock.fileno()
        asyncio.events._set_running_loop(self.loop)
        self.task = self.loop.create_task(self._reader(maxcalls))
        self.sent: list[int] = []

    async def _reader(self, ncalls: int) -> None:
        buf = bytearray(self.b)
        for _ in range(ncalls):
            try:
                if self.into:
                    n = await self.adapter.recv_into(buf)
                    data = bytes(buf[:n])
                else:
                    data = await self.adapter.recv(self.b)
                self.delivered.extend(data)
                self.outcomes.append("data")
            except asyncio.CancelledError:
                self.outcomes.append("cancelled")

    def peer_write(self, n: int) -> None:
        new = [len(self.sent) + i for i in range(1, n + 1)]
        self.peer.send(bytes(new))
        self.sent.extend(new)

    def cancel_soon(self) -> None:
        self.loop.call_soon(self.task.cancel)

    def iteration(self, seen: bool, timer: bool, dbl: bool = False) -> None:
        if seen:
            self.loop.open_gate(self.fd)
        else:
            self.loop.close_gate(self.fd)
        if timer:
            self.loop.call_at(self.loop.time(), self.task.cancel)
        if not self.loop._ready and not timer and not (seen and self.kernel()):  # type: ignore[attr-defined]
            raise AssertionError("the real loop has nothing to run although the specification has a ready handle")
        if not self.loop._ready:  # type: ignore[attr-defined]
            self.loop.call_soon(lambda: None)  # never let select() block: the specification decides what is visible
        self.loop._run_once()  # type: ignore[attr-defined]

    def kernel(self) -> int:
        try:
            return len(self.sock.recv(1 << 16, socket.MSG_PEEK))
        except BlockingIOError:
            return 0

    def project(self) -> dict[str, Any]:
        size = getattr(self.proto, "_get_read_buffer_size", None)
        return {
            "delivered": tuple(self.delivered),
            **({"internal_len": size()} if size is not None else {}),
            "kernel_len": self.kernel(),
            "outcomes": tuple(self.outcomes),
            "finished": self.task.done(),
        }

    def drain_rest(self) -> list[int]:
        """After the behaviour: keep reading (no more cancellations) until nothing more arrives."""
        self.loop.open_gate(self.fd)
        rest: list[int] = []

        async def more() -> None:
            while len(self.delivered) + len(rest) < len(self.sent):
                data = await asyncio.wait_for(self.adapter.recv(1024), 5)
                if not data:
                    break
                rest.extend(data)

        if not self.task.done():
            # let the reader finish its remaining calls first (data is available or will never come)
            for _ in range(50):
                if self.task.done():
                    break
                if not self.loop._ready and not self.kernel():  # type: ignore[attr-defined]
                    break
                if not self.loop._ready:  # type: ignore[attr-defined]
                    self.loop.call_soon(lambda: None)
                self.loop._run_once()  # type: ignore[attr-defined]
            if not self.task.done():
                self.task.cancel()
                for _ in range(5):
                    self.loop.call_soon(lambda: None)
                    self.loop._run_once()  # type: ignore[attr-defined]
        asyncio.events._set_running_loop(None)
        try:
            self.loop.run_until_complete(more())
        except (asyncio.TimeoutError, vloop.VirtualDeadlock, OSError, RuntimeError):
            pass
        return rest

    def close(self) -> None:
        asyncio.events._set_running_loop(None)
        try:
            if not self.task.done():
                self.task.cancel()
            tr = getattr(self.adapter, "_AsyncioTransportStreamSocketAdapter__transport", None)
            if tr is not None:
                tr.abort()
            self.loop.run_until_complete(asyncio.sleep(0))
            self.loop.run_until_complete(asyncio.sleep(0))
        except BaseException:  # noqa: BLE001
            pass
        finally:
            self.task._log_destroy_pending = False  # type: ignore[attr-defined]
            asyncio.set_event_loop(None)
            self.loop.close()
            self.sock.close()
            self.peer.close()


class DirectImpl(Impl):
    """The same protocol object, fed through the asyncio.BufferedProtocol callbacks by the harness (no socket): lets a transport deliver
    two data callbacks within one iteration, which proactor / fed-buffer transports do and the selector transport never does."""

    def __init__(self, b: int, maxcalls: int, into: bool) -> None:
        from easynetwork.lowlevel.api_async.backend._asyncio.stream.socket import StreamReaderBufferedProtocol

        self.loop = vloop.VLoop()
        self.b, self.maxcalls, self.into = b, maxcalls, into
        self.delivered = []
        self.outcomes = []
        self.sent = []
        self.kbuf = bytearray()
        asyncio.set_event_loop(self.loop)
        asyncio.events._set_running_loop(self.loop)

        class StubTransport(asyncio.Transport):
            def is_closing(self) -> bool:
                return False

            def pause_reading(self) -> None:
                pass

            def resume_reading(self) -> None:
                pass

            def get_extra_info(self, name: str, default: Any = None) -> Any:
                return default

        self.proto = StreamReaderBufferedProtocol(loop=self.loop)
        self.proto.connection_made(StubTransport())
        proto = self.proto

        class Adapter:
            async def recv(self, n: int) -> bytes:
                return await proto.receive_data(n)

            async def recv_into(self, buf: Any) -> int:
                return await proto.receive_data_into(buf)

        self.adapter = Adapter()
        self.sock = self.peer = None
        self.fd = -1
        self.task = self.loop.create_task(self._reader(maxcalls))

    def peer_write(self, n: int) -> None:
        new = [len(self.sent) + i for i in range(1, n + 1)]
        self.kbuf += bytes(new)
        self.sent.extend(new)

    def _read_ready(self) -> None:
        if not self.kbuf:
            return
        with memoryview(self.proto.get_buffer(-1)) as buf:
            n = min(len(buf), len(self.kbuf))
            buf[:n] = self.kbuf[:n]
        del self.kbuf[:n]
        self.proto.buffer_updated(n)

    def iteration(self, seen: bool, timer: bool, dbl: bool = False) -> None:
        if seen and self.kbuf:
            self.loop.call_soon(self._read_ready)
            if dbl:
                self.loop.call_soon(self._read_ready)
        if timer:
            self.loop.call_soon(self.task.cancel)
        if not self.loop._ready:  # type: ignore[attr-defined]
            raise AssertionError("the real loop has nothing to run although the specification has a ready handle")
        self.loop._run_once()  # type: ignore[attr-defined]

    def kernel(self) -> int:
        return len(self.kbuf)

    def drain_rest(self) -> list[int]:
        rest: list[int] = []
        for _ in range(100):
            if self.task.done():
                break
            if self.kbuf:
                self.loop.call_soon(self._read_ready)
            if not self.loop._ready:  # type: ignore[attr-defined]
                break
            self.loop._run_once()  # type: ignore[attr-defined]
        if not self.task.done():
            self.task.cancel()
            for _ in range(5):
                self.loop.call_soon(lambda: None)
                self.loop._run_once()  # type: ignore[attr-defined]
        asyncio.events._set_running_loop(None)

        async def more() -> None:
            while len(self.delivered) + len(rest) < len(self.sent):
                self._read_ready()
                data = await asyncio.wait_for(self.adapter.recv(1024), 5)
                if not data:
                    break
                rest.extend(data)

        try:
            self.loop.run_until_complete(more())
        except (asyncio.TimeoutError, vloop.VirtualDeadlock, OSError, RuntimeError):
            pass
        return rest

    def close(self) -> None:
        asyncio.events._set_running_loop(None)
        try:
            if not self.task.done():
                self.task.cancel()
            for _ in range(10):
                if self.task.done():
                    break
                self.loop.call_soon(lambda: None)
                asyncio.events._set_running_loop(self.loop)
                try:
                    self.loop._run_once()  # type: ignore[attr-defined]
                finally:
                    asyncio.events._set_running_loop(None)
        except BaseException:  # noqa: BLE001
            pass
        finally:
            self.task._log_destroy_pending = False  # type: ignore[attr-defined]
            asyncio.set_event_loop(None)
            self.loop.close()


def _spec_projection(st: dict[str, Any]) -> dict[str, Any]:
    return {
        "delivered": tuple(st["delivered"]),
        "internal_len": len(st["internal"]),
        "kernel_len": len(st["kernel"]),
        "outcomes": tuple(st["outcomes"]),
        "finished": st["tst"] == "finished",
    }


def _replay(chk: Check, g: graph.Graph, paths: list[tuple[int, graph.Path]], b: int, maxcalls: int, into: bool, label: str, direct: bool = False) -> int:
    n_iter = 0
    for _root, path in paths:
        impl = (DirectImpl if direct else Impl)(b, maxcalls, into)
        done: list[str] = []
        verdict: tuple[str, list[str]] | None = None
        try:
            i = 0
            while i < len(path):
                action, args, dst = path[i]
                done.append(f"{action}({', '.join(map(str, args))})")
                if action == "PeerWrite":
                    impl.peer_write(args[0])
                    i += 1
                    continue
                if action == "CancelSoon":
                    impl.cancel_soon()
                    i += 1
                    continue
                if action == "BeginIter":
                    ntodo = g.states[dst]["ntodo"]
                    # the Run* actions of this batch must follow; a path may end in the middle of a batch: run it anyway
                    j = i + 1
                    last = dst
                    while j < len(path) and path[j][0].startswith("Run") and g.states[last]["ntodo"] > 0:
                        done.append(path[j][0])
                        last = path[j][2]
                        j += 1
                    complete = g.states[last]["ntodo"] == 0
                    try:
                        impl.iteration(bool(args[0]), bool(args[1]), bool(args[2]) if len(args) > 2 else False)
                    except (AssertionError, vloop.VirtualDeadlock) as exc:
                        verdict = (f"iteration failed: {exc}", ["loop"])
                        break
                    n_iter += 1
                    if complete:
                        got, want = impl.project(), _spec_projection(g.states[last])
                        bad = [k for k in got if got[k] != want[k]]
                        if bad:
                            verdict = ("; ".join(f"{k}: impl={got[k]!r} spec={want[k]!r}" for k in bad), sorted(bad))
                            break
                    else:
                        break  # partial batch at the end of the path: nothing to compare
                    del ntodo
                    i = j
                    continue
                # a Run* without its BeginIter cannot start a path segment (paths start at Init: ntodo = 0)
                raise RuntimeError(f"unexpected action order: {done}")
            if verdict is None:
                rest = impl.drain_rest()
                allbytes = impl.delivered + rest
                if allbytes != impl.sent:
                    verdict = (f"after draining: delivered+rest={allbytes} but the peer sent {impl.sent}", ["conservation"])
        finally:
            impl.close()
        chk.traces += 1
        chk.distinct.add((label, tuple(done)))
        if verdict is not None:
            lost_kind = "bytes_lost" if ("conservation" in verdict[1] or "delivered" in verdict[1] or "internal_len" in verdict[1]) else "divergence"
            chk.violation(
                {"kind": "replay", "target": "StreamReaderBufferedProtocol", "api": "recv_into" if into else "recv", "what": lost_kind},
                f"{label}: real protocol diverges from RecvCancel after {' '.join(done)}: {verdict[0]}",
                {"kind": "recvcancel_path", "into": into, "b": b, "maxcalls": maxcalls, "path": done},
            )
        elif any(a.startswith("BeginIter") and a.endswith("TRUE)") for a in done) or "CancelSoon()" in done:
            chk.sample({"target": label, "behaviour": done}, cap=4)
    return n_iter


def run_protocol(chk: Check) -> None:
    quick = chk.tier == "quick"
    with tempfile.TemporaryDirectory(prefix="vf_c10_") as d:
        # the design as the code had it (documentation of F4): must violate conservation
        cfg0 = os.path.join(d, "old.cfg")
        c0 = _cfg(cfg0, 3, 2, 3, 1, True, False)
        res0 = tlc.run_tlc("RecvCancel", cfg0)
        chk.extra["unfixed_design_counterexample"] = {
            "constants": c0,
            "violation": res0.violation,
            "trace": [s["action"] for s in res0.trace],
            "note": "RecvCancel with Fixed=FALSE (routing as before the repair) loses bytes: the model is sensitive to the defect",
        }
        if res0.ok:
            chk.machinery_errors.append("RecvCancel with Fixed=FALSE should violate NoLoss (model lost its sensitivity)")
        for into in (True, False):
            cfg = os.path.join(d, f"mc_{into}.cfg")
            consts = _cfg(cfg, 3 if quick else 4, 2, 3 if quick else 4, 2, into, True)
            res = tlc.run_tlc("RecvCancel", cfg, coverage=True)
            chk.add_model(f"RecvCancel[{'recv_into' if into else 'recv'}]", res, consts, "NoLoss, Conservation, InOrder in every state")
            if not res.ok:
                chk.model_violation("RecvCancel", res, consts)
                return
            cfg2 = os.path.join(d, f"g_{into}.cfg")
            consts2 = _cfg(cfg2, 4 if quick else 5, 2, 3 if quick else 4, 2, into, True)
            g, _ = graph.dump_graph("RecvCancel", cfg2)
            paths = graph.edge_cover_paths(g, seed=chk.seed, max_len=80)
            if quick and len(paths) > 2500:
                import random

                paths = random.Random(chk.seed).sample(paths, 2500)
            n = _replay(chk, g, paths, 2, 3 if quick else 4, into, f"protocol.{'receive_data_into' if into else 'receive_data'}")
            if into:
                # two data callbacks within one iteration (hand-fed protocol)
                cfg3 = os.path.join(d, "g_double.cfg")
                consts3 = _cfg(cfg3, 4 if quick else 5, 2, 3, 1 if quick else 2, True, True, double=True)
                g3, res3 = graph.dump_graph("RecvCancel", cfg3)
                chk.add_model("RecvCancel[recv_into,double callbacks]", res3, consts3, "NoLoss, Conservation, InOrder")
                paths3 = graph.edge_cover_paths(g3, seed=chk.seed, max_len=80)
                if quick and len(paths3) > 2500:
                    import random

                    paths3 = random.Random(chk.seed).sample(paths3, 2500)
                n3 = _replay(chk, g3, paths3, 2, 3, True, "protocol.receive_data_into (hand-fed, double callbacks)", direct=True)
                chk.extra["replay_double_callbacks"] = {"graph_states": len(g3.states), "graph_edges": g3.nedges, "behaviours": len(paths3), "iterations_compared": n3, "constants": consts3}
            chk.extra[f"replay_{'into' if into else 'copy'}"] = {
                "graph_states": len(g.states),
                "graph_edges": g.nedges,
                "behaviours": len(paths),
                "iterations_compared": n,
                "constants": consts2,
            }


def run(chk: Check) -> None:
    chk.rule = (
        "behaviours = root-to-leaf tours covering every edge of the RecvCancel state graph (peer writes, cancellation placed before/after the "
        "read-ready handle or in another iteration, poll sees / does not see the socket), realised on the real protocol one loop iteration at a "
        "time; upper layers: seeded random cancellation schedules; distinct = distinct action sequences"
    )
    run_protocol(chk)
    from . import c10_layers

    c10_layers.run(chk)
    chk.assumptions += [
        "the event loop is CPython's selector loop: per iteration I/O handles are queued before due timers, handles scheduled during an "
        "iteration run in the next one; the harness calls loop._run_once() to step it",
        "data that arrives between the poll and recv_into is equivalent to data that arrived before the poll",
    ]


def replay(data: dict[str, Any]) -> int:
    print(data["replay"])
    return 0
