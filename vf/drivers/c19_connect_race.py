"""C19 - connection racing returns one socket and leaks none.

ConnectRace.tla (staggered race over N addresses, per-attempt socket life cycle, winner / scope cancellation, external
cancellation) is model-checked; the real _staggered_race_connection_impl is then driven with a scripted resolver (connect attempts
complete when the harness says so, with the outcome it chooses; bind failures scripted in the socket class), the stagger delay in
virtual time and an external cancellation at a random moment.  Every socket the library creates is a recording subclass, so the
number of open sockets is known at every event; the logs are validated by TLC against ConnectRaceTrace.  /proc/self/fd is compared
before and after as an independent leak oracle.
"""

from __future__ import annotations

import asyncio
import errno
import os
import random
import socket
import tempfile
from typing import Any

from .. import harness, tlc, traces, vloop
from ..common import Check

LEVEL = "model_checking"
TRACE_CFG = "INIT TInit\nNEXT TNext\nCONSTANTS\n  Ns = {}\nCONSTRAINT Constr\nPOSTCONDITION Post\nCHECK_DEADLOCK FALSE\n"
EVD = {"ev": "", "i": 0, "nopen": 0, "which": 0}
DELAY = 0.25


def _model(chk: Check, quick: bool) -> bool:
    with tempfile.TemporaryDirectory(prefix="vf_c19_") as d:
        cfg = os.path.join(d, "mc.cfg")
        consts = {"Ns": "{1, 2, 3, 4}" if quick else "{1, 2, 3, 4, 5}"}
        tlc.write_cfg(
            cfg,
            constants=consts,
            invariants=["OneSocketNoLeak", "AtMostOneConnected", "ErrorMeansAllFailed"],
            properties=["WinnerIsFirstFinisher", "Terminates"],
            check_deadlock=True,
        )
        res = tlc.run_tlc("ConnectRace", cfg, coverage=True)
    chk.add_model("ConnectRace", res, consts, "all completion orders/outcomes, bind failures, external cancellation at every step; no-leak invariants + termination")
    if not res.ok:
        chk.model_violation("ConnectRace", res, consts)
        return False
    return True


def _nfds() -> int:
    return len(os.listdir("/proc/self/fd"))


async def _scenario(seed: int) -> dict[str, Any]:
    import easynetwork.lowlevel.api_async.backend._common.dns_resolver as mod
    from easynetwork.lowlevel.api_async.backend._asyncio.backend import AsyncIOBackend

    rng = random.Random(seed)
    loop = asyncio.get_running_loop()
    backend = AsyncIOBackend()
    n = rng.randint(1, 4)
    bindfail = {i for i in range(1, n + 1) if rng.random() < 0.15}
    use_local = bool(bindfail) or rng.random() < 0.2
    events: list[dict[str, Any]] = []
    created: list[Any] = []
    futs: dict[int, asyncio.Future[None]] = {}

    def nopen() -> int:
        return sum(1 for s in created if s.fileno() != -1)

    def log(evname: str, i: int = 0, which: int = 0) -> None:
        events.append({"ev": evname, "i": i, "nopen": nopen(), "which": which})

    class RecSocket(socket.socket):
        def __init__(self, *a: Any, **kw: Any) -> None:
            super().__init__(*a, **kw)
            created.append(self)
            self.idx = len(created)
            self.reached_connect = False

        def bind(self, addr: Any) -> None:
            if self.idx in bindfail:
                raise OSError(errno.EADDRNOTAVAIL, "Cannot assign requested address")
            # a successful bind is irrelevant for the race: do not consume real ports

        def close(self) -> None:
            was_open = self.fileno() != -1
            super().close()
            if was_open and not self.reached_connect:
                # abandoned before connect (bind failed / no local address of this family): one event per such attempt
                events.append({"ev": "bindfail", "i": self.idx, "nopen": -1, "which": 0})

    class SocketModuleProxy:
        def __getattr__(self, name: str) -> Any:
            return getattr(socket, name)

    proxy = SocketModuleProxy()
    proxy.socket = RecSocket  # type: ignore[attr-defined]

    class Resolver(mod.BaseAsyncDNSResolver):
        async def connect_socket(self, sock: Any, address: Any) -> None:
            i = sock.idx
            sock.reached_connect = True
            last_start[0] = loop.time()
            log("start", i)
            futs[i] = loop.create_future()
            await futs[i]

    # mixed families in a random order: the library interleaves them; attempts are identified by socket creation order
    fams = [rng.choice([socket.AF_INET, socket.AF_INET, socket.AF_INET6]) for _ in range(n)]
    remote = [
        (f, socket.SOCK_STREAM, 0, "", ("127.0.0.%d" % (k + 1), 9) if f == socket.AF_INET else ("::%d" % (k + 1), 9, 0, 0))
        for k, f in enumerate(fams)
    ]
    local = None
    if use_local:
        lf = rng.choice([[socket.AF_INET], [socket.AF_INET6], [socket.AF_INET, socket.AF_INET6], [socket.AF_INET6, socket.AF_INET]])
        local = [(f, socket.SOCK_STREAM, 0, "", ("127.0.0.1", 0) if f == socket.AF_INET else ("::1", 0, 0, 0)) for f in lf]
    fds_before = _nfds()
    orig = mod._socket
    mod._socket = proxy  # type: ignore[assignment]
    problems: list[str] = []
    seen_bindfail: set[int] = set()
    last_start: list[float | None] = [None]
    tick_info: dict[str, Any] = {"offset": -1, "scope_asked_first": False}

    def note_bindfails() -> None:
        # sockets that were created and closed without ever reaching connect_socket
        for s in created:
            if s.idx in bindfail and s.idx not in seen_bindfail and s.idx not in futs:
                seen_bindfail.add(s.idx)

    try:
        caller = loop.create_task(
            Resolver()._staggered_race_connection_impl(backend, remote_addrinfo=remote, local_addrinfo=local, happy_eyeballs_delay=DELAY)
        )
        ext_done = False
        logged_created = 0
        # one scenario in six: the external cancellation is a timer armed before the race starts (so that, at the tick, it is served
        # before the race's own deadline), due j stagger delays later plus k loop iterations; attempts stay pending until then
        pre_tick = rng.random() < 0.17 and not bindfail
        if pre_tick:
            kk = rng.choice([0, 1, 1, 2, 3])
            tick_info["offset"] = kk

            def pre_cancel(j: int) -> None:
                if j:
                    loop.call_soon(pre_cancel, j - 1)
                elif not caller.done():
                    tick_info["scope_asked_first"] = caller.cancelling() > 0
                    events.append({"ev": "ext_cancel", "i": 0, "nopen": -1, "which": 0})
                    caller.cancel()

            loop.call_at(loop.time() + DELAY * rng.choice([1, 2]), pre_cancel, kk)
            ext_done = True

        async def settle_and_log() -> None:
            nonlocal logged_created
            await harness.settle()
            # bind failures happen inside the library between two awaits: log them in creation order, before later starts
            # (events are kept ordered by socket index for attempts that never reached connect)

        # main driver loop
        steps = 0
        while not caller.done() and steps < 200:
            steps += 1
            await harness.settle()
            if caller.done():
                break
            if pre_tick and any(e["ev"] == "ext_cancel" for e in events):
                break  # cancelled, at rest, still pending: judged below
            pending = [i for i, f in futs.items() if not f.done()]
            choices: list[str] = []
            if pending:
                choices += ["ok", "err", "ok", "err"]
            choices.append("delay")
            if pre_tick and not any(e["ev"] == "ext_cancel" for e in events):
                choices = ["delay"]
            if not ext_done and rng.random() < 0.3:
                choices.append("ext")
            c = rng.choice(choices)
            if c in ("ok", "err"):
                i = rng.choice(pending)
                events.append({"ev": c, "i": i, "nopen": -1, "which": 0})
                if c == "ok":
                    futs[i].set_result(None)
                else:
                    futs[i].set_exception(ConnectionRefusedError(errno.ECONNREFUSED, "refused"))
                if not ext_done and rng.random() < 0.25:
                    # the caller is cancelled a few loop iterations after the completion, before the race has settled
                    for _ in range(rng.randint(0, 4)):
                        await asyncio.sleep(0)
                    if not caller.done():
                        ext_done = True
                        events.append({"ev": "ext_cancel", "i": 0, "nopen": -1, "which": 0})
                        caller.cancel()
                await harness.settle()
                if not caller.done():
                    log("obs")
            elif c == "delay":
                if not ext_done and last_start[0] is not None and rng.random() < 0.35:
                    # the caller is cancelled k loop iterations after a stagger tick (the instant at which the race's own
                    # move_on_after scope around the wait for the current attempt expires and the next attempt is launched)
                    ext_done = True
                    k = rng.choice([0, 1, 1, 2, 3])
                    tick_info["offset"] = k

                    def cancel_after(j: int) -> None:
                        if j:
                            loop.call_soon(cancel_after, j - 1)
                        elif not caller.done():
                            tick_info["scope_asked_first"] = caller.cancelling() > 0
                            events.append({"ev": "ext_cancel", "i": 0, "nopen": -1, "which": 0})
                            caller.cancel()

                    loop.call_at(last_start[0] + DELAY, cancel_after, k)
                await asyncio.sleep(DELAY + 0.01)
            else:
                ext_done = True
                events.append({"ev": "ext_cancel", "i": 0, "nopen": -1, "which": 0})
                caller.cancel()
                await harness.settle()
                if not caller.done():
                    log("obs")
        await harness.settle()
        if not caller.done() and any(e["ev"] == "ext_cancel" for e in events):
            for _ in range(100):
                await asyncio.sleep(0)
            if not caller.done():
                # the caller was cancelled, the loop is at rest, and the race goes on (no action of the specification has this name)
                log("still_pending_after_cancel")
        if not caller.done():
            problems.append("the call never returned")
            caller.cancel()
            await harness.settle()
        which = 0
        ret: Any = None
        if caller.cancelled():
            which = -1
        elif caller.exception() is not None:
            if not isinstance(caller.exception(), BaseExceptionGroup):
                problems.append(f"unexpected exception {caller.exception()!r}")
            which = 0
        else:
            ret = caller.result()
            which = getattr(ret, "idx", -99)
        log("return", which=which)
        if ret is not None:
            if ret.fileno() == -1:
                problems.append("the returned socket is closed")
            ret.close()
        leaked = [s.idx for s in created if s.fileno() != -1]
        if leaked:
            problems.append(f"sockets still open at the end: {leaked}")
            for s in created:
                s.close()
    finally:
        mod._socket = orig
    if _nfds() != fds_before:
        problems.append(f"/proc/self/fd: {fds_before} descriptors before, {_nfds()} after")
    final = list(events)
    if problems:
        final.append({"ev": "problem", "i": 0, "nopen": 0, "which": 0})
    return {"n": n, "events": final, "problems": problems, "tick": tick_info, "meta": f"seed={seed} n={n}{' external cancel %d iteration(s) after a stagger tick' % tick_info['offset'] if tick_info['offset'] >= 0 else ''} families={['v4' if f == socket.AF_INET else 'v6' for f in fams]} bindfail={sorted(bindfail)} local={None if local is None else ['v4' if x[0] == socket.AF_INET else 'v6' for x in local]}"}


def _run_one(seed: int) -> dict[str, Any]:
    return vloop.run(lambda: _scenario(seed))  # type: ignore[no-any-return]


def run(chk: Check) -> None:
    quick = chk.tier == "quick"
    chk.rule = (
        "scenarios = seeded random scripts: 1-4 addresses, each connect completed by the harness (success / ECONNREFUSED) in a random order relative to "
        "the stagger delay (virtual time), scripted bind failures, external cancellation at a random step; distinct = distinct event sequences"
    )
    if not _model(chk, quick):
        return
    from ..common import pmap

    rec = pmap(_run_one, [chk.seed * 104729 + i for i in range(3000 if quick else 60000)])
    slim = [{"n": t["n"], "events": t["events"]} for t in rec]
    res = traces.validate("ConnectRaceTrace", slim, cfg_text=TRACE_CFG.replace("Obs", "Obs"), parallel=8, chunk=500)
    chk.traces += len(rec)
    chk.evaluations = len(rec)
    chk.states += res.tlc.distinct
    chk.transitions += res.tlc.generated
    for t in rec:
        chk.distinct.add(tuple((e["ev"], e["i"], e["nopen"], e["which"]) for e in t["events"]))
    chk.sample({"meta": rec[3]["meta"], "events": [(e["ev"], e["i"], e["nopen"], e["which"]) for e in rec[3]["events"]]}, cap=4)
    outcomes = {"sock": 0, "error": 0, "cancelled": 0}
    for t in rec:
        for e in t["events"]:
            if e["ev"] == "return":
                outcomes["sock" if e["which"] > 0 else ("error" if e["which"] == 0 else "cancelled")] += 1
    chk.extra["scenarios"] = {"traces": len(rec), "events": res.nevents, "rejected": len(res.rejected), "outcomes": outcomes}
    for idx, pos in sorted(res.rejected.items())[:40]:
        t = rec[idx]
        failing = t["events"][pos - 1] if 0 < pos <= len(t["events"]) else None
        chk.violation(
            {
                "kind": "trace",
                "spec": "ConnectRace",
                "event": failing["ev"] if failing else "?",
                # the external cancellation was requested right after a stagger tick, when the race's own scope had just asked for the task's cancellation
                "ext_cancel_after_stagger_tick": t.get("tick", {}).get("offset", -1) >= 0,
                "scope_asked_first": bool(t.get("tick", {}).get("scope_asked_first", False)),
                "still_pending_after_cancel": any(e["ev"] == "still_pending_after_cancel" for e in t["events"]),
            },
            f"connection race: not a behaviour of ConnectRace (event #{pos}: {failing}; {t['problems']}) -- {t['meta']} events={[(e['ev'], e['i'], e['nopen']) for e in t['events']]}",
            {"kind": "race_trace", "trace": slim[idx], "meta": t["meta"], "rejected_at": pos},
        )
    chk.assumptions += [
        "connect attempts are completed by the harness through the resolver's connect_socket hook (the asyncio resolver's is loop.sock_connect)",
        "all addresses of a scenario have one family, so the library's family interleaving keeps the given order",
    ]
    from . import c19_client

    c19_client.run(chk)


def replay(data: dict[str, Any]) -> int:
    r = data["replay"]
    print(r.get("meta"))
    for i, e in enumerate(r["trace"]["events"], 1):
        print(i, e)
    return 0
