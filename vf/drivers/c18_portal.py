"""C18 part 2: the threads portal the standalone servers use to reach their event loop (ThreadsPortal.tla).

ThreadsPortal.tla (the registration-under-lock protocol: accepted calls are waited for by the exit, nothing is accepted afterwards,
no future is orphaned, the exit terminates) is model-checked.  The real portal of the asyncio backend is then exercised with real
threads: 2-6 workers calling run_sync_soon / run_coroutine_soon at seeded moments around the moment the loop thread leaves the
portal (normally or with an exception), some cancelling their future at once; every step is logged and the logs are validated by TLC
against ThreadsPortalTrace.
"""

from __future__ import annotations

import asyncio
import concurrent.futures
import os
import random
import tempfile
import threading
import time
from typing import Any

from .. import tlc, traces
from ..common import Check

TRACE_CFG = "INIT TInit\nNEXT TNext\nCONSTRAINT Constr\nPOSTCONDITION Post\nCHECK_DEADLOCK FALSE\n"
EVD = {"ev": "", "w": 0, "kind": ""}


def model(chk: Check, quick: bool) -> bool:
    with tempfile.TemporaryDirectory(prefix="vf_c18p_") as d:
        defs = {
            "MCWorkers": '{"w1", "w2", "w3"}' if quick else '{"w1", "w2", "w3", "w4"}',
            "MCKind": '[w \\in MCWorkers |-> IF w = "w1" THEN "coro" ELSE "sync"]' if quick else '[w \\in MCWorkers |-> IF w \\in {"w1", "w4"} THEN "coro" ELSE "sync"]',
        }
        mod = tlc.write_mc_module(d, "MC_ThreadsPortal", "ThreadsPortal", defs)
        cfg = os.path.join(d, "mc.cfg")
        tlc.write_cfg(
            cfg,
            spec="Spec",
            constants={"Workers": "<- MCWorkers", "Kind": "<- MCKind"},
            invariants=["NoOrphan", "AcceptedAreAnswered", "AtMostOnce"],
            properties=["NothingAcceptedAfterExit", "ExitTerminates"],
            check_deadlock=False,
        )
        res = tlc.run_tlc(mod, cfg, timeout=900)
    chk.add_model("ThreadsPortal", res, defs, "worker calls x exit x cancellations, all interleavings: no orphan future, nothing accepted after the exit began, exit terminates")
    if not res.ok:
        chk.model_violation("ThreadsPortal", res)
        return False
    return True


def _scenario(seed: int) -> dict[str, Any]:
    from easynetwork.lowlevel.api_async.backend._asyncio.backend import AsyncIOBackend

    rng = random.Random(seed)
    events: list[dict[str, Any]] = []
    lock = threading.Lock()

    def ev(name: str, w: int = 0, kind: str = "") -> None:
        with lock:
            events.append({"ev": name, "w": w, "kind": kind})

    nworkers = rng.randint(2, 6)
    plans = [
        {
            "kind": rng.choice(["sync", "sync", "coro"]),
            "delay": rng.choice([0, 0, 1, 2, 3, 5, 8]) / 1000,
            "cancel": rng.random() < 0.2,
            "work": rng.choice([0, 0, 2, 6]) / 1000,
            "fails": rng.random() < 0.15,
        }
        for _ in range(nworkers)
    ]
    stay = rng.choice([0, 1, 2, 3, 5, 8]) / 1000
    leave_with_error = rng.random() < 0.2
    portal_box: dict[str, Any] = {}
    ready = threading.Event()
    go = threading.Event()
    hang = [False]

    async def main() -> None:
        backend = AsyncIOBackend()
        # (a failing coroutine whose future was cancelled is reported to the loop's exception handler: expected here, keep stderr clean)
        asyncio.get_running_loop().set_exception_handler(lambda loop, context: None)
        try:
            async with backend.create_threads_portal() as portal:
                portal_box["portal"] = portal
                ready.set()
                await asyncio.get_running_loop().run_in_executor(None, go.wait)
                await asyncio.sleep(stay)
                ev("exit_begin", kind="error" if leave_with_error else "")
                if leave_with_error:
                    raise RuntimeError("leaving the portal with an error")
        except RuntimeError:
            pass
        except BaseExceptionGroup:
            pass
        ev("exit_end")

    def loop_thread() -> None:
        asyncio.run(main())

    def worker(w: int) -> None:
        plan = plans[w - 1]
        portal = portal_box["portal"]
        go.wait()
        time.sleep(plan["delay"])

        def fn() -> str:
            ev("executed", w)
            if plan["fails"]:
                raise ValueError("scripted failure")
            return "done"

        async def cofn() -> str:
            ev("executed", w)
            await asyncio.sleep(plan["work"])
            if plan["fails"]:
                raise ValueError("scripted failure")
            return "done"

        ev("call_begin", w)
        try:
            fut = portal.run_sync_soon(fn) if plan["kind"] == "sync" else portal.run_coroutine_soon(cofn)
        except RuntimeError:
            ev("refused", w)
            return
        except concurrent.futures.CancelledError:
            ev("refused", w, "cancelled_while_scheduling")
            return
        ev("accepted", w)
        if plan["cancel"]:
            ev("cancel", w)
            fut.cancel()
        try:
            fut.result(timeout=10)
            ev("future", w, "result")
        except concurrent.futures.CancelledError:
            ev("future", w, "cancelled")
        except concurrent.futures.TimeoutError:
            ev("future", w, "pending")
            hang[0] = True
        except ValueError:
            ev("future", w, "error")
        except BaseException as exc:  # noqa: BLE001
            ev("future", w, "crash:" + type(exc).__name__)

    lt = threading.Thread(target=loop_thread, daemon=True)
    lt.start()
    ready.wait(10)
    ws = [threading.Thread(target=worker, args=(i + 1,), daemon=True) for i in range(nworkers)]
    for t in ws:
        t.start()
    go.set()
    for t in ws:
        t.join(15)
    lt.join(15)
    if lt.is_alive() or any(t.is_alive() for t in ws):
        ev("hang")
    else:
        ev("end")
    return {"events": traces.uniform(events, EVD), "meta": f"threads portal seed={seed} workers={[(p['kind'], int(p['delay'] * 1000), 'cancel' if p['cancel'] else '') for p in plans]} stay={int(stay * 1000)}ms leave_with_error={leave_with_error}"}


def run(chk: Check) -> None:
    quick = chk.tier == "quick"
    if not model(chk, quick):
        return
    rec = [_scenario(chk.seed * 52361 + i) for i in range(120 if quick else 2500)]
    res = traces.validate("ThreadsPortalTrace", [{"events": t["events"]} for t in rec], cfg_text=TRACE_CFG, parallel=4, chunk=400)
    chk.traces += len(rec)
    chk.states += res.tlc.distinct
    chk.transitions += res.tlc.generated
    for t in rec:
        chk.distinct.add(tuple((e["ev"], e["w"], e["kind"]) for e in t["events"]))
    counts: dict[str, int] = {}
    for t in rec:
        for e in t["events"]:
            if e["ev"] in ("accepted", "refused", "executed") or e["ev"] == "future":
                k = e["ev"] + (":" + e["kind"] if e["ev"] == "future" else "")
                counts[k] = counts.get(k, 0) + 1
    chk.extra["threads_portal"] = {"executions": len(rec), "events": res.nevents, "rejected": len(res.rejected), "outcomes": counts}
    for idx, pos in sorted(res.rejected.items())[:40]:
        t = rec[idx]
        failing = t["events"][pos - 1] if 0 < pos <= len(t["events"]) else None
        chk.violation(
            {"kind": "trace", "spec": "ThreadsPortal", "server": "portal", "what": (failing or {}).get("ev", "?")},
            f"threads portal: execution violates the portal laws (event #{pos}: {failing}) -- {t['meta']} events={[(e['ev'], e['w'], e['kind']) for e in t['events']]}",
            {"kind": "portal_execution", "meta": t["meta"], "events": t["events"]},
        )
    chk.assumptions.append("portal executions use real threads and millisecond sleeps around the exit; the order of the log is trusted only where the same thread or a synchronisation point orders the steps (see ThreadsPortalTrace)")
