"""C01 - stream round-trip: packets survive any chunking of the byte stream.

StreamAbs.tla states the content-free framing law; every execution of a real serializer (through the real
StreamDataConsumer / BufferedStreamDataConsumer, with the protocol classes and converters) is recorded as a StreamAbs trace and
decided by TLC.  The separator scanners are additionally covered byte-exactly by SepScan (C02).
"""

from __future__ import annotations

import os
import random
import tempfile
from typing import Any

from .. import sepharness, serializers, tlc, traces
from ..common import Check

LEVEL = "model_checking"
TRACE_CFG = "INIT TInit\nNEXT TNext\nCONSTANTS\n  EndSets = {}\n  MaxRead = 1\nCONSTRAINT Constr\nPOSTCONDITION Post\nCHECK_DEADLOCK FALSE\n"


def _model(chk: Check, quick: bool) -> bool:
    with tempfile.TemporaryDirectory(prefix="vf_abs_") as d:
        n = 4 if quick else 5
        defs = {
            "MCEnds": "{<<a>> : a \\in 1..%d} \\cup {<<a, a + b>> : a \\in 1..%d, b \\in 1..%d} \\cup {<<a, a + b, a + b + c>> : a \\in 1..%d, b \\in 1..%d, c \\in 1..%d}"
            % (n, n, n, n, n, n)
        }
        mod = tlc.write_mc_module(d, "MC_StreamAbs", "StreamAbs", defs)
        cfg = os.path.join(d, "mc.cfg")
        tlc.write_cfg(cfg, constants={"EndSets": "<- MCEnds", "MaxRead": "3"}, invariants=["NeverAhead"], properties=["InOrderOnce", "AllDelivered"], check_deadlock=False)
        res = tlc.run_tlc(mod, cfg, timeout=600)
    chk.add_model("StreamAbs", res, {"frames": f"1..3 frames of 1..{n} bytes", "maxread": 3}, "framing law: never ahead, in order, everything deliverable is delivered")
    if not res.ok:
        chk.model_violation("StreamAbs", res)
        return False
    return True


def _chunkings(total: int, ends: list[int], maxchunk: int, rng: random.Random, quick: bool) -> list[tuple[int, ...]]:
    if total <= (8 if quick else 11):
        return list(sepharness.compositions(total, total))
    out: set[tuple[int, ...]] = {(total,), (1,) * total}
    for c in range(1, total):
        out.add((c, total - c))
    near = sorted({e + d for e in ends for d in (-2, -1, 0, 1, 2) if 0 < e + d < total})
    for i, a in enumerate(near):
        for b in near[i + 1 : i + 4]:
            out.add((a, b - a, total - b))
    for _ in range(4 if quick else 20):
        parts = []
        pos = 0
        while pos < total:
            k = rng.randint(1, min(maxchunk, total - pos))
            parts.append(k)
            pos += k
        out.add(tuple(parts))
    res = sorted(out)
    cap = 40 if quick else 400
    if len(res) > cap:
        keep = [(total,), (1,) * total]
        res = keep + rng.sample([r for r in res if r not in keep], cap - 2)
    return res


def record(entry: serializers.Entry, packets: list[Any], path: str, chunking: tuple[int, ...], sizehint: int) -> dict[str, Any]:
    from easynetwork.exceptions import StreamProtocolParseError
    from easynetwork.lowlevel._stream import BufferedStreamDataConsumer, StreamDataConsumer

    proto = entry.stream_protocol() if path == "copy" else entry.buffered_protocol()
    frames = [b"".join(proto.generate_chunks(p)) for p in packets]
    ends: list[int] = []
    pos = 0
    for f in frames:
        pos += len(f)
        ends.append(pos)
    data = b"".join(frames)
    events: list[dict[str, Any]] = []
    delivered = 0

    def ev(kind: str, n: int = 0, idx: int = 0, eq: bool = False, held: int = 0) -> None:
        events.append({"ev": kind, "n": n, "idx": idx, "eq": eq, "held": held})

    consumer: Any = StreamDataConsumer(proto) if path == "copy" else BufferedStreamDataConsumer(proto, sizehint)

    def step(arg: Any) -> bool:
        """One consumer.next(); returns True if something was delivered (loop again)."""
        nonlocal delivered
        try:
            pkt = consumer.next(arg)
        except StopIteration:
            return False
        except StreamProtocolParseError as exc:
            ev("error:" + type(exc.error).__name__)
            return True
        except Exception as exc:  # noqa: BLE001
            ev("crash:" + type(exc).__name__)
            return False
        delivered += 1
        same = delivered <= len(packets) and bool(entry.eq(pkt, packets[delivered - 1]))
        ev("deliver", idx=delivered, eq=same)
        return True

    pos = 0
    pending = list(chunking)
    guard = 0
    while pos < len(data) and guard < 100000:
        guard += 1
        n = pending.pop(0) if pending else len(data) - pos
        n = min(n, len(data) - pos)
        if path == "copy":
            ev("feed", n=n)
            got = step(data[pos : pos + n])
        else:
            with memoryview(consumer.get_write_buffer()) as view:
                n = min(n, view.nbytes)
                view[:n] = data[pos : pos + n]
            ev("feed", n=n)
            got = step(n)
        pos += n
        while got:
            got = step(None)
        ev("quiet")
    held = len(consumer.get_buffer()) if path == "copy" else 0
    ev("end", held=held)
    return {"ends": ends, "events": events, "meta": f"{entry.name} path={path} sizehint={sizehint} packets={packets!r:.80} reads={list(chunking)!r:.60}"}


def _two_streams_one_protocol(chk: Check, rng: random.Random) -> None:
    """Two connections share one protocol object (what every server does): their reads interleave, each stream gets its own packets."""
    from easynetwork.lowlevel._stream import BufferedStreamDataConsumer, StreamDataConsumer

    n = 0
    for e in serializers.entries():
        if not e.incremental:
            continue
        for buffered in ([False, True] if e.buffered else [False]):
            for read in (1, 5, 11):
                proto = e.buffered_protocol() if buffered else e.stream_protocol()
                # (a packet whose serialization is empty puts nothing on the wire: it is not part of what must arrive)
                packets = {k: [p for p in (e.gen(rng) for _ in range(3)) if b"".join(proto.generate_chunks(p))] for k in "AB"}
                wire = {k: b"".join(b"".join(proto.generate_chunks(p)) for p in packets[k]) for k in "AB"}
                cons = {k: (BufferedStreamDataConsumer(proto, 64) if buffered else StreamDataConsumer(proto)) for k in "AB"}
                got: dict[str, list[Any]] = {"A": [], "B": []}
                pos = {"A": 0, "B": 0}
                problem = ""
                try:
                    while (pos["A"] < len(wire["A"]) or pos["B"] < len(wire["B"])) and not problem:
                        for k in "AB":
                            if pos[k] >= len(wire[k]):
                                continue
                            c = cons[k]
                            arg: Any
                            if buffered:
                                with memoryview(c.get_write_buffer()) as view:
                                    m = min(read, view.nbytes, len(wire[k]) - pos[k])
                                    view[:m] = wire[k][pos[k] : pos[k] + m]
                                arg = m
                            else:
                                m = min(read, len(wire[k]) - pos[k])
                                arg = wire[k][pos[k] : pos[k] + m]
                            pos[k] += m
                            while True:
                                try:
                                    got[k].append(c.next(arg))
                                except StopIteration:
                                    break
                                arg = None
                except Exception as exc:  # noqa: BLE001
                    problem = f"{type(exc).__name__}: {exc}"[:120]
                n += 1
                chk.traces += 1
                ok = not problem and all(len(got[k]) == len(packets[k]) and all(e.eq(x, y) for x, y in zip(got[k], packets[k])) for k in "AB")
                if not ok:
                    chk.violation(
                        {"kind": "two_streams", "what": "shared_state"},
                        f"two streams through one protocol object, reads of {read} byte(s) alternating, {'buffer-filling' if buffered else 'copying'} path, {e.name}: "
                        f"stream A sent {packets['A']!r:.80} got {got['A']!r:.80}; stream B sent {packets['B']!r:.80} got {got['B']!r:.80} {problem}",
                        {"kind": "two_streams", "entry": e.name, "read": read, "buffered": buffered},
                    )
    chk.extra["two_streams_one_protocol"] = n


def run(chk: Check) -> None:
    quick = chk.tier == "quick"
    rng = random.Random(chk.seed)
    chk.rule = (
        "traces = (serializer/protocol entry, packet sequence of 1-4 generated packets + a sentinel packet, receive path, buffer size hint, chunking); "
        "chunkings: all compositions for short streams, otherwise every single cut, cuts around every frame boundary, byte-by-byte, whole, random; "
        "distinct = distinct tuples; non-trivial = every trace contains at least one frame split across reads except the 'whole' chunking"
    )
    if not _model(chk, quick):
        return
    ents = [e for e in serializers.entries() if e.incremental]
    rec: list[dict[str, Any]] = []
    nseq = 6 if quick else 16
    for e in ents:
        for s in range(nseq):
            npk = 1 + (s % 3) if s < 9 else 4
            packets = [e.gen(rng) for _ in range(npk)] + [e.gen(rng)]  # the last one is the sentinel proving nothing was left over
            proto = e.stream_protocol()
            frames = [b"".join(proto.generate_chunks(p)) for p in packets]
            if any(len(f) == 0 for f in frames):
                continue
            total = sum(map(len, frames))
            ends = []
            acc = 0
            for f in frames:
                acc += len(f)
                ends.append(acc)
            cks = _chunkings(total, ends, 64, rng, quick)
            for ck in cks:
                rec.append(record(e, packets, "copy", ck, 0))
            if e.buffered:
                hints = [1, 3, len(frames[0]), len(frames[0]) + 1, 65536] if quick else [1, 2, 3, max(1, len(frames[0]) - 1), len(frames[0]), len(frames[0]) + 1, 64, 65536]
                for hint in hints:
                    for ck in cks if hint >= 64 else cks[: max(4, len(cks) // 4)]:
                        rec.append(record(e, packets, "buf", ck, max(1, hint)))
    slim = [{"ends": t["ends"], "events": t["events"]} for t in rec]
    res = traces.validate("StreamAbsTrace", slim, cfg_text=TRACE_CFG, parallel=14, chunk=1200)
    chk.traces += len(rec)
    chk.evaluations = len(rec)
    chk.states += res.tlc.distinct
    chk.transitions += res.tlc.generated
    per_entry: dict[str, int] = {}
    for t in rec:
        chk.distinct.add(t["meta"])
        name = t["meta"].split(" path=")[0]
        per_entry[name] = per_entry.get(name, 0) + 1
    chk.extra["traces_per_entry"] = per_entry
    chk.extra["events"] = res.nevents
    for i in (0, len(rec) // 3, 2 * len(rec) // 3):
        chk.sample({"meta": rec[i]["meta"], "ends": rec[i]["ends"], "events": [(e["ev"], e["n"], e["idx"]) for e in rec[i]["events"][:10]]}, cap=6)
    for idx, pos in sorted(res.rejected.items())[:60]:
        t = rec[idx]
        failing = t["events"][pos - 1] if 0 < pos <= len(t["events"]) else None
        what = failing["ev"] if failing else "?"
        chk.violation(
            {"kind": "trace", "spec": "StreamAbs", "entry": t["meta"].split(" path=")[0], "event": what.split(":")[0]},
            f"StreamAbs: execution is not a behaviour of the specification (event #{pos}: {failing}) -- {t['meta']}",
            {"kind": "streamabs_trace", "trace": slim[idx], "meta": t["meta"], "rejected_at": pos},
        )
    missing = [n for n in ("CBORSerializer", "MessagePackSerializer") if n not in per_entry]
    if missing:
        chk.not_covered.append("optional serializers not importable offline: " + ", ".join(missing))
    from .. import burst

    burst.report(chk, "round trip")
    _two_streams_one_protocol(chk, rng)
    chk.assumptions += [
        "value equality between the delivered object and the packet sent is computed by the harness (Python ==) and asserted by the specification",
        "valid packets are those the serializer's own contract round-trips (e.g. non-empty lines without the newline sequence)",
    ]


def replay(data: dict[str, Any]) -> int:
    r = data["replay"]
    print(r.get("meta"))
    for i, e in enumerate(r["trace"]["events"], 1):
        print(i, e)
    return 0
