"""C15 - stream server: each request reaches the handler exactly once, in order.

StreamServer.tla states what the request handler of one connection may observe (requests / parse errors in stream order exactly
once across generator restarts, TimeoutError only when no complete request is waiting, generators closed once, disconnection hook,
connection closed) and is model-checked over small request streams.  The real AsyncTCPNetworkServer (with the real low-level
AsyncStreamServer, build_lowlevel_stream_server_handler and the server-side client object) runs on an in-memory listener in virtual
time with a scripted request handler; request streams mixing valid and malformed frames are fed under seeded chunkings and arrival
delays; handler shapes: requests per generator, yielded timeouts (none / finite / zero-timeout polling), on_connection as coroutine or
generator, closing the client at some request, both receive paths.  Every connection's hook log is validated by TLC against
StreamServerTrace.
"""

from __future__ import annotations

import asyncio
import os
import random
import tempfile
from typing import Any

from .. import harness, srvharness, tlc, traces, vloop
from ..common import Check

LEVEL = "model_checking"
TRACE_CFG = "INIT TInit\nNEXT TNext\nCONSTANTS\n  Params = {}\n  MaxGens = 1000\n  MaxTimeouts = 1000\nCONSTRAINT Constr\nPOSTCONDITION Post\nCHECK_DEADLOCK FALSE\n"
EVD = {"ev": "", "n": 0, "idx": 0, "d": 0, "ok": False}
TICK = 1.0  # one tick of virtual time; arrivals are on whole ticks, timeouts last 1.37 ticks: k * 1.37 is never whole, so they never tie


def _model(chk: Check, quick: bool) -> bool:
    with tempfile.TemporaryDirectory(prefix="vf_c15_") as d:
        defs = {
            "MCParams": '{[ends |-> e, kinds |-> k, tau |-> t, zero |-> z] : e \\in {<<2, 4, 5>>, <<1, 2, 3>>}, '
            'k \\in {<<"ok", "ok", "ok">>, <<"ok", "bad", "ok">>, <<"bad", "bad", "ok">>, <<"ok", "ok", "bad">>}, t \\in {0, 137}, z \\in BOOLEAN}'
        }
        mod = tlc.write_mc_module(d, "MC_StreamServer", "StreamServer", defs)
        cfg = os.path.join(d, "mc.cfg")
        tlc.write_cfg(cfg, constants={"Params": "<- MCParams", "MaxGens": "3", "MaxTimeouts": "2"}, invariants=["InOrderOnce", "NeverAhead", "GensClosedOnce"], check_deadlock=False)
        res = tlc.run_tlc(mod, cfg, timeout=900, coverage=True)
    chk.add_model("StreamServer", res, defs, "handler observations for 3-frame streams x all arrival orders x generator restarts x timeouts")
    if not res.ok:
        chk.model_violation("StreamServer", res)
        return False
    return True


async def _scenario(seed: int) -> dict[str, Any]:
    from easynetwork.exceptions import StreamProtocolParseError
    from easynetwork.protocol import BufferedStreamProtocol, StreamProtocol
    from easynetwork.serializers.line import StringLineSerializer
    from easynetwork.servers.handlers import AsyncStreamRequestHandler

    rng = random.Random(seed)
    loop = asyncio.get_running_loop()
    nreq = rng.randint(1, 5)
    kinds = [rng.choice(["ok", "ok", "ok", "bad"]) for _ in range(nreq)]
    frames = [(f"r{i + 1}".encode() + b"x" * rng.randint(0, 4) + b"\n") if k == "ok" else (b"\xff\xfe" + b"y" * rng.randint(0, 2) + b"\n") for i, k in enumerate(kinds)]
    data = b"".join(frames)
    ends = []
    acc = 0
    for f in frames:
        acc += len(f)
        ends.append(acc)
    per_gen = rng.choice([1, 2, 99])
    mode = rng.choice(["none", "none", "tau", "zero", "tau_first"])
    tau_half = 137 if mode in ("tau", "tau_first") else 0  # in hundredths of a tick
    on_conn_gen = rng.random() < 0.35
    close_at = rng.choice([0, 0, 0, rng.randint(1, nreq)])
    yield_after_close = rng.random() < 0.5
    buffered = rng.random() < 0.5
    events: list[dict[str, Any]] = []
    t0 = loop.time()

    def ev(kind: str, **kw: Any) -> None:
        events.append({"ev": kind, **kw})

    state = {"seen": 0, "reqs": 0}

    async def consume(client: Any, k: int, first_timeout: float | None) -> Any:
        """Body shared by handle() and the generator flavour of on_connection(): takes up to k requests."""
        taken = 0
        while taken < k:
            ty = loop.time()
            had_timeout = True
            try:
                if mode == "tau_first" and taken + state["seen"] > 0:
                    # only the first wait of this connection is bounded: later yields carry no timeout at all
                    had_timeout = False
                    req = yield None
                elif mode in ("tau", "tau_first"):
                    req = yield TICK * 1.37
                elif mode == "zero" and state["seen"] > 0:
                    req = yield 0
                else:
                    req = yield None
            except StreamProtocolParseError:
                state["seen"] += 1
                ev("err", idx=state["seen"])
                taken += 1
                continue
            except TimeoutError:
                if not had_timeout:
                    ev("timeout_without_a_timeout")  # (no action of the specification has this name)
                    return
                ev("timeout", d=int(round((loop.time() - ty) / (TICK / 100))))
                if mode == "zero":
                    await asyncio.sleep(TICK / 4)  # poll again a little later
                continue
            except Exception as exc:  # noqa: BLE001
                # anything else thrown at the yield point: a peer that goes away must close the generator instead
                ev(f"thrown:{type(exc).__name__}")
                raise
            if state.get("closed"):
                # the handler closed the client and went back to its yield: the generator must be closed there, not fed
                ev("req_after_close")
                return
            state["seen"] += 1
            state["reqs"] += 1
            want = frames[state["seen"] - 1].decode("ascii", "replace").rstrip("\n") if state["seen"] <= len(frames) else None
            idx = int(req[1:].rstrip("x")) if isinstance(req, str) and req[:1] == "r" and req[1:].rstrip("x").isdigit() else 0
            ev("req", idx=idx, ok=(req == want))
            taken += 1
            if rng.random() < 0.5:
                await client.send_packet(f"ack{idx}")
            if close_at and state["seen"] >= close_at:
                await client.aclose()
                if not yield_after_close:
                    return
                state["closed"] = True
                k = 10**6  # keeps yielding: whatever was pipelined behind this request must not reach it any more

    class Handler(AsyncStreamRequestHandler[str, str]):
        if on_conn_gen:

            on_connection = _wrap_gen(lambda self, client: consume(client, 1, None), ev)  # type: ignore[assignment]
        else:

            async def on_connection(self, client: Any) -> None:  # type: ignore[override,misc]
                await asyncio.sleep(0)

        def handle(self, client: Any) -> Any:
            return _gen_with_log(consume(client, per_gen, None), ev)

        async def on_disconnection(self, client: Any) -> None:
            ev("disconnect")

    fx = srvharness.TCPServerFixture((BufferedStreamProtocol if buffered else StreamProtocol)(StringLineSerializer()), Handler(), max_recv_size=rng.choice([1, 3, 64, 1024]))
    await fx.start()
    c = fx.connect()
    await harness.settle()
    pos = 0
    while pos < len(data):
        n = rng.randint(1, max(1, min(len(data) - pos, rng.choice([1, 2, 5, 30]))))
        dt = rng.choice([0, 0, 0, 1, 2])
        if dt:
            await asyncio.sleep(dt * TICK)
        c.feed(data[pos : pos + n])
        ev("feed", n=n)
        pos += n
        if rng.random() < 0.6:
            await harness.settle()
    await harness.settle()
    if rng.random() < 0.5:
        await asyncio.sleep(rng.choice([1, 2]) * TICK)
    # the peer goes away: orderly (EOF) or with one of the errors a lost TCP connection produces on the reading side
    how = rng.choice(["eof", "eof", "reset", "pipe", "aborted"])
    if how == "eof":
        c.close()
    else:
        import errno

        c.reset({"reset": ConnectionResetError(errno.ECONNRESET, "Connection reset by peer"), "pipe": BrokenPipeError(errno.EPIPE, "Broken pipe"), "aborted": ConnectionAbortedError(errno.ECONNABORTED, "Software caused connection abort")}[how])
    ev("eof")
    await asyncio.sleep(4 * TICK)
    await harness.settle()
    ev("closed", ok=bool(c.server_side.closed))
    ev("end", ok=(close_at == 0))
    await fx.stop()
    del t0
    return {
        "par": {"ends": ends, "kinds": kinds, "tau": tau_half, "zero": mode == "zero"},
        "events": traces.uniform(events, EVD),
        "meta": f"seed={seed} kinds={kinds} per_gen={per_gen} timeout={mode} on_connection={'generator' if on_conn_gen else 'coroutine'} close_at={close_at}{'(then yields again)' if close_at and yield_after_close else ''} path={'buffered' if buffered else 'copy'} disconnect={how}",
    }


def _gen_with_log(inner: Any, ev: Any) -> Any:
    """handle(): an async generator delegating to `inner`, logging its start and its (single) close."""

    async def gen() -> Any:
        ev("gen_start")
        try:
            to_yield = await inner.asend(None)
            while True:
                try:
                    got = yield to_yield
                except BaseException as exc:  # noqa: BLE001
                    to_yield = await inner.athrow(exc)
                else:
                    to_yield = await inner.asend(got)
        except StopAsyncIteration:
            return
        finally:
            await inner.aclose()
            ev("gen_close")

    return gen()


def _wrap_gen(factory: Any, ev: Any) -> Any:
    def on_connection(self: Any, client: Any) -> Any:
        return _gen_with_log(factory(self, client), ev)

    return on_connection


def _run_one(seed: int) -> dict[str, Any]:
    try:
        return vloop.run(lambda: _scenario(seed), spin_limit=20000)  # type: ignore[no-any-return]
    except vloop.VirtualDeadlock as exc:
        return {"par": {"ends": [1], "kinds": ["ok"], "tau": 0, "zero": False}, "events": [dict(EVD, ev="deadlock")], "meta": f"seed={seed} {exc}"}


def run(chk: Check) -> None:
    quick = chk.tier == "quick"
    chk.rule = (
        "connections = seeded scenarios: 1-5 requests (valid / undecodable), chunkings of 1-30 bytes with delays of 0-2 ticks, the peer leaving by EOF / ECONNRESET / EPIPE / ECONNABORTED, handler shapes "
        "(requests per generator 1/2/unlimited, timeout none / 1.37 ticks / zero-timeout polling, on_connection coroutine or generator, client closed at "
        "request c or never), both receive paths, read sizes 1-1024; one trace per connection; distinct = distinct event sequences"
    )
    if not _model(chk, quick):
        return
    from ..common import pmap

    rec = pmap(_run_one, [chk.seed * 50021 + i for i in range(300 if quick else 20000)])
    slim = [{"par": t["par"], "events": t["events"]} for t in rec]
    res = traces.validate("StreamServerTrace", slim, cfg_text=TRACE_CFG, parallel=8, chunk=400)
    chk.traces += len(rec)
    chk.evaluations = len(rec)
    chk.states += res.tlc.distinct
    chk.transitions += res.tlc.generated
    for t in rec:
        chk.distinct.add(tuple(tuple(e.values()) for e in t["events"]) + (t["meta"].split(" ", 1)[1],))
    chk.sample({"meta": rec[2]["meta"], "events": [{k: v for k, v in e.items() if v not in (0, "", False)} for e in rec[2]["events"]]}, cap=3)
    chk.extra["connections"] = {"traces": len(rec), "events": res.nevents, "rejected": len(res.rejected), "timeouts_observed": sum(1 for t in rec for e in t["events"] if e["ev"] == "timeout")}
    for idx, pos in sorted(res.rejected.items())[:40]:
        t = rec[idx]
        failing = t["events"][pos - 1] if 0 < pos <= len(t["events"]) else None
        chk.violation(
            {"kind": "trace", "spec": "StreamServer", "event": (failing or {}).get("ev", "?")},
            f"stream server: not a behaviour of StreamServer (event #{pos}: {failing}) -- {t['meta']} events={[(e['ev'], e['n'] or e['idx'] or e['d']) for e in t['events']]}",
            {"kind": "server_connection", "meta": t["meta"], "events": t["events"]},
        )
    chk.assumptions += [
        "timeouts last 1.37 ticks while arrivals are on whole ticks, so a timeout never ties with an arrival",
        "the in-memory listener hands the accepted connection to the server like a socket listener would; TLS and loopback TCP variants are exercised by C17",
    ]


def replay(data: dict[str, Any]) -> int:
    print(data["replay"].get("meta"))
    for e in data["replay"].get("events", []):
        print(e)
    return 0
