"""C13 - cancel scopes interrupt on time, swallow only their own cancel, honour shields.

CancelScope.tla is a reference semantics written as an interpreter over programs-as-data.  TLC (a) model-checks it on a family of
small programs x external-cancel times (totality: every program runs to its end; caught => cancelled; unwinding has a cause; never
through a shield), (b) validates traces: generated programs (nested move_on_after / timeout / open scopes, sleeps, bare checkpoints,
scope.cancel(), reschedule(), ignore_cancellation sections, marks) are executed on the real asyncio backend in virtual time with
one external task.cancel() at a chosen tick, every observable step is logged and must coincide with the interpreter's.
"""

from __future__ import annotations

import asyncio
import itertools
import math
import os
import random
import zlib
import tempfile
from typing import Any

from .. import tlaval, tlc, traces, vloop
from ..common import Check

LEVEL = "model_checking"
TRACE_CFG = "INIT TInit\nNEXT TNext\nCONSTANTS\n  Programs = {}\nCONSTRAINT Constr\nPOSTCONDITION Post\nCHECK_DEADLOCK FALSE\n"
INF = 1000000
TICK = 0.25
EVD = {"ev": "", "id": 0, "caught": False, "cc": False, "exc": "", "t": 0}

# ---------------------------------------------------------------------------------------------------------------
# programs: AST = list of statements
#   ("sleep", d) ("mark", k) ("cancel", scope_id) ("resched", scope_id, d) ("scope", id, kind, d, body) ("shield", body)
#   ("cyield",) = backend.cancel_shielded_coro_yield(): a bare checkpoint run with cancellation muted, i.e. shield{sleep(0)}
#   ("scope", id, kind, d, body, "raises") = the body ends by raising ValueError, caught just outside the scope
#   ("failwait", d) = ignore_cancellation(wait d ticks for a future that then fails with ConnectionResetError), the error caught around it
#   ("startc", id, k, n) = scope id .cancel() is called from a callback n loop iterations from now; meanwhile a task group starts a child
#                          with TaskGroup.start() (the child marks k and returns at once); three bare checkpoints follow
#   ("join", k, d) = a task group whose only child sleeps d ticks and then marks k; the parent waits at the end of the group


def flatten(ast: list[Any]) -> list[dict[str, Any]]:
    out: list[dict[str, Any]] = []

    def ins(op: str, id_: int = 0, kind: str = "", d: int = 0) -> None:
        out.append({"op": op, "id": id_, "kind": kind, "d": d})

    def go(block: list[Any], in_shield: bool = False) -> None:
        for st in block:
            if st[0] == "sleep":
                ins("sleep", d=st[1])
            elif st[0] == "mark":
                ins("mark", st[1])
            elif st[0] == "cancel":
                ins("cancel", st[1])
            elif st[0] == "resched":
                ins("resched", st[1], d=st[2])
            elif st[0] == "scope":
                ins("enter", st[1], st[2], st[3])
                go(st[4], in_shield)
                ins("exit", st[1], "raises" if len(st) > 5 else "")
            elif st[0] == "failwait":
                ins("shin")
                ins("sleep", d=st[1])
                ins("shout")
            elif st[0] == "shield":
                ins("shin")
                go(st[1], True)
                ins("shout")
            elif st[0] == "cyield":
                ins("shin")
                ins("sleep", d=0)
                ins("shout")
            elif st[0] == "join":
                ins("join", st[1], d=st[2])
            elif st[0] == "startc":
                if st[3] <= 1 and not in_shield:
                    # the cancellation reaches the task while it is suspended in start(): start() must not return
                    ins("startc", st[1], d=st[2])
                else:
                    # it comes after start() has returned (or cannot be delivered there: shielded): the statement after start() runs,
                    # then the next checkpoint abandons the body
                    ins("startq", st[2], d=st[1])
                    ins("mark", st[2] + 500)
                    ins("cancelq", st[1])
                    for _ in range(3):
                        ins("sleep", d=0)

    go(ast)
    return out


def gen_program(rng: random.Random, max_depth: int = 3) -> list[Any]:
    counter = itertools.count(1)
    marks = itertools.count(1)

    def block(depth: int, active: list[int], in_shield: bool) -> list[Any]:
        out: list[Any] = []
        for _ in range(rng.randint(1, 3)):
            r = rng.random()
            if r < 0.05 and not in_shield:
                out.append(("cyield",))
            elif r < 0.12:
                out.append(("join", next(marks), rng.choice([1, 1, 2, 3, 5])))
            elif r < 0.16 and not in_shield:
                out.append(("failwait", rng.choice([1, 1, 2, 3])))
            elif r < 0.20 and active:
                out.append(("startc", rng.choice(active), next(marks), rng.choice([0, 1, 1, 2, 3])))
            elif r < 0.30:
                out.append(("sleep", rng.choice([0, 1, 1, 2, 3, 5])))
            elif r < 0.40:
                out.append(("mark", next(marks)))
            elif r < 0.50 and active:
                out.append(("cancel", rng.choice(active)))
            elif r < 0.57 and active:
                out.append(("resched", rng.choice(active), rng.choice([0, 1, 2, 4, INF])))
            elif r < 0.88 and depth < max_depth:
                sid = next(counter)
                kind = rng.choice(["move_on", "move_on", "timeout", "open"])
                # (a deadline "not known yet": timeout(inf) / move_on_after(inf), to be set later by reschedule() or ended by cancel())
                d = INF if kind == "open" else rng.choice([0, 1, 2, 3, 4, 6, INF])
                body = block(depth + 1, active + [sid], in_shield)
                out.append(("scope", sid, kind, d, body, "raises") if rng.random() < 0.15 else ("scope", sid, kind, d, body))
            elif depth < max_depth and not in_shield:
                out.append(("shield", block(depth + 1, active, True)))
            else:
                out.append(("sleep", rng.choice([0, 1, 2])))
        return out

    prog = block(0, [], False)
    prog.append(("sleep", 0))
    prog.append(("mark", next(marks)))
    return prog


# ---------------------------------------------------------------------------------------------------------------
# execution on the real backend


async def execute(ast: list[Any], ext: int) -> list[dict[str, Any]]:
    from easynetwork.lowlevel.api_async.backend._asyncio.backend import AsyncIOBackend

    backend = AsyncIOBackend()
    loop = asyncio.get_running_loop()
    t0 = loop.time()
    events: list[dict[str, Any]] = []
    scopes: dict[int, Any] = {}
    exited: set[int] = set()

    nzero = [zlib.crc32(repr(ast).encode()) % 4]  # which spelling comes first differs from program to program
    stream: list[Any] = []

    def buffered_stream() -> Any:
        if not stream:
            from easynetwork.lowlevel.api_async.backend._asyncio.stream.socket import StreamReaderBufferedProtocol

            from ..recvbuffer import _Stub

            proto = StreamReaderBufferedProtocol(loop=loop)
            proto.connection_made(_Stub())
            buf = memoryview(proto.get_buffer(-1))
            n = min(len(buf), 2048)
            buf[:n] = b"x" * n
            proto.buffer_updated(n)
            stream.append(proto)
        return stream[0]

    def tick() -> int:
        return int(round((loop.time() - t0) / TICK))

    def log(ev: str, id_: int = 0, caught: bool = False, cc: bool = False, exc: str = "") -> None:
        events.append({"ev": ev, "id": id_, "caught": caught, "cc": cc, "exc": exc, "t": tick()})

    async def run_block(block: list[Any]) -> None:
        for st in block:
            if st[0] == "sleep":
                if st[1] == 0:
                    # a bare checkpoint, in the three spellings the backend offers - and as the library's stream receive with bytes
                    # already buffered (the asyncio stream protocol yields once on that path, on purpose: a receive is a checkpoint)
                    nzero[0] += 1
                    if nzero[0] % 4 == 1:
                        await backend.coro_yield()
                    elif nzero[0] % 4 == 2:
                        await backend.sleep(0)
                    elif nzero[0] % 4 == 3:
                        await backend.sleep_until(loop.time() - 1.0)
                    else:
                        got = await buffered_stream().receive_data(1)
                        assert got == b"x", got
                else:
                    await backend.sleep(st[1] * TICK)
            elif st[0] == "mark":
                log("mark", st[1])
            elif st[0] == "cancel":
                log("cancel", st[1])
                scopes[st[1]].cancel()
            elif st[0] == "resched":
                log("resched", st[1])
                scopes[st[1]].reschedule(math.inf if st[2] >= INF else loop.time() + st[2] * TICK)
            elif st[0] == "shield":
                log("shield_in")
                await backend.ignore_cancellation(run_block(st[1]))
                log("shield_out")
            elif st[0] == "cyield":
                log("shield_in")
                await backend.cancel_shielded_coro_yield()
                log("shield_out")
            elif st[0] == "failwait":
                log("shield_in")
                fut = loop.create_future()
                loop.call_later(st[1] * TICK, fut.set_exception, ConnectionResetError(104, "scripted failure of the awaited operation"))

                async def wait_for_failure(f: Any = fut) -> None:
                    await f

                try:
                    await backend.ignore_cancellation(wait_for_failure())
                except ConnectionResetError:
                    pass
                log("shield_out")
            elif st[0] == "startc":
                target, k, n = st[1], st[2], st[3]

                def fire(left: int, target: int = target) -> None:
                    if left > 0:
                        loop.call_soon(fire, left - 1)
                    elif target not in exited:
                        scopes[target].cancel()

                async def started_child(k: int = k) -> None:
                    log("mark", k)

                loop.call_soon(fire, n)
                async with backend.create_task_group() as tg:
                    await tg.start(started_child)
                    log("mark", k + 500)  # start() returned
                for _ in range(3):
                    await backend.coro_yield()
            elif st[0] == "join":

                async def child(k: int = st[1], d: int = st[2]) -> None:
                    await backend.sleep(d * TICK)
                    log("mark", k)

                async with backend.create_task_group() as tg:
                    tg.start_soon(child)
            elif st[0] == "scope":
                sid, kind, d, body = st[1:5]
                raises = len(st) > 5
                if kind == "move_on":
                    cm = backend.move_on_after(math.inf if d >= INF else d * TICK)
                elif kind == "timeout":
                    cm = backend.timeout(math.inf if d >= INF else d * TICK)
                else:
                    cm = backend.open_cancel_scope()
                log("enter", sid)
                scope = None
                try:
                    try:
                        with cm as scope:
                            scopes[sid] = scope
                            await run_block(body)
                            if raises:
                                raise ValueError("the body fails")
                    finally:
                        exited.add(sid)
                except ValueError:
                    log("exit", sid, bool(scope.cancelled_caught()), bool(scope.cancel_called()), "ValueError")
                    continue
                except TimeoutError:
                    log("exit", sid, bool(scope.cancelled_caught()), bool(scope.cancel_called()), "TimeoutError")
                    continue
                except asyncio.CancelledError:
                    log("exit", sid, bool(scope.cancelled_caught()) if scope else False, bool(scope.cancel_called()) if scope else False, "CancelledError")
                    raise
                log("exit", sid, bool(scope.cancelled_caught()), bool(scope.cancel_called()), "")

    async def main() -> None:
        await run_block(ast)

    task = loop.create_task(main())
    handle = None
    ext_info = {"ev": "_ext", "first": True}
    if ext < INF:

        def external_cancel() -> None:
            # was a cancellation already requested on the task in this very iteration (a scope's deadline that fired just before)?
            ext_info["first"] = task.cancelling() == 0
            task.cancel()

        handle = loop.call_at(t0 + ext * TICK, external_cancel)
    try:
        await asyncio.wait([task])
    finally:
        if handle is not None:
            handle.cancel()
    if task.cancelled():
        events.append({"ev": "end", "id": 0, "caught": False, "cc": False, "exc": "CancelledError", "t": tick()})
    elif task.exception() is not None:
        events.append({"ev": "end", "id": 0, "caught": False, "cc": False, "exc": "error:" + type(task.exception()).__name__, "t": tick()})
    else:
        events.append({"ev": "end", "id": task.cancelling(), "caught": False, "cc": False, "exc": "", "t": tick()})
    events.append(ext_info)  # (taken off again before validation)
    return events


def ast_str(ast: list[Any]) -> str:
    def go(block: list[Any]) -> str:
        parts = []
        for st in block:
            if st[0] == "scope":
                parts.append(f"{st[2]}#{st[1]}({'inf' if st[3] >= INF else st[3]}){{{go(st[4])}{'; raise' if len(st) > 5 else ''}}}")
            elif st[0] == "failwait":
                parts.append(f"shield{{wait({st[1]}) fails}}")
            elif st[0] == "shield":
                parts.append(f"shield{{{go(st[1])}}}")
            elif st[0] == "resched":
                parts.append(f"resched#{st[1]}({'inf' if st[2] >= INF else st[2]})")
            elif st[0] == "cyield":
                parts.append("cancel_shielded_yield")
            elif st[0] == "join":
                parts.append(f"group{{child: sleep({st[2]}); mark({st[1]})}}")
            elif st[0] == "startc":
                parts.append(f"group{{start(child: mark({st[2]}))}} with #{st[1]}.cancel() {st[3]} iterations later")
            else:
                parts.append(f"{st[0]}({st[1]})")
        return "; ".join(parts)

    return go(ast)


def shape(ast: list[Any]) -> set[str]:
    """Syntactic features of a program (used to key known findings)."""
    feats: set[str] = set()

    def go(block: list[Any], in_shield: bool, in_scope: bool) -> None:
        for st in block:
            if st[0] in ("cyield", "failwait"):
                feats.add("shield")
                if in_scope:
                    feats.add("shield_in_scope")
            elif st[0] == "shield":
                feats.add("shield")
                if in_scope:
                    feats.add("shield_in_scope")
                go(st[1], True, in_scope)
            elif st[0] == "scope":
                if in_shield:
                    feats.add("scope_in_shield")
                go(st[4], in_shield, True)
            elif st[0] in ("cancel", "resched"):
                feats.add(st[0])

    go(ast, False, False)
    return feats


# ---------------------------------------------------------------------------------------------------------------


def _small_programs() -> list[tuple[list[Any], int]]:
    """A systematic family of small programs for model checking the semantics itself."""
    bodies: list[list[Any]] = [
        [("sleep", 2)],
        [("sleep", 0)],
        [("mark", 1), ("sleep", 3), ("mark", 2)],
        [("shield", [("sleep", 3)]), ("sleep", 1)],
        [("scope", 2, "move_on", 1, [("sleep", 3)]), ("sleep", 1)],
        [("cancel", 1), ("sleep", 0), ("mark", 1)],
        [("cancel", 1), ("mark", 1)],
        [("shield", [("scope", 2, "timeout", 1, [("sleep", 2)])]), ("sleep", 1)],
        [("resched", 1, 4), ("sleep", 3)],
        [("resched", 1, 0), ("sleep", 1)],
        [("join", 5, 1), ("sleep", 1)],
        [("startc", 1, 5, 0), ("mark", 6)],
        [("startc", 1, 5, 1), ("mark", 6)],
        [("startc", 1, 5, 2), ("mark", 6)],
        [("shield", [("startc", 1, 5, 1), ("mark", 6)]), ("sleep", 0), ("mark", 7)],
        [("join", 5, 3), ("mark", 6)],
        [("shield", [("join", 5, 3)]), ("sleep", 1)],
    ]
    progs: list[tuple[list[Any], int]] = []
    for body in bodies:
        for kind, d in (("move_on", 2), ("timeout", 2), ("open", INF), ("move_on", 0)):
            ast = [("scope", 1, kind, d, body), ("sleep", 1), ("mark", 9)]
            for ext in (INF, 0, 1, 2, 3):
                progs.append((ast, ext))
    return progs


def _nested_programs() -> list[tuple[list[Any], int]]:
    """Three nested scopes (outer A, middle C never cancelled by itself, inner B) where B's cancellation is absorbed by a shielded
    section while A gets cancelled (by the shielded code, by its own deadline or from outside): when the shield ends, every
    checkpoint up to the end of A has to be abandoned."""
    progs: list[tuple[list[Any], int]] = []
    shields: list[list[Any]] = [
        [("cyield",)],
        [("shield", [("sleep", 0), ("sleep", 0)])],
        [("shield", [("sleep", 0), ("cancel", 1), ("sleep", 0)])],
        [("shield", [("cancel", 1), ("sleep", 0)])],
        [("shield", [("sleep", 1)])],
        [("cancel", 1), ("cyield",)],
    ]
    for sh in shields:
        for inner_kind, inner_d, pre in (("open", INF, [("cancel", 3)]), ("move_on", 0, []), ("move_on", 1, [("sleep", 1)])):
            for outer_kind, outer_d in (("open", INF), ("move_on", 0), ("move_on", 1), ("timeout", 1)):
                for middle in (True, False):
                    inner = [("scope", 3, inner_kind, inner_d, pre + sh), ("sleep", 2), ("mark", 1)]
                    mid = [("scope", 2, "open", INF, inner), ("sleep", 1), ("mark", 2)] if middle else inner + [("sleep", 1), ("mark", 2)]
                    ast = [("scope", 1, outer_kind, outer_d, mid), ("sleep", 0), ("mark", 9)]
                    progs.append((ast, INF))
    return progs


def _model(chk: Check, quick: bool) -> bool:
    progs = _small_programs()
    if quick:
        progs = progs[::2] + _nested_programs()[::6]
    else:
        progs = progs + _nested_programs()
    with tempfile.TemporaryDirectory(prefix="vf_c13_") as d:
        recs = "{" + ", ".join(tlaval.to_tla({"prog": tuple(flatten(a)), "ext": e}) for a, e in progs) + "}"
        mod = tlc.write_mc_module(d, "MC_CancelScope", "CancelScope", {"MCPrograms": recs})
        cfg = os.path.join(d, "mc.cfg")
        tlc.write_cfg(
            cfg,
            constants={"Programs": "<- MCPrograms"},
            invariants=["CaughtOnlyIfCancelled", "UnwindHasCause", "NoUnwindThroughShield"],
            properties=["Terminates"],
            check_deadlock=True,
        )
        res = tlc.run_tlc(mod, cfg, coverage=True, timeout=900)
    chk.add_model("CancelScope", res, {"programs": len(progs)}, "reference semantics on a systematic family of small programs x external-cancel ticks: total, caught=>cancelled, unwinding has a cause")
    if not res.ok:
        chk.model_violation("CancelScope", res)
        return False
    return True


async def _sleep_forever_siblings(how: str) -> list[str]:
    """Two children of one task group, each in sleep_forever() under a scope of its own: each is interrupted at its own deadline (or by its
    own cancel()), neither by the other's."""
    from easynetwork.lowlevel.api_async.backend._asyncio.backend import AsyncIOBackend

    backend = AsyncIOBackend()
    loop = asyncio.get_running_loop()
    t0 = loop.time()
    res: dict[str, Any] = {}
    scopes: dict[str, Any] = {}

    async def child(name: str, delay: float) -> None:
        try:
            with backend.move_on_after(delay) as scope:
                scopes[name] = scope
                await backend.sleep_forever()
            res[name] = ("left its scope", bool(scope.cancelled_caught()), round(loop.time() - t0, 2))
        except BaseException as exc:  # noqa: BLE001
            res[name] = ("escaped: " + type(exc).__name__, False, round(loop.time() - t0, 2))
            raise

    async def main() -> None:
        async with backend.create_task_group() as tg:
            tg.start_soon(child, "A", 0.5 if how == "deadline" else 100.0)
            tg.start_soon(child, "B", 2.0)
            if how == "cancel":
                await backend.sleep(0.5)
                scopes["A"].cancel()

    task = loop.create_task(main())
    if how == "external":
        loop.call_later(0.5, task.cancel)
    await asyncio.wait([task], timeout=50)
    problems = []
    if how == "external":
        if not task.cancelled():
            problems.append("the externally cancelled group did not end cancelled")
    else:
        if res.get("A") != ("left its scope", True, 0.5):
            problems.append(f"A (interrupted at 0.5 s): {res.get('A')}")
        if res.get("B") != ("left its scope", True, 2.0):
            problems.append(f"B (own deadline 2.0 s, nobody cancelled it before): {res.get('B')}")
    if not task.done():
        task.cancel()
        problems.append("the task group never ended")
    return problems


async def _receive_is_a_checkpoint(how: str, into: bool) -> list[str]:
    """receive_data() / receive_data_into() of the asyncio stream protocol with bytes already buffered, as the first thing done inside
    a scope that is cancelled already: it is abandoned (the library yields once there), and the bytes are still there afterwards."""
    from easynetwork.lowlevel.api_async.backend._asyncio.backend import AsyncIOBackend
    from easynetwork.lowlevel.api_async.backend._asyncio.stream.socket import StreamReaderBufferedProtocol

    from ..recvbuffer import _Stub

    backend = AsyncIOBackend()
    proto = StreamReaderBufferedProtocol(loop=asyncio.get_running_loop())
    proto.connection_made(_Stub())
    buf = memoryview(proto.get_buffer(-1))
    buf[:11] = b"hello world"
    proto.buffer_updated(11)
    problems: list[str] = []

    async def receive() -> bytes:
        if into:
            b = bytearray(5)
            n = await proto.receive_data_into(b)
            return bytes(b[:n])
        return await proto.receive_data(5)  # type: ignore[no-any-return]

    completed: list[bytes] = []
    raised = ""
    scope: Any = None
    try:
        if how == "move_on":
            with backend.move_on_after(0) as scope:
                completed.append(await receive())
        elif how == "timeout":
            with backend.timeout(0) as scope:
                completed.append(await receive())
        else:
            with backend.open_cancel_scope() as scope:
                scope.cancel()
                completed.append(await receive())
    except TimeoutError:
        raised = "TimeoutError"
    if completed:
        problems.append(f"the receive call completed ({completed[0]!r}) inside a scope that was cancelled before it started (cancelled_caught={scope.cancelled_caught()})")
    elif not scope.cancelled_caught():
        problems.append("the body was abandoned but the scope does not report that it caught the cancellation")
    if (how == "timeout") != (raised == "TimeoutError") and not completed:
        problems.append(f"timeout()/TimeoutError mismatch: raised {raised!r}")
    rest = await proto.receive_data(1024)
    if not completed and rest != b"hello world":
        problems.append(f"bytes were lost by the abandoned receive: {rest!r} left")
    return problems


def _run_one(case: tuple[list[Any], int]) -> list[dict[str, Any]]:
    ast, ext = case
    try:
        return vloop.run(lambda: execute(ast, ext))  # type: ignore[no-any-return]
    except vloop.VirtualDeadlock as exc:
        return [dict(EVD, ev="deadlock", exc=str(exc)[:40])]


def run(chk: Check) -> None:
    quick = chk.tier == "quick"
    rng = random.Random(chk.seed)
    chk.rule = (
        "programs = the systematic small family (model checking) + a systematic family of three nested scopes whose inner cancellation is absorbed by a shield while the outer one is cancelled + seeded random ASTs up to depth 3-4 (1-3 statements per block: sleeps incl. bare "
        "checkpoints, marks, scope.cancel(), reschedule(), nested move_on_after/timeout/open scopes with delays 0-6 ticks, ignore_cancellation sections, task groups with one child) x "
        "one external task.cancel() at tick 0-8 or none; distinct = distinct (program text, external-cancel tick)"
    )
    if not _model(chk, quick):
        return
    rec: list[dict[str, Any]] = []
    cases: list[tuple[list[Any], int]] = list(_small_programs()) + _nested_programs()
    for i in range(700 if quick else 12000):
        ast = gen_program(rng, max_depth=3 if i % 3 else 4)
        cases.append((ast, rng.choice([INF, INF, 0, 1, 2, 3, 4, 5, 6, 8])))
    from ..common import pmap

    for (ast, ext), evs in zip(cases, pmap(_run_one, cases)):
        ext_first = True
        if evs and evs[-1].get("ev") == "_ext":
            ext_first = bool(evs.pop()["first"])
        rec.append({"par": {"prog": flatten(ast), "ext": ext}, "events": evs, "ext_first": ext_first, "ast": ast, "meta": f"ext={'none' if ext >= INF else ext} program: {ast_str(ast)}"})
    slim = [{"par": t["par"], "events": traces.uniform(t["events"], EVD)} for t in rec]
    res = traces.validate("CancelScopeTrace", slim, cfg_text=TRACE_CFG, parallel=12, chunk=400)
    chk.traces += len(rec)
    chk.evaluations = len(rec)
    chk.states += res.tlc.distinct
    chk.transitions += res.tlc.generated
    for t in rec:
        chk.distinct.add(t["meta"])
    chk.sample({"meta": rec[-3]["meta"], "events": [(e["ev"], e["id"], e["caught"], e["cc"], e["exc"], e["t"]) for e in rec[-3]["events"]]}, cap=4)
    chk.extra["program_traces"] = {"programs": len(rec), "events": res.nevents, "rejected": len(res.rejected)}
    for idx, pos in sorted(res.rejected.items()):
        t = rec[idx]
        evs = t["events"]
        failing = evs[pos - 1] if 0 < pos <= len(evs) else None
        feats = shape(t["ast"])
        ext = t["par"]["ext"]
        what = "other"
        if failing is not None and failing["ev"] == "end" and failing["exc"] == "" and failing["id"] > 0 and ext >= INF:
            what = "leftover_cancelling"
        elif ext < INF and evs[-1]["exc"] == "" and failing is not None:
            what = "external_cancel_lost"
        # the external cancellation reached the task at the very instant a scope caught its own cancellation
        tie = ext < INF and any(e["ev"] == "exit" and e["caught"] and e["t"] == ext for e in evs)
        sig = {
            "kind": "trace",
            "spec": "CancelScope",
            "what": what,
            "tie": bool(tie),
            "external_cancel": ext < INF,
            "shield": "shield" in feats,
            "scope_in_shield": "scope_in_shield" in feats,
            "shield_in_scope": "shield_in_scope" in feats,
            "uses_cancel_or_resched": bool(feats & {"cancel", "resched"}),
            # the history is fine up to the moment the external cancellation was requested
            "rejected_after_external_cancel": bool(ext < INF and failing is not None and failing["t"] >= ext),
            # F8 / F8b need a scope's own cancellation to compete with the external one
            "a_scope_was_cancelled": any((e["ev"] == "exit" and e["cc"]) or e["ev"] == "cancel" for e in evs),
            # at a tie: the external request reached the task before any scope had asked for its cancellation in that iteration
            "external_request_came_first": bool(t.get("ext_first", True)),
        }
        chk.violation(
            sig,
            f"cancel scopes: not a behaviour of the reference semantics (event #{pos}: {failing}) -- {t['meta']} events={[(e['ev'], e['id'], e['caught'], e['cc'], e['exc'], e['t']) for e in evs]}",
            {"kind": "scope_program", "ast": t["ast"], "ext": ext, "events": evs, "rejected_at": pos},
        )
    for how in ("deadline", "cancel", "external"):
        try:
            problems = vloop.run(lambda: _sleep_forever_siblings(how))
        except vloop.VirtualDeadlock as exc:
            problems = [str(exc)]
        chk.traces += 1
        chk.distinct.add(("sleep_forever_siblings", how))
        if problems:
            chk.violation(
                {"kind": "siblings", "what": "sleep_forever", "how": how},
                f"two children of a task group in sleep_forever(), each under a scope of its own ({how}): {problems}",
                {"kind": "sleep_forever_siblings", "how": how},
            )
    for how in ("move_on", "timeout", "cancel"):
        for into in (False, True):
            try:
                problems = vloop.run(lambda: _receive_is_a_checkpoint(how, into))
            except vloop.VirtualDeadlock as exc:
                problems = [str(exc)]
            chk.traces += 1
            chk.distinct.add(("receive_is_a_checkpoint", how, into))
            if problems:
                chk.violation(
                    {"kind": "checkpoint", "what": "buffered_stream_receive", "how": how, "into": into},
                    f"asyncio stream protocol, receive_data{'_into' if into else ''}() with bytes buffered, first thing inside a cancelled scope ({how}): {problems}",
                    {"kind": "receive_is_a_checkpoint", "how": how, "into": into},
                )
    # TaskHandle.tla (the Task objects of TaskGroup.start(): join / join_or_cancel / wait): a cancellation that reaches the waiter in the very
    # iteration in which the awaited task finishes still propagates - "an external task cancellation always propagates"
    from ..extras import task_handle

    rep = task_handle.run(chk.tier, chk.seed)
    chk.traces += sum(v.get("behaviours", 0) for v in rep.get("replay", {}).values())
    chk.extra["task_handle_replay"] = rep.get("replay")
    for msg in rep["violations"][:6]:
        chk.violation(
            {"kind": "replay", "spec": "TaskHandle", "what": "waiter"},
            f"Task handle (TaskGroup.start): {msg}",
            {"kind": "task_handle", "detail": msg},
        )
    chk.extra["programs_with_task_group"] = sum(1 for t in rec if "group{" in t["meta"])
    chk.not_covered.append("task groups with several children or children that open scopes of their own (one sleeping-then-marking child per group)")
    chk.assumptions += [
        "exact timer ties (a sleep ending at the very instant a deadline or the external cancellation fires) are allowed either way",
        "scopes inside ignore_cancellation do not interrupt their body in this library; the property's wording ('unshielded') permits it",
    ]


def replay(data: dict[str, Any]) -> int:
    r = data["replay"]

    def tup(x: Any) -> Any:
        return tuple(tup(y) for y in x) if isinstance(x, list) else x

    ast = [tup(s) for s in r["ast"]]

    def fix(block: Any) -> list[Any]:
        out = []
        for st in block:
            st = list(st)
            if st[0] == "scope":
                st[4] = fix(st[4])
            elif st[0] == "shield":
                st[1] = fix(st[1])
            out.append(tuple(st))
        return out

    ast = fix(ast)
    print(ast_str(ast), "ext =", r["ext"])
    for e in vloop.run(lambda: execute(ast, r["ext"])):
        print(e)
    return 0
