"""C12 - concurrent senders never interleave packets.

1. FairLock.tla: the lock algorithm verbatim, model-checked (safety + FIFO + liveness), then every edge of
   the TLC state graph is replayed on the real FairLock with hand-driven coroutines, comparing the exact state.
2. SendLock.tla: N senders over a transport that suspends after any chunk; behaviours replayed on the real
   clients / TLS transport (see part 2 below).
"""

from __future__ import annotations

import os
import tempfile
from typing import Any

from .. import graph, manual, tlc
from ..common import Check

LEVEL = "model_checking"


# ----------------------------------------------------------------------------------------------
# part 1: FairLock exact-state replay


def _fairlock_cfg(path: str, ntasks: int, maxacq: int, maxcancel: int, liveness: bool) -> dict[str, Any]:
    consts = {"Tasks": "{" + ", ".join(str(i) for i in range(1, ntasks + 1)) + "}", "MaxAcq": str(maxacq), "MaxCancel": str(maxcancel)}
    tlc.write_cfg(
        path,
        constants=consts,
        invariants=["TypeOK", "MutualExclusion", "LockedIffHeld", "WaitersAreWaiting", "NoLostWakeup", "WokenQueued"],
        properties=["Fifo"] + (["Live"] if liveness else []),
        check_deadlock=False,
    )
    return consts


class FairLockImpl:
    """The real FairLock driven step by step; `project()` is the abstract state."""

    def __init__(self, ntasks: int) -> None:
        from easynetwork.lowlevel.api_async.backend._common.fair_lock import FairLock

        self.backend = manual.ManualBackend()
        self.lock = FairLock(self.backend)  # type: ignore[arg-type]
        self.tasks: dict[int, manual.ManualTask | None] = {t: None for t in range(1, ntasks + 1)}
        self.pc = {t: "idle" for t in self.tasks}
        self.hist: list[int] = []

    def apply(self, action: str, args: tuple[Any, ...]) -> None:
        (t,) = args
        if action == "Acquire":
            self.backend.current = t
            task = manual.ManualTask(self.lock.acquire())
            self.tasks[t] = task
            if task.step():
                if task.exception is not None:
                    raise AssertionError(f"acquire() raised {task.exception!r}")
                self.pc[t] = "holding"
                self.hist.append(t)
            else:
                self.pc[t] = "waiting"
        elif action == "Resume":
            task = self.tasks[t]
            assert task is not None
            if not task.step():
                raise AssertionError("acquire() suspended again after its event was set")
            if task.exception is not None:
                raise AssertionError(f"acquire() raised {task.exception!r}")
            self.pc[t] = "holding"
            self.hist.append(t)
        elif action == "Cancel":
            pass  # a cancellation request does not touch the lock until the task resumes
        elif action == "CancelResume":
            import asyncio

            task = self.tasks[t]
            assert task is not None
            if not task.cancel_step():
                raise AssertionError("acquire() swallowed CancelledError and suspended again")
            if not isinstance(task.exception, asyncio.CancelledError):
                raise AssertionError(f"cancelled acquire() ended with {task.exception!r} / {task.result!r}")
            self.pc[t] = "idle"
        elif action == "Release":
            self.lock.release()
            self.pc[t] = "idle"
        else:
            raise KeyError(action)

    def project(self) -> dict[str, Any]:
        out: dict[str, Any] = {
            "locked": bool(self.lock.locked()),
            "pc": tuple(self.pc[t] for t in sorted(self.pc)),
            "hist": tuple(self.hist),
        }
        if hasattr(self.lock, "_waiters"):  # internal queue: compared when it exists under this name, otherwise behaviour only
            waiters = list(self.lock._waiters or ())
            out["waiters"] = tuple(ev.owner for ev in waiters)
            out["evset"] = frozenset(ev.owner for ev in waiters if ev.is_set())
        # (without the queue, which of the set events still count as a wake-up in flight cannot be told from outside: behaviour only -
        #  who holds the lock, in which order it was obtained, who is suspended)
        return out

    def close(self) -> None:
        for task in self.tasks.values():
            if task is not None:
                task.close()


def _replay_fairlock(chk: Check, g: graph.Graph, paths: list[tuple[int, graph.Path]], ntasks: int) -> int:
    nsteps = 0
    for root, path in paths:
        impl = FairLockImpl(ntasks)
        done: list[str] = []
        try:
            for action, args, dst in path:
                label = f"{action}({', '.join(map(str, args))})"
                done.append(label)
                try:
                    impl.apply(action, args)
                    got = impl.project()
                except AssertionError as exc:
                    chk.violation(
                        {"kind": "replay", "target": "FairLock", "action": action, "error": str(exc)[:80]},
                        f"FairLock replay: {label} failed: {exc}",
                        {"kind": "fairlock_path", "ntasks": ntasks, "path": done},
                    )
                    break
                want = g.states[dst]
                bad = [k for k in got if got[k] != want[k]]
                if bad:
                    chk.violation(
                        {"kind": "replay", "target": "FairLock", "action": action, "vars": sorted(bad)},
                        f"FairLock diverges from the specification after {' '.join(done)}: "
                        + "; ".join(f"{k}: impl={got[k]!r} spec={want[k]!r}" for k in bad),
                        {"kind": "fairlock_path", "ntasks": ntasks, "path": done},
                    )
                    break
                nsteps += 1
        finally:
            impl.close()
        chk.traces += 1
        chk.distinct.add(("fairlock", tuple(done)))
        if len(done) >= 6:
            chk.sample({"target": "FairLock", "behaviour": done}, cap=3)
    return nsteps


def run_fairlock(chk: Check) -> None:
    quick = chk.tier == "quick"
    ntasks, maxacq, maxcancel = (3, 5, 2) if quick else (4, 6, 3)
    with tempfile.TemporaryDirectory(prefix="vf_c12_") as d:
        cfg = os.path.join(d, "fl.cfg")
        consts = _fairlock_cfg(cfg, ntasks, maxacq, maxcancel, liveness=True)
        res = tlc.run_tlc("FairLock", cfg, coverage=True)
        chk.add_model("FairLock", res, consts, "safety invariants, FIFO action property, liveness of waiters")
        if not res.ok:
            chk.model_violation("FairLock", res, consts)
            return
        # graph for replay (no temporal property: the dump is the point)
        cfg2 = os.path.join(d, "fl2.cfg")
        n2 = (3, 5, 2) if quick else (3, 6, 3)
        consts2 = _fairlock_cfg(cfg2, *n2, liveness=False)
        g, _ = graph.dump_graph("FairLock", cfg2)
    paths = graph.edge_cover_paths(g, seed=chk.seed)
    if not quick:
        paths += graph.random_walks(g, 3000, seed=chk.seed)
    nsteps = _replay_fairlock(chk, g, paths, n2[0])
    chk.extra["fairlock_replay"] = {
        "graph_states": len(g.states),
        "graph_edges": g.nedges,
        "behaviours": len(paths),
        "steps_compared": nsteps,
        "constants": consts2,
        "edge_cover": True,
    }


def run(chk: Check) -> None:
    chk.rule = (
        "behaviours = root-to-leaf tours of the TLC state graph covering every edge (plus random walks in the thorough tier); "
        "distinct = distinct action sequences; non-trivial = every behaviour contains at least one contended acquire or is a prefix needed for edge coverage"
    )
    run_fairlock(chk)
    from . import c12_part2

    c12_part2.run(chk)
    from . import c12_threads

    c12_threads.run(chk)
    from . import c12_tls

    c12_tls.run(chk)
    chk.assumptions += [
        "FairLock is replayed with hand-driven coroutines and a stub backend whose events are resumed by the harness "
        "(FairLock only uses backend.create_event()); trio is not installed",
        "the asyncio backend's create_fair_lock() returns asyncio.Lock: its FIFO behaviour is CPython's, exercised through the client replays",
    ]


def replay(data: dict[str, Any]) -> int:
    r = data["replay"]
    if r.get("kind") == "fairlock_path":
        impl = FairLockImpl(r["ntasks"])
        for label in r["path"]:
            name, arg = label[:-1].split("(")
            impl.apply(name, (int(arg),))
            print(label, "->", impl.project())
        return 0
    from . import c12_part2

    return c12_part2.replay(data)
