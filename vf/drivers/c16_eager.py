"""C16 part 2: the datagram server on an event loop with asyncio.eager_task_factory (an environment the library caters for: see the
comment in AsyncDatagramServer.__on_client_coroutine_task_done and its functional tests).

A burst of datagrams from one address is queued while its handler is suspended; the handler generators that follow do not suspend at
all, so with eager tasks every restart runs to completion inside the call that creates it.  A second address sends meanwhile.  The
scenario runs in a child process (a wedged event loop cannot be interrupted from inside); the per-address logs are validated against
DatagramServerTrace like every other C16 trace.

usage as a child: python -m vf.drivers.c16_eager <burst> <eager 0|1>   -> one JSON document on stdout
"""

from __future__ import annotations

import asyncio
import json
import subprocess
import sys
from typing import Any

EVD = {"ev": "", "id": 0, "state": "", "qlen": -1}


async def _child(burst: int, eager: bool) -> list[dict[str, Any]]:
    import easynetwork.lowlevel.api_async.servers.datagram as dg
    from easynetwork.lowlevel.api_async.backend._asyncio.backend import AsyncIOBackend
    from easynetwork.protocol import DatagramProtocol
    from easynetwork.serializers.json import JSONSerializer

    from .. import memtransport

    loop = asyncio.get_running_loop()
    if eager:
        loop.set_task_factory(asyncio.eager_task_factory)
    backend = AsyncIOBackend()
    listener = memtransport.MemDatagramListener(backend)
    a1, a2 = ("10.0.0.1", 1), ("10.0.0.2", 2)
    logs: dict[Any, list[dict[str, Any]]] = {a1: [], a2: []}
    gate = asyncio.Event()

    def log(a: Any, ev: str, id_: int = 0) -> None:
        logs[a].append({"ev": ev, "id": id_, "state": "", "qlen": -1})

    async def handler(ctx: Any) -> Any:
        a = ctx.address
        log(a, "gen_start")
        try:
            req = yield None
            log(a, "gen_got", int(req))
            if a == a1 and int(req) == 1:
                await gate.wait()  # the first generator of the bursting client is slow; the following ones never suspend
        finally:
            log(a, "gen_end")

    server = dg.AsyncDatagramServer(listener, DatagramProtocol(JSONSerializer()))
    task = loop.create_task(server.serve(handler))
    await asyncio.sleep(0.01)
    for i in range(1, burst + 1):
        log(a1, "arrive", i)
        listener.push(str(i).encode(), a1)
        if i % 50 == 0:
            await asyncio.sleep(0)
    log(a2, "arrive", 1)
    listener.push(b"1", a2)
    await asyncio.sleep(0.02)
    gate.set()
    for _ in range(50):
        await asyncio.sleep(0.01)
        if sum(1 for e in logs[a1] if e["ev"] == "gen_end") >= burst:
            break
    log(a2, "arrive", 2)
    listener.push(b"2", a2)  # is the server still alive for everybody?
    await asyncio.sleep(0.05)
    problems = []
    if task.done():
        problems.append(f"serve() ended: {task.exception()!r}"[:200])
    for a in (a1, a2):
        logs[a].append({"ev": "end", "id": 0, "state": "", "qlen": -1})
        if problems:
            logs[a].append({"ev": "problem", "id": 0, "state": "", "qlen": -1})
    task.cancel()
    try:
        await asyncio.wait_for(asyncio.gather(task, return_exceptions=True), 2)
    except BaseException:  # noqa: BLE001
        pass
    return [
        {"par": {"n": burst, "plan": [1], "lockyields": True, "timeouts": False, "aftertimeout": "return"}, "events": logs[a1], "meta": f"eager={eager} burst of {burst} from one address problems={problems}"},
        {"par": {"n": 2, "plan": [1], "lockyields": True, "timeouts": False, "aftertimeout": "return"}, "events": logs[a2], "meta": f"eager={eager} second address beside a burst of {burst} problems={problems}"},
    ]


def run_in_child(burst: int, eager: bool, timeout: float = 60.0) -> list[dict[str, Any]]:
    import os

    from .. import common

    env = dict(os.environ, VERIF_REPO=common.REPO)
    try:
        p = subprocess.run([sys.executable, "-m", "vf.drivers.c16_eager", str(burst), "1" if eager else "0"], capture_output=True, text=True, timeout=timeout, cwd=common.VERIF, env=env)
        doc = json.loads(p.stdout.strip().splitlines()[-1])
        return doc  # type: ignore[no-any-return]
    except subprocess.TimeoutExpired:
        kind = "hang"
    except (json.JSONDecodeError, IndexError):
        kind = "child_crashed"
    return [
        {"par": {"n": burst, "plan": [1], "lockyields": True, "timeouts": False, "aftertimeout": "return"}, "events": [dict(EVD, ev=kind)], "meta": f"eager={eager} burst of {burst} from one address: the event loop of the child process never came back ({kind})"}
    ]


if __name__ == "__main__":
    from .. import common

    common.use_repo()
    out = asyncio.run(_child(int(sys.argv[1]), sys.argv[2] == "1"))
    print(json.dumps(out))
