"""C20 part 3: the asyncio datagram adapters against DatagramFlow.tla.

DatagramFlow.tla models a send (`transport.sendto()` + drain) and the adapter's aclose() (`transport.close()` + shielded wait for
connection_lost()) together with the event loop's FIFO of ready callbacks.  TLC checks it exhaustively; its state graph is then
replayed on the real adapters - DatagramEndpoint / DatagramEndpointProtocol and DatagramListenerSocketAdapter /
DatagramListenerProtocol - over a stub transport that behaves the way asyncio's datagram transport does (close() with nothing buffered
schedules connection_lost(None) for the next iteration, a fatal error makes it closing at once and schedules connection_lost(exc), a
closing transport with a buffer keeps notifying pause / resume and reports the loss once flushed).  A behaviour is a sequence of
macro-steps: one to three environment actions performed *inside one loop iteration*, then the loop runs until nothing is scheduled,
then every sender's status and the closer's status are compared with the quiescent state of the specification.
"""

from __future__ import annotations

import asyncio
import os
import random
import socket
import tempfile
from typing import Any

from .. import graph, tlc
from ..common import Check

ENV = {"Send", "Pause", "Resume", "Close", "CancelClose", "Fatal", "Flushed", "Cancel"}
CONSTS = {"Senders": "{1, 2}", "MaxEnv": "6", "MaxCancel": "1"}
CONSTS3 = {"Senders": "{1, 2, 3}", "MaxEnv": "5", "MaxCancel": "1"}


class StubTransport(asyncio.DatagramTransport):
    """asyncio's _SelectorDatagramTransport as far as the adapters can tell (3.12: close(), _fatal_error(), _sendto_ready())."""

    def __init__(self, loop: asyncio.AbstractEventLoop) -> None:
        super().__init__()
        self.loop = loop
        self.proto: Any = None
        self.closing = False
        self.conn_lost = 0
        self.buffered = False  # the write buffer is not empty (the harness ties it to pause / resume)
        self.sent: list[bytes] = []
        self._sock = socket.socket(socket.AF_INET, socket.SOCK_DGRAM)
        self._sock.bind(("127.0.0.1", 0))

    def sendto(self, data: Any, addr: Any = None) -> None:
        self.sent.append(bytes(data))

    def is_closing(self) -> bool:
        return self.closing

    def close(self) -> None:
        if self.closing:
            return
        self.closing = True
        if not self.buffered:
            self.conn_lost += 1
            self.loop.call_soon(self.proto.connection_lost, None)

    def abort(self) -> None:
        self.fatal(None)

    # -- what the event loop's I/O callbacks do --
    def fatal(self, exc: Exception | None) -> None:
        if self.conn_lost:
            return
        self.buffered = False
        self.closing = True
        self.conn_lost += 1
        self.loop.call_soon(self.proto.connection_lost, exc)

    def flushed(self) -> None:
        assert self.closing and not self.conn_lost
        self.buffered = False
        self.conn_lost += 1
        self.loop.call_soon(self.proto.connection_lost, None)

    def get_extra_info(self, name: str, default: Any = None) -> Any:
        if name == "socket":
            return asyncio.trsock.TransportSocket(self._sock)
        if name == "sockname":
            return self._sock.getsockname()
        return default

    def get_write_buffer_size(self) -> int:
        return 1 if self.buffered else 0

    # -- the stream flavour of the same stub --
    def write(self, data: Any) -> None:
        self.sent.append(bytes(data))

    def writelines(self, list_of_data: Any) -> None:
        for d in list_of_data:
            self.sent.append(bytes(d))

    def can_write_eof(self) -> bool:
        return False

    def set_write_buffer_limits(self, high: Any = None, low: Any = None) -> None:
        pass

    def is_reading(self) -> bool:
        return not self.closing

    def pause_reading(self) -> None:
        pass

    def resume_reading(self) -> None:
        pass


class Impl:
    def __init__(self, kind: str) -> None:
        self.loop = asyncio.new_event_loop()
        self.kind = kind
        self.tr = StubTransport(self.loop)
        self.tasks: dict[int, asyncio.Task[None]] = {}
        self.status: dict[int, str] = {}
        self.closer: asyncio.Task[None] | None = None
        self.closer_status = "none"
        self.exc = OSError(5, "injected fatal error")
        loop = self.loop
        if kind in ("endpoint", "socket-adapter"):
            from easynetwork.lowlevel.api_async.backend._asyncio.datagram.endpoint import DatagramEndpoint, DatagramEndpointProtocol

            rq: asyncio.Queue[Any] = asyncio.Queue()
            eq: asyncio.Queue[Any] = asyncio.Queue()
            self.proto: Any = DatagramEndpointProtocol(loop=loop, recv_queue=rq, exception_queue=eq)
            self.proto.connection_made(self.tr)
            self.tr.proto = self.proto
            ep = DatagramEndpoint(self.tr, self.proto, recv_queue=rq, exception_queue=eq)
            self.adapter: Any = ep
            self._send = lambda i: ep.sendto(b"d%d" % i, ("127.0.0.1", 9))
            if kind == "socket-adapter":
                # one layer up: the transport object the endpoints and clients of the library hold
                from easynetwork.lowlevel.api_async.backend._asyncio.backend import AsyncIOBackend
                from easynetwork.lowlevel.api_async.backend._asyncio.datagram.socket import AsyncioTransportDatagramSocketAdapter

                ad = AsyncioTransportDatagramSocketAdapter(AsyncIOBackend(), ep)
                self.adapter = ad
                self._send = lambda i: ad.send(b"d%d" % i)
        elif kind == "stream":
            # the stream adapter has the same shape: send_all() = transport.write() + drain, aclose() = close() + shielded wait
            from easynetwork.lowlevel.api_async.backend._asyncio.backend import AsyncIOBackend
            from easynetwork.lowlevel.api_async.backend._asyncio.stream.socket import AsyncioTransportStreamSocketAdapter, StreamReaderBufferedProtocol

            self.proto = StreamReaderBufferedProtocol(loop=loop)
            self.proto.connection_made(self.tr)
            self.tr.proto = self.proto
            st = AsyncioTransportStreamSocketAdapter(AsyncIOBackend(), self.tr, self.proto)
            self.adapter = st
            self._send = lambda i: st.send_all(b"d%d" % i) if i % 2 else st.send_all_from_iterable([b"d", b"%d" % i])
        else:
            from easynetwork.lowlevel.api_async.backend._asyncio.backend import AsyncIOBackend
            from easynetwork.lowlevel.api_async.backend._asyncio.datagram.listener import DatagramListenerProtocol, DatagramListenerSocketAdapter

            self.proto = DatagramListenerProtocol(loop=loop)
            self.proto.connection_made(self.tr)
            self.tr.proto = self.proto
            lst = DatagramListenerSocketAdapter(AsyncIOBackend(), self.tr, self.proto)
            self.adapter = lst
            self._send = lambda i: lst.send_to(b"d%d" % i, ("127.0.0.1", 9))

    def apply(self, action: str, args: tuple[Any, ...]) -> None:
        if action == "Send":
            s = args[0]

            async def run() -> None:
                try:
                    await self._send(s)
                    self.status[s] = "ok"
                except asyncio.CancelledError:
                    self.status[s] = "cancelled"
                    raise
                except OSError as exc:
                    self.status[s] = "err" if (exc is self.exc or isinstance(exc, ConnectionError)) else "other:" + repr(exc)
                except BaseException as exc:  # noqa: BLE001
                    self.status[s] = "other:" + repr(exc)

            self.status[s] = "parked"
            self.tasks[s] = self.loop.create_task(run())
        elif action == "Pause":
            self.tr.buffered = True
            self.proto.pause_writing()
        elif action == "Resume":
            self.proto.resume_writing()
            self.tr.buffered = self.tr.closing  # (a closing transport still has something to flush: "Flushed" says when it is done)
        elif action == "Close":

            async def close() -> None:
                try:
                    await self.adapter.aclose()
                    self.closer_status = "done"
                except asyncio.CancelledError:
                    self.closer_status = "cancelled"
                    raise

            self.closer_status = "waiting"
            self.closer = self.loop.create_task(close())
        elif action == "CancelClose":
            assert self.closer is not None
            self.closer.cancel()
        elif action == "Fatal":
            self.tr.fatal(self.exc)
        elif action == "Flushed":
            self.tr.flushed()
        elif action == "Cancel":
            self.tasks[args[0]].cancel()
        else:
            raise AssertionError(action)

    def settle(self) -> None:
        for _ in range(12):
            self.loop.run_until_complete(asyncio.sleep(0))

    def project(self) -> dict[str, Any]:
        return {"senders": {s: self.status.get(s, "idle") for s in sorted(self.status)}, "closer": self.closer_status}

    def close(self) -> None:
        try:
            for t in list(self.tasks.values()) + ([self.closer] if self.closer else []):
                if not t.done():
                    t.cancel()
            if not self.tr.conn_lost:
                self.tr.fatal(None)
            self.settle()
        except BaseException:  # noqa: BLE001
            pass
        finally:
            self.loop.close()
            self.tr._sock.close()


def _spec_projection(st: dict[str, Any], senders: list[int]) -> dict[str, Any]:
    pc = st["pc"]
    get = (lambda s: pc[s - 1]) if isinstance(pc, (tuple, list)) else (lambda s: pc[s])
    return {"senders": {s: get(s) for s in senders if get(s) != "idle"}, "closer": st["closer"]}


def _closure(g: graph.Graph, n: int) -> int:
    for _ in range(200):
        nxt = [v for a, _args, v in g.out[n] if a == "Run"]
        if not nxt:
            return n
        n = nxt[0]
    raise AssertionError("the loop model does not come to rest")


def _random_macro_walks(g: graph.Graph, n: int, seed: int) -> list[list[tuple[str, tuple[Any, ...], int]]]:
    rng = random.Random(seed)
    out = []
    for _ in range(n):
        cur = _closure(g, g.init[0])
        path: list[tuple[str, tuple[Any, ...], int]] = []
        for _step in range(8):
            k = rng.choice([1, 1, 1, 2, 2, 3])
            did = 0
            node = cur
            for _j in range(k):
                envs = [(a, args, v) for a, args, v in g.out[node] if a in ENV]
                if not envs:
                    break
                a, args, v = rng.choice(envs)
                path.append((a, args, -1))
                node = v
                did += 1
            if not did:
                break
            cur = _closure(g, node)
            path.append(("settle", (), cur))
        if path:
            out.append(path)
    return out


def _directed(g: graph.Graph, actions: list[Any]) -> list[tuple[str, tuple[Any, ...], int]] | None:
    """actions: env actions as (name, args) and the string "settle"; None when the graph has no such behaviour."""
    cur = _closure(g, g.init[0])
    path: list[tuple[str, tuple[Any, ...], int]] = []
    for act in actions:
        if act == "settle":
            cur = _closure(g, cur)
            path.append(("settle", (), cur))
            continue
        name, args = act
        nxt = [v for a, ar, v in g.out[cur] if a == name and tuple(ar) == tuple(args)]
        if not nxt:
            return None
        path.append((name, tuple(args), -1))
        cur = nxt[0]
    return path


S = "settle"
DIRECTED = [
    # senders parked, a cancelled aclose(), then the loss: the senders must fail, not hang
    [("Pause", ()), ("Send", (1,)), ("Send", (2,)), S, ("Close", ()), S, ("CancelClose", ()), S, ("Fatal", ()), S],
    # a send in the very iteration in which the transport is closed / fails
    [("Close", ()), ("Send", (1,)), S],
    [("Send", (1,)), ("Close", ()), S],
    [("Fatal", ()), ("Send", (1,)), S],
    [("Send", (1,)), ("Fatal", ()), S],
    [("Close", ()), S, ("Send", (1,)), S],
    # aclose() while senders wait for the buffer to flush: resume_writing() of the closing transport resumes them
    [("Pause", ()), ("Send", (1,)), ("Send", (2,)), S, ("Close", ()), S, ("Resume", ()), S, ("Flushed", ()), S],
    [("Pause", ()), ("Send", (1,)), S, ("Close", ()), S, ("Resume", ()), ("Flushed", ()), S],
    [("Pause", ()), ("Send", (1,)), S, ("Close", ()), ("Resume", ()), S],
    [("Pause", ()), ("Send", (1,)), S, ("Cancel", (1,)), ("Resume", ()), S, ("Send", (2,)), S],
]


def _replay(chk: Check, g: graph.Graph, paths: list[list[tuple[str, tuple[Any, ...], int]]], senders: list[int], label: str) -> tuple[int, int]:
    ncmp = nbad = 0
    for kind in ("endpoint", "listener", "stream", "socket-adapter"):
        for path in paths:
            impl = Impl(kind)
            done: list[str] = []
            try:
                for action, args, dst in path:
                    if action == "settle":
                        impl.settle()
                        done.append("|")
                        got, want = impl.project(), _spec_projection(g.states[dst], senders)
                        ncmp += 1
                        if got != want:
                            nbad += 1
                            if nbad <= 12:
                                chk.violation(
                                    {"kind": "replay", "spec": "DatagramFlow", "adapter": ("datagram-" if kind not in ("stream",) else "") + kind, "what": "divergence"},
                                    f"asyncio {'datagram ' if kind != 'stream' else ''}{kind} adapter diverges from DatagramFlow after [{' '.join(done)}] ('|' = the loop runs until nothing is scheduled): "
                                    f"implementation {got} / specification {want}",
                                    {"kind": "datagram_flow", "adapter": kind, "actions": [(a, list(ar)) for a, ar, _d in path], "got": got, "want": want},
                                )
                            break
                    else:
                        done.append(f"{action}({', '.join(map(str, args))})")
                        impl.apply(action, args)
            finally:
                impl.close()
            chk.distinct.add((label, kind, tuple((a, tuple(ar)) for a, ar, _d in path)))
    return ncmp, nbad


def run(chk: Check) -> None:
    quick = chk.tier == "quick"
    total = {"comparisons": 0, "diverging": 0, "behaviours": 0}
    for consts, senders, nwalks in ((CONSTS, [1, 2], 700 if quick else 20000), (CONSTS3, [1, 2, 3], 300 if quick else 10000)):
        with tempfile.TemporaryDirectory(prefix="vf_c20d_") as d:
            cfg = os.path.join(d, "mc.cfg")
            tlc.write_cfg(
                cfg,
                spec="Spec",
                constants=consts,
                invariants=["NoStrandedSender"],
                properties=["OkOnlyOnLiveConnection", "OkNeedsNoPendingLoss", "CancelCloseIsolated", "CloserEnds", "SendersEnd"],
                check_deadlock=False,
            )
            res = tlc.run_tlc("DatagramFlow", cfg, timeout=900)
            chk.add_model(f"DatagramFlow[{consts['Senders']}]", res, consts, "no stranded sender at rest, no successful send on a dead connection, cancelled close is isolated, close and senders end")
            if not res.ok:
                chk.model_violation("DatagramFlow", res, consts)
                return
            cfg2 = os.path.join(d, "dump.cfg")
            tlc.write_cfg(cfg2, spec="Spec", constants=consts, check_deadlock=False)
            g, _ = graph.dump_graph("DatagramFlow", cfg2, timeout=900)
        paths = _random_macro_walks(g, nwalks, chk.seed * 31 + len(senders))
        missing = []
        for acts in DIRECTED:
            p = _directed(g, acts)
            if p is None:
                missing.append(acts)
            else:
                paths.append(p)
        if missing and len(senders) == 2:
            chk.machinery_errors.append(f"DatagramFlow: directed behaviours not in the state graph: {missing[:2]}")
        ncmp, nbad = _replay(chk, g, paths, senders, consts["Senders"])
        total["comparisons"] += ncmp
        total["diverging"] += nbad
        total["behaviours"] += 4 * len(paths)
        chk.traces += 4 * len(paths)
        chk.states += len(g.states)
    chk.extra["datagram_flow_replay"] = total
