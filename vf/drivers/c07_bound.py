"""C07 - receive buffering is bounded by the configured limit; frames safely under the limit are never rejected for their size.

Separator framing: SepScan.tla (invariants Bound / NoLimitOnSafe / SafeAgree) model-checked over payload lengths
0..limit+separator+read for every chunking and both receive paths, and the real serializers' executions on such streams
(single long frames, unterminated data) validated against SepScanTrace with the number of bytes actually held compared after
every step.  File-based and raw-JSON guards: SizeGuard.tla, same two-step scheme.
"""

from __future__ import annotations

import os
import random
import tempfile
from typing import Any

from .. import sepcheck, sepharness, tlc, traces
from ..common import Check

LEVEL = "model_checking"

SG_INVARIANTS = ["Bound", "PktAligned", "SafeNeverRejected", "NeverDeliversOversized", "SafeComplete", "OversizedRejected"]
SG_TRACE_CFG = "INIT TInit\nNEXT TNext\nCONSTANTS\n  Params = {}\n  FrameSets = {}\nCONSTRAINT Constr\nPOSTCONDITION Post\nCHECK_DEADLOCK FALSE\n"


def _sizeguard_model(chk: Check, limits: list[int], maxreads: list[int], maxframe_extra: int) -> bool:
    with tempfile.TemporaryDirectory(prefix="vf_sg_") as d:
        lim = max(limits)
        mr = max(maxreads)
        hi = lim + mr + maxframe_extra
        defs = {
            "MCParams": '{[kind |-> k, limit |-> l, maxread |-> r] : k \\in {"file", "json"}, l \\in {%s}, r \\in {%s}}'
            % (", ".join(map(str, limits)), ", ".join(map(str, maxreads))),
            "MCFrames": "{<<a>> : a \\in 1..%d} \\cup {<<a, b>> : a \\in 1..%d, b \\in 1..%d} \\cup {<<a, b, c>> : a \\in 1..3, b \\in 1..%d, c \\in 1..3}"
            % (hi, lim + 2, lim + 2, lim + 2),
        }
        mod = tlc.write_mc_module(d, "MC_SizeGuard", "SizeGuard", defs)
        cfg = os.path.join(d, "mc.cfg")
        tlc.write_cfg(cfg, constants={"Params": "<- MCParams", "FrameSets": "<- MCFrames"}, invariants=SG_INVARIANTS, check_deadlock=False)
        res = tlc.run_tlc(mod, cfg, timeout=1200, heap="16g")
    consts = {"limits": limits, "maxreads": maxreads, "frame_lengths": f"1..{hi} (single), 1..{lim+2} (pairs), triples"}
    chk.add_model("SizeGuard", res, consts, "file-based and raw-JSON size guards: all frame lengths x all chunkings")
    if not res.ok:
        chk.model_violation("SizeGuard", res, consts)
        return False
    return True


# ---------------------------------------------------------------------------------------------------------------
# real parsers behind SizeGuard


def _file_serializer(limit: int, broad: bool = False) -> Any:
    from easynetwork.serializers.base_stream import FileBasedPacketSerializer

    class LengthPrefixed(FileBasedPacketSerializer[bytes, bytes]):
        """frame = 1 length byte + payload"""

        def __init__(self) -> None:
            # broad: a serializer that declares every Exception as an expected load error (as MessagePackSerializer does): the limit
            # error raised by the guard must not be mistaken for one of them
            super().__init__(expected_load_error=(Exception,) if broad else (ValueError,), limit=limit)

        def dump_to_file(self, packet: bytes, file: Any) -> None:
            file.write(bytes([len(packet)]) + packet)

        def load_from_file(self, file: Any) -> bytes:
            h = file.read(1)
            if not h:
                raise EOFError
            data = file.read(h[0])
            if len(data) < h[0]:
                raise EOFError
            return data

    return LengthPrefixed()


def _frame_bytes(kind: str, f: int, rng: random.Random) -> bytes:
    if kind == "file":
        return bytes([f - 1]) + b"p" * (f - 1)
    # raw JSON documents of exactly f bytes (f >= 2): strings, arrays, objects
    if f == 2:
        return rng.choice([b'""', b"[]", b"{}"])
    shape = rng.choice(["str", "arr", "esc"]) if f >= 4 else "str"
    if shape == "str":
        return b'"' + b"s" * (f - 2) + b'"'
    if shape == "esc":
        return b'"\\"' + b"s" * (f - 4) + b'"'
    inner = f - 2
    if inner % 2 == 1:  # [1,1,1]
        return b"[" + b",".join([b"1"] * ((inner + 1) // 2)) + b"]"
    return b"[" + b",".join([b"1"] * ((inner - 2) // 2) + [b"11"]) + b"]" if inner >= 2 else b"[]"


def _record_sizeguard(kind: str, path: str, limit: int, maxread: int, frames: list[int], chunking: list[int], rng: random.Random) -> dict[str, Any]:
    from easynetwork.exceptions import LimitOverrunError, StreamProtocolParseError
    from easynetwork.lowlevel._stream import BufferedStreamDataConsumer, StreamDataConsumer
    from easynetwork.protocol import BufferedStreamProtocol, StreamProtocol
    from easynetwork.serializers.json import JSONSerializer

    broad = kind == "file_broad"
    kind = "file" if broad else kind
    serializer = _file_serializer(limit, broad) if kind == "file" else JSONSerializer(limit=limit, use_lines=False)
    data = b"".join(_frame_bytes(kind, f, rng) for f in frames)
    assert len(data) == sum(frames), (kind, frames, data)
    events: list[dict[str, Any]] = []
    fed = 0
    consumed = 0

    def outcome(call: Any) -> str:
        try:
            call()
            return "pkt"
        except StopIteration:
            return "more"
        except StreamProtocolParseError as exc:
            return "limit" if isinstance(exc.error, LimitOverrunError) else "err"
        except Exception as exc:  # noqa: BLE001
            return "crash:" + type(exc).__name__

    if path == "copy":
        consumer: Any = StreamDataConsumer(StreamProtocol(serializer))
    else:
        consumer = BufferedStreamDataConsumer(BufferedStreamProtocol(serializer), maxread)
    stop = False
    pos = 0
    for n in chunking:
        if stop or pos >= len(data):
            break
        n = min(n, len(data) - pos)
        if path == "copy":
            chunk = data[pos : pos + n]
            k = outcome(lambda: consumer.next(chunk))
        else:
            with memoryview(consumer.get_write_buffer()) as view:
                n = min(n, view.nbytes)
                view[:n] = data[pos : pos + n]
            k = outcome(lambda: consumer.next(n))
        pos += n
        held = len(consumer.get_buffer()) if (path == "copy" and k != "more") else -1
        events.append({"ev": "feed", "n": n, "k": k, "held": held})
        if k in ("limit", "err") or k.startswith("crash"):
            stop = True  # no resynchronisation is promised for these framings
            break
        while True:
            k = outcome(lambda: consumer.next(None))
            if k == "more":
                events.append({"ev": "quiet", "n": 0, "k": "more", "held": -1})
                break
            held = len(consumer.get_buffer()) if path == "copy" else -1
            events.append({"ev": "drain", "n": 0, "k": k, "held": held})
            if k in ("limit", "err") or k.startswith("crash"):
                stop = True
                break
        if stop:
            break
    events.append({"ev": "end", "n": 0, "k": "more", "held": -1})
    del fed, consumed
    return {
        "par": {"kind": kind, "limit": limit, "maxread": maxread},
        "frames": frames,
        "events": events,
        "meta": f"{'file(expected_load_error=Exception)' if broad else kind} path={path} limit={limit} maxread={maxread} frames={frames} reads={chunking} bytes={data[:60]!r}",
    }


BL_TRACE_CFG = "INIT TInit\nNEXT TNext\nCONSTANTS\n  Params = {}\nCONSTRAINT Constr\nPOSTCONDITION Post\nCHECK_DEADLOCK FALSE\n"


def _to_boundlaw(t: dict[str, Any], payload: int, terminated: bool) -> dict[str, Any]:
    """One-frame SepScan record -> BoundLaw trace: the reads up to the first outcome that ends the frame."""
    evs = []
    total = payload + (t["par"]["seplen"] if terminated else 0)
    fed = 0
    for e in t["events"]:
        if e["ev"] != "read":
            if e["ev"] in ("drain", "stuck") and e["k"] != "more":
                evs.append({"ev": "read", "n": 0, "k": "unexpected:" + e["ev"] + ":" + e["k"], "held": -1})
                break
            continue
        n = min(e["n"], total - fed)  # the recorder logs the size asked for; the last read gets what is left
        if n <= 0:
            continue
        fed += n
        evs.append({"ev": "read", "n": n, "k": e["k"], "held": e["held"] if e["k"] == "more" else -1})
        if e["k"] != "more":
            break
    evs.append({"ev": "end", "n": 0, "k": "", "held": -1})
    p = t["par"]
    return {"par": {"limit": p["limit"], "seplen": p["seplen"], "maxread": p["maxread"], "payload": payload, "terminated": terminated}, "events": evs}


def _validate_boundlaw(chk: Check, rec: list[tuple[dict[str, Any], int, bool]], label: str) -> None:
    slim = [_to_boundlaw(t, n, term) for t, n, term in rec]
    res = traces.validate("BoundLawTrace", slim, cfg_text=BL_TRACE_CFG, parallel=8, chunk=1500)
    chk.traces += len(rec)
    chk.states += res.tlc.distinct
    chk.transitions += res.tlc.generated
    chk.extra.setdefault("trace_batches", []).append({"label": label, "traces": len(rec), "events": res.nevents, "rejected": len(res.rejected)})
    for idx, pos in sorted(res.rejected.items())[:40]:
        t, n, term = rec[idx]
        evs = slim[idx]["events"]
        failing = evs[pos - 1] if 0 < pos <= len(evs) else None
        chk.violation(
            {"kind": "trace", "spec": "BoundLaw", "path": t["par"]["path"], "outcome": (failing or {}).get("k", "?")},
            f"{label}: not allowed by BoundLaw (read #{pos}: {failing}) -- {t['meta'].split(' bytes=')[0]} payload={n} terminated={term} reads={[e['n'] for e in evs if e['ev'] == 'read']}",
            {"kind": "boundlaw_trace", "trace": slim[idx], "meta": t["meta"][:300]},
        )


def _sizeguard_traces(chk: Check, rng: random.Random, quick: bool) -> None:
    rec: list[dict[str, Any]] = []
    for kind in ("file", "file_broad", "json"):
        for limit, maxread in ((8, 3), (12, 4)) if quick else ((8, 3), (12, 4), (20, 7), (64, 16)):
            lens = sorted(set(range(2, limit + maxread + 3)))
            frame_lists = [[f] for f in lens]
            frame_lists += [[a, b] for a in (2, 3, limit - maxread, limit - 1, limit) for b in (2, limit - maxread + 1, limit, limit + 1) if a >= 2 and b >= 2]
            frame_lists += [[2, 3, 2], [3, limit - maxread + 1, 2]]
            for frames in frame_lists:
                if kind.startswith("file") and any(f > 256 for f in frames):
                    continue
                total = sum(frames)
                cks = sepharness.chunkings(total, maxread, rng, exhaustive_upto=9 if quick else 11, nrandom=3)
                if len(cks) > (10 if quick else 40):
                    cks = rng.sample(cks, 10 if quick else 40)
                for path in ("copy", "buf"):
                    if kind == "json" and path == "buf":
                        continue
                    for ck in cks:
                        rec.append(_record_sizeguard(kind, path, limit, maxread, frames, list(ck), rng))
                    if path == "buf":
                        # what a transport with data queued does: every read fills the window it is offered - which must not be
                        # bigger than the configured read size (the margin "one read" of the property is that size)
                        rec.append(_record_sizeguard(kind, path, limit, maxread, frames, [10**9] * (total + 2), rng))
    slim = [{"par": t["par"], "frames": t["frames"], "events": t["events"]} for t in rec]
    res = traces.validate("SizeGuardTrace", slim, cfg_text=SG_TRACE_CFG, parallel=12, chunk=1500)
    chk.traces += len(rec)
    chk.states += res.tlc.distinct
    chk.transitions += res.tlc.generated
    for t in rec:
        chk.distinct.add(t["meta"])
    chk.sample({"meta": rec[len(rec) // 2]["meta"], "events": rec[len(rec) // 2]["events"][:8]}, cap=8)
    chk.extra.setdefault("trace_batches", []).append({"label": "SizeGuard", "traces": len(rec), "events": res.nevents, "rejected": len(res.rejected)})
    for idx, pos in sorted(res.rejected.items())[:50]:
        t = rec[idx]
        failing = t["events"][pos - 1] if 0 < pos <= len(t["events"]) else None
        chk.violation(
            {"kind": "trace", "spec": "SizeGuard", "guard": t["par"]["kind"], "path": t["meta"].split()[1]},
            f"SizeGuard: execution is not a behaviour of the specification (first unmatched event #{pos}: {failing}) -- {t['meta']}",
            {"kind": "sizeguard_trace", "trace": slim[idx], "meta": t["meta"], "rejected_at": pos},
        )


def run(chk: Check) -> None:
    quick = chk.tier == "quick"
    rng = random.Random(chk.seed)
    chk.rule = (
        "traces = (serializer, limit, receive path, stream, chunking) with streams made of one long frame / unterminated data of every length "
        "0..limit+separator+read+2 (separator framing) and frame lengths 2..limit+read+2 (file-based, raw JSON); all chunkings for short streams, "
        "boundary cuts + random otherwise; distinct = distinct tuples"
    )
    # separator framing: design
    if quick:
        ok = sepcheck.model_check(chk, "C07: sep<=3,limit5,stream<=8", [1, 2, 3], [5], 8, [0], maxread=3)
    else:
        ok = sepcheck.model_check(chk, "C07: sep<=3,limit4-6,stream<=9", [1, 2, 3], [4, 5, 6], 9, [0], maxread=3, timeout=3000)
    ok = _sizeguard_model(chk, [6, 8] if quick else [6, 8, 11], [2, 3] if quick else [2, 3, 4], 2) and ok
    if not ok:
        return
    # separator framing: the real serializers, long frames and unterminated data
    cfgs = sepharness.configs()
    if quick:
        cfgs = [c for c in cfgs if "keep_end=True" not in c.name]
    small_one_frame: list[tuple[dict[str, Any], int, bool]] = []
    for limit, maxread in ((5, 3), (16, 5)) if quick else ((5, 3), (8, 3), (16, 5), (64, 16)):
        rec: list[dict[str, Any]] = []
        for cfg in cfgs:
            seplen = len(cfg.sep)
            sep = tuple(range(1, seplen + 1))
            streams = []
            for n in range(0, limit + seplen + maxread + 3):
                streams.append((0,) * n)  # unterminated
                streams.append((0,) * n + sep)  # one frame of payload n
                streams.append((0,) * n + sep[:-1])  # ... with its terminator cut short
            rec += sepcheck.record_many([cfg], limit, streams, maxread, rng, exhaustive_upto=7 if quick else 9, nrandom=3, per_stream_cap=6 if quick else 30)
        for t in rec:
            chk.distinct.add(t["meta"])
            sent = t["sent"]
            npay = next((i for i, x in enumerate(sent) if x != 0), len(sent))
            tail = tuple(sent[npay:])
            seplen_t = t["par"]["seplen"]
            if tail in ((), tuple(range(1, seplen_t + 1))):
                small_one_frame.append((t, npay, bool(tail)))
        chk.sample({"meta": rec[-1]["meta"], "events": rec[-1]["events"][:6]}, cap=8)
        sepcheck.validate(chk, rec, f"long frames limit={limit} maxread={maxread}")
    # the library's own scale: limits above the default read size (16 KiB), frames of tens of kilobytes, reads of 16 KiB
    # (a limit handling that only goes wrong beyond the default buffer size is invisible at limit 5..64)
    big_rec: list[tuple[dict[str, Any], int, bool]] = []
    big_cfgs = [c for c in cfgs if "keep_end=True" not in c.name]
    for limit, maxread in ((20000, 16384), (65536, 16384)) if quick else ((20000, 16384), (40000, 16384), (65536, 16384), (65536, 65536), (100000, 4096)):
        for cfg in big_cfgs:
            seplen = len(cfg.sep)
            sep = tuple(range(1, seplen + 1))
            lens = [16383, 16385, limit - seplen - 2, limit - 1, limit + 1, limit + maxread] if quick else [16383, 16384, 16385, 2 * 16384, limit - seplen - 2, limit - seplen, limit - 1, limit, limit + 1, limit + maxread, limit + maxread + seplen + 1]
            for n in lens:
                for term in (True, False):
                    syms = (0,) * n + (sep if term else ())
                    for path in ("copy", "buf"):
                        if path == "buf" and not cfg.buffered:
                            continue
                        for ck in ([maxread] * (len(syms) // maxread + 1), [maxread - 1] * (len(syms) // (maxread - 1) + 1)):
                            big_rec.append((sepharness.record(cfg, limit, path, syms, ck, maxread), n, term))
    for t, _n, _term in big_rec:
        chk.distinct.add(t["meta"].split(" bytes=")[0] + f" n={_n} {_term} " + str(t["meta"].split("reads=")[-1][:40]))
    _validate_boundlaw(chk, big_rec, "library-scale limits (20000 .. 100000) with 16 KiB reads")
    # the same law on the small one-frame records that SepScan has just judged byte by byte: the two must agree
    _validate_boundlaw(chk, small_one_frame, "BoundLaw on the small one-frame streams (cross-check with SepScan)")
    _sizeguard_traces(chk, rng, quick)
    chk.evaluations = chk.traces
    chk.assumptions += [
        "'safely under the limit' is read as: payload + separator <= limit - 1 (separator framing), frame - 1 + one read <= limit "
        "(file-based guard, which tests the accumulated bytes before every load attempt), frame <= limit (raw JSON)",
        "the buffered path of file-based serializers is fed with reads no larger than its buffer, as the consumer does",
    ]


def replay(data: dict[str, Any]) -> int:
    r = data["replay"]
    print(r.get("meta"))
    for i, e in enumerate(r["trace"]["events"], 1):
        print(i, e)
    if r.get("kind") == "sepscan_trace":
        print("verdict:", sepcheck.diagnose(r["trace"]))
    return 0
