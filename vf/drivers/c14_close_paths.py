"""C14 - closing releases the underlying resource at every cancellation point.

ClosePaths.tla states the obligation of any close path (every wrapped transport closed when the closing task is finished, however
it finished; second close prompt) and is model-checked.  Fault enumeration on the real code: every close path is run once to count
the steps of its task, then re-run cancelling the task immediately before step k for every k, and re-run with every inner
aclose()/send/recv failing; peers that answer, stall (the shutdown timeout fires in virtual time) or vanish.  Each run is a trace
(start, step*, cancel, inner_close i, end outcome, second close) validated by TLC against ClosePathsTrace.
"""

from __future__ import annotations

import asyncio
import collections.abc
import os
import socket
import tempfile
from collections.abc import Awaitable, Callable
from typing import Any

from .. import harness, memtransport, tlc, tlspeer, traces, vloop
from ..common import Check

LEVEL = "fault_enumeration"
TRACE_CFG = "INIT TInit\nNEXT TNext\nCONSTANTS\n  Inners = {}\n  MaxSteps = 0\n  MaxCancels = 0\nCONSTRAINT Constr\nPOSTCONDITION Post\nCHECK_DEADLOCK FALSE\n"
EVD = {"ev": "", "i": 0, "kind": ""}


def _model(chk: Check) -> bool:
    with tempfile.TemporaryDirectory(prefix="vf_c14_") as d:
        cfg = os.path.join(d, "mc.cfg")
        tlc.write_cfg(
            cfg,
            constants={"Inners": "{1, 2}", "MaxSteps": "4", "MaxCancels": "2"},
            invariants=["ClosedWhenDone"],
            properties=["EventuallyDone", "SecondIsPrompt"],
            check_deadlock=True,
        )
        res = tlc.run_tlc("ClosePaths", cfg)
    chk.add_model("ClosePaths", res, {"Inners": 2, "MaxSteps": 4, "MaxCancels": 2}, "obligation of a close path under cancellation at any step")
    if not res.ok:
        chk.model_violation("ClosePaths", res)
        return False
    return True


class Stepper(collections.abc.Coroutine):  # type: ignore[type-arg]
    """Wraps a coroutine; counts the steps of the task that runs it and calls on_step(n) after each of them."""

    def __init__(self, coro: Any, on_step: Callable[[int], None], before_step: Callable[[int], None] | None = None) -> None:
        self.coro = coro
        self.on_step = on_step
        self.before_step = before_step or (lambda n: None)
        self.n = 0

    def send(self, value: Any) -> Any:
        self.n += 1
        self.before_step(self.n)
        try:
            return self.coro.send(value)
        finally:
            self.on_step(self.n)

    def throw(self, *args: Any) -> Any:
        self.n += 1
        self.before_step(self.n)
        try:
            return self.coro.throw(*args)
        finally:
            self.on_step(self.n)

    def close(self) -> None:
        self.coro.close()

    def __await__(self) -> Any:
        return self


class Path:
    """One close path built over recording inner transports."""

    name = "?"
    ninner = 1
    own_cancel = False  # the path issues the cancellation itself, at a point of its own: no cancellation is injected per task step

    def __init__(self, log: Callable[[dict[str, Any]], None], fail_inner: int = 0) -> None:
        self.log = log
        self.fail_inner = fail_inner
        self.backend: Any = None
        self.cleanup: list[Callable[[], Any]] = []

    def inner(self, idx: int, rx: memtransport.MemPipe, tx: memtransport.MemPipe, *, slow: int = 1, **kw: Any) -> memtransport.MemStreamTransport:
        path = self

        class Rec(memtransport.MemStreamTransport):
            async def aclose(self) -> None:
                path.log({"ev": "inner_close", "i": idx})
                await super().aclose()

        async def hook() -> None:
            for _ in range(slow):
                await asyncio.sleep(0)
            if path.fail_inner == idx:
                raise ConnectionResetError(104, "injected close failure")

        return Rec(self.backend, rx, tx, close_hook=hook, **kw)

    async def setup(self) -> None:
        raise NotImplementedError

    def close(self) -> Awaitable[None]:
        raise NotImplementedError

    def second(self) -> Awaitable[None]:
        return self.close()

    async def teardown(self) -> None:
        for c in self.cleanup:
            r = c()
            if asyncio.iscoroutine(r):
                try:
                    await r
                except BaseException:  # noqa: BLE001
                    pass


def _backend() -> Any:
    from easynetwork.lowlevel.api_async.backend._asyncio.backend import AsyncIOBackend

    return AsyncIOBackend()


class TLSClose(Path):
    ninner = 1
    peer_mode = "answer"

    async def setup(self) -> None:
        from easynetwork.lowlevel.api_async.transports.tls import AsyncTLSStreamTransport

        self.backend = _backend()
        lib2peer, peer2lib = memtransport.MemPipe(), memtransport.MemPipe()
        self.t = self.inner(1, peer2lib, lib2peer)
        self.peer = tlspeer.Peer(lib2peer, peer2lib, server_side=True)
        hs = asyncio.ensure_future(self.peer.handshake())
        self.tls = await AsyncTLSStreamTransport.wrap(self.t, tlspeer.client_context(), server_hostname="localhost", shutdown_timeout=2)
        await hs
        if self.peer_mode == "answer":

            async def answer() -> None:
                try:
                    await self.peer.read()
                    await self.peer.close_notify()
                except Exception:  # noqa: BLE001
                    pass

            t = asyncio.ensure_future(answer())
            self.cleanup.append(t.cancel)
        elif self.peer_mode == "vanish":
            peer2lib.close_write()

    def close(self) -> Awaitable[None]:
        return self.tls.aclose()


class TLSCloseAnswer(TLSClose):
    name = "AsyncTLSStreamTransport.aclose (peer answers close_notify)"


class TLSCloseStall(TLSClose):
    name = "AsyncTLSStreamTransport.aclose (peer stalls: shutdown timeout)"
    peer_mode = "stall"


class TLSCloseVanish(TLSClose):
    name = "AsyncTLSStreamTransport.aclose (peer vanished)"
    peer_mode = "vanish"


class TLSWrapStalled(Path):
    name = "AsyncTLSStreamTransport.wrap (handshake never completes / garbage)"

    async def setup(self) -> None:
        self.backend = _backend()
        lib2peer, peer2lib = memtransport.MemPipe(), memtransport.MemPipe()
        self.t = self.inner(1, peer2lib, lib2peer)
        self.peer2lib = peer2lib
        if self.fail_inner == 9:  # "garbage handshake" variant
            peer2lib.feed(b"\x16\x03\x01\x00\x05hello-this-is-not-tls")

    def close(self) -> Awaitable[None]:
        from easynetwork.lowlevel.api_async.transports.tls import AsyncTLSStreamTransport

        async def wrap() -> None:
            await AsyncTLSStreamTransport.wrap(self.t, tlspeer.client_context(), server_hostname="localhost", handshake_timeout=3)

        return wrap()

    def second(self) -> Awaitable[None]:
        return self.t.aclose()


class Forcefully(Path):
    name = "aclose_forcefully(transport)"

    async def setup(self) -> None:
        self.backend = _backend()
        self.t = self.inner(1, memtransport.MemPipe(), memtransport.MemPipe(), slow=3)

    def close(self) -> Awaitable[None]:
        from easynetwork.lowlevel.api_async.transports.utils import aclose_forcefully

        return aclose_forcefully(self.t)


class Stapled(Path):
    name = "AsyncStapledStreamTransport.aclose"
    ninner = 2

    async def setup(self) -> None:
        from easynetwork.lowlevel.api_async.transports.composite import AsyncStapledStreamTransport

        self.backend = _backend()
        self.a = self.inner(1, memtransport.MemPipe(), memtransport.MemPipe(), slow=2)
        self.b = self.inner(2, memtransport.MemPipe(), memtransport.MemPipe(), slow=2)
        self.s = AsyncStapledStreamTransport(self.a, self.b)

    def close(self) -> Awaitable[None]:
        return self.s.aclose()


class Endpoint(Path):
    name = "AsyncStreamEndpoint.aclose"

    async def setup(self) -> None:
        from easynetwork.lowlevel.api_async.endpoints.stream import AsyncStreamEndpoint
        from easynetwork.protocol import StreamProtocol
        from easynetwork.serializers.line import StringLineSerializer

        self.backend = _backend()
        self.t = self.inner(1, memtransport.MemPipe(), memtransport.MemPipe(), slow=2)
        self.ep = AsyncStreamEndpoint(self.t, StreamProtocol(StringLineSerializer()), max_recv_size=1024)

    def close(self) -> Awaitable[None]:
        return self.ep.aclose()


class EndpointBehindReader(Endpoint):
    """aclose() while another task is parked in recv_packet() on the same endpoint: closing is not a receive, it goes ahead."""

    name = "AsyncStreamEndpoint.aclose (another task is parked in recv_packet)"

    async def setup(self) -> None:
        await super().setup()
        rt = asyncio.ensure_future(_swallow(self.ep.recv_packet()))
        await harness.settle()
        self.cleanup.append(rt.cancel)


class TCPClient(Path):
    name = "AsyncTCPNetworkClient.aclose"
    with_sender = False
    with_reader = False

    async def setup(self) -> None:
        from easynetwork.clients.async_tcp import AsyncTCPNetworkClient
        from easynetwork.protocol import StreamProtocol
        from easynetwork.serializers.line import StringLineSerializer

        self.backend = harness.HarnessBackend()
        self.sock, self.peer_sock = harness.loopback_tcp_pair()
        self.cleanup += [self.sock.close, self.peer_sock.close]
        gate = harness.Gate()

        async def send_hook(data: bytes) -> None:
            await gate.pass_()

        self.t = self.inner(1, memtransport.MemPipe(), memtransport.MemPipe(), slow=2, extra=harness.socket_extra(self.sock), send_hook=send_hook if self.with_sender else None)
        self.backend.stream_factory = lambda s: self.t
        self.client = AsyncTCPNetworkClient(self.sock, StreamProtocol(StringLineSerializer()), backend=self.backend)
        await self.client.wait_connected()
        if self.with_sender:
            st = asyncio.ensure_future(self.client.send_packet("blocked"))
            await harness.settle()
            self.cleanup.append(st.cancel)
        if self.with_reader:
            rt = asyncio.ensure_future(_swallow(self.client.recv_packet()))
            await harness.settle()
            self.cleanup.append(rt.cancel)

    def close(self) -> Awaitable[None]:
        return self.client.aclose()


class TCPClientBehindSender(TCPClient):
    name = "AsyncTCPNetworkClient.aclose (behind a suspended sender)"
    with_sender = True


class TCPClientBehindReader(TCPClient):
    name = "AsyncTCPNetworkClient.aclose (another task is parked in recv_packet)"
    with_reader = True


class UDPClient(Path):
    name = "AsyncUDPNetworkClient.aclose"

    async def setup(self) -> None:
        from easynetwork.clients.async_udp import AsyncUDPNetworkClient
        from easynetwork.protocol import DatagramProtocol
        from easynetwork.serializers.line import StringLineSerializer

        self.backend = harness.HarnessBackend()
        self.sock, self.peer_sock = harness.loopback_udp_pair()
        self.cleanup += [self.sock.close, self.peer_sock.close]
        path = self

        class RecDg(memtransport.MemDatagramTransport):
            async def aclose(self) -> None:
                path.log({"ev": "inner_close", "i": 1})
                for _ in range(2):
                    await asyncio.sleep(0)
                if path.fail_inner == 1:
                    self.closing = True
                    raise ConnectionResetError(104, "injected close failure")
                await super().aclose()

        self.t = RecDg(self.backend, extra=harness.socket_extra(self.sock))
        self.backend.datagram_factory = lambda s: self.t
        self.client = AsyncUDPNetworkClient(self.sock, DatagramProtocol(StringLineSerializer()), backend=self.backend)
        await self.client.wait_connected()

    def close(self) -> Awaitable[None]:
        return self.client.aclose()


class ServerSideClient(Path):
    """The client object a request handler gets from AsyncTCPNetworkServer: aclose() called from a task of its own."""

    name = "server-side client aclose (AsyncTCPNetworkServer)"
    behind_sender = False

    async def setup(self) -> None:
        from easynetwork.protocol import StreamProtocol
        from easynetwork.serializers.line import StringLineSerializer
        from easynetwork.servers.handlers import AsyncStreamRequestHandler

        from .. import srvharness

        path = self
        got: dict[str, Any] = {}
        ready = asyncio.Event()

        class Handler(AsyncStreamRequestHandler[str, str]):
            async def handle(self, client: Any) -> Any:
                got["client"] = client
                ready.set()
                while True:
                    yield

        self.fx = srvharness.TCPServerFixture(StreamProtocol(StringLineSerializer()), Handler())
        await self.fx.start()
        self.mc = self.fx.connect(**({"capacity": 64} if False else {}))
        tr = self.mc.server_side
        orig_aclose = tr.aclose
        fail = self.fail_inner

        async def aclose() -> None:
            path.log({"ev": "inner_close", "i": 1})
            await orig_aclose()
            await asyncio.sleep(0)
            if fail == 1:
                raise ConnectionResetError(104, "injected close failure")

        tr.aclose = aclose  # type: ignore[method-assign]
        await asyncio.wait_for(ready.wait(), 5)
        self.client = got["client"]
        self.backend = self.fx.backend
        if self.behind_sender:
            # another task of the handler is suspended in send_packet(): the peer's window is full
            self.mc.from_server.capacity = 16
            self._sender = asyncio.ensure_future(self.client.send_packet("x" * 4096))
            for _ in range(5):
                await asyncio.sleep(0)
            self.cleanup.append(self._sender.cancel)

        async def stop() -> None:
            await self.fx.stop()

        self.cleanup.append(stop)

    def close(self) -> Awaitable[None]:
        return self.client.aclose()


class ServerSideClientBehindSender(ServerSideClient):
    name = "server-side client aclose behind a suspended send_packet"
    behind_sender = True


class ServerSideClientLockHandOver(ServerSideClient):
    """The cancellation of the server-side client's aclose() arrives at the very instant the send lock is handed over to it: the
    suspended sender is unblocked once aclose() is parked on the lock, and the cancel() is issued by the sender's task in the step
    in which it releases the lock - after the hand-over, before the closing task runs again.  (Cancelled while the sender is still
    inside the transport, nothing is closed on the unchanged tree: that is F9, on the path above.)"""

    name = "server-side client aclose cancelled at the hand-over of the send lock"
    behind_sender = False
    own_cancel = True  # (a cancellation injected earlier finds the sender inside the transport: F9 again)

    async def setup(self) -> None:
        await super().setup()
        self._target: Any = None
        self.mc.from_server.capacity = 16

        async def sender() -> None:
            try:
                await self.client.send_packet("x" * 4096)
            finally:
                if self._target is not None and not self._target.done():
                    self.log({"ev": "cancel"})
                    self._target.cancel()

        self._sender = asyncio.ensure_future(_swallow(sender()))
        for _ in range(5):
            await asyncio.sleep(0)
        self.cleanup.insert(0, self._sender.cancel)

    def close(self) -> Awaitable[None]:
        def unblock() -> None:
            self.mc.from_server.capacity = 10**9
            self.mc.from_server.wake_writers()

        async def go() -> None:
            if self._target is None:  # (the second close is a plain aclose())
                self._target = asyncio.current_task()
                asyncio.get_running_loop().call_soon(unblock)
            await self.client.aclose()

        return go()


class ServerSideTeardownBehindSender(Path):
    """Not an aclose() call: the tear-down of a connection of the low-level AsyncStreamServer (the peer leaves, the handler generator is
    closed, the server closes the transport) while another task is suspended in client.send_packet() on that connection."""

    name = "AsyncStreamServer connection tear-down behind a suspended send_packet"

    async def setup(self) -> None:
        from easynetwork.lowlevel.api_async.servers.stream import AsyncStreamServer
        from easynetwork.protocol import StreamProtocol
        from easynetwork.serializers.line import StringLineSerializer

        self.backend = harness.HarnessBackend()
        self.sock, self.peer_sock = harness.loopback_tcp_pair()
        self.cleanup += [self.sock.close, self.peer_sock.close]
        self.listener = memtransport.MemListener(self.backend)
        server = AsyncStreamServer(self.listener, StreamProtocol(StringLineSerializer()), max_recv_size=1024)
        got: dict[str, Any] = {}
        ready = asyncio.Event()

        async def handler(client: Any) -> Any:
            got["client"] = client
            ready.set()
            while True:
                yield

        self.serve_task = asyncio.ensure_future(server.serve(handler))
        await harness.settle()
        self.rx, self.tx = memtransport.MemPipe(), memtransport.MemPipe(capacity=16)
        self.t = self.inner(1, self.rx, self.tx, extra=harness.socket_extra(self.sock))
        self.listener.push(self.t)
        await asyncio.wait_for(ready.wait(), 5)
        self.client = got["client"]
        self._sender = asyncio.ensure_future(_swallow(self.client.send_packet("x" * 4096)))
        await harness.settle()

        async def stop() -> None:
            self._sender.cancel()
            self.serve_task.cancel()
            await asyncio.gather(self._sender, self.serve_task, return_exceptions=True)
            await self.listener.aclose()

        self.cleanup.append(stop)

    def close(self) -> Awaitable[None]:
        async def teardown() -> None:
            self.rx.close_write()  # the peer's end of the stream
            for _ in range(400):
                if self.t.is_closing() or self.serve_task.done():
                    break
                await asyncio.sleep(0)
            for _ in range(20):
                await asyncio.sleep(0)
            if self.serve_task.done():
                raise RuntimeError("serve() ended")

        return teardown()

    def second(self) -> Awaitable[None]:
        return self.client.aclose()


class SocketAdapter(Path):
    name = "AsyncioTransportStreamSocketAdapter.aclose"

    async def setup(self) -> None:
        self.backend = _backend()
        self.a, self.b = socket.socketpair()
        self.cleanup += [self.b.close]
        self.adapter = await self.backend.wrap_stream_socket(self.a)
        self.closed_logged = False

    def close(self) -> Awaitable[None]:
        async def do() -> None:
            try:
                await self.adapter.aclose()
            finally:
                self._probe()

        return do()

    def _probe(self) -> None:
        tr = harness.asyncio_transport_of(self.adapter)
        if tr.is_closing() and not self.closed_logged:
            self.closed_logged = True
            self.log({"ev": "inner_close", "i": 1})


class SocketAdapterEofFails(SocketAdapter):
    """... when the half-close that precedes the close fails (the peer has reset the connection and the loop has not noticed yet:
    write_eof() answers ENOTCONN): the transport is closed all the same."""

    name = "AsyncioTransportStreamSocketAdapter.aclose (write_eof fails with ENOTCONN)"

    async def setup(self) -> None:
        await super().setup()
        import errno

        def write_eof() -> None:
            raise OSError(errno.ENOTCONN, "Transport endpoint is not connected")

        harness.asyncio_transport_of(self.adapter).write_eof = write_eof  # type: ignore[method-assign]


class TLSListenerWrapFails(Path):
    """Not an aclose() call: a TLS listener whose wrap of an accepted connection fails before any handshake byte is exchanged (a context
    made for the client side refuses to wrap a server-side connection): the accepted connection is closed, the listener goes on."""

    name = "AsyncTLSListener: wrap of an accepted connection fails before the handshake"

    async def setup(self) -> None:
        import ssl

        from easynetwork.lowlevel.api_async.transports.tls import AsyncTLSListener

        self.backend = _backend()
        self.mem = memtransport.MemListener(self.backend)
        self.errors: list[BaseException] = []
        self.tls_listener = AsyncTLSListener(self.mem, ssl.create_default_context(), handshake_timeout=5, shutdown_timeout=1, handshake_error_handler=self.errors.append)

        async def handler(stream: Any) -> None:
            await asyncio.sleep(3600)

        self.serve_task = asyncio.ensure_future(self.tls_listener.serve(handler))
        await harness.settle()
        self.t = self.inner(1, memtransport.MemPipe(), memtransport.MemPipe())

        async def stop() -> None:
            self.serve_task.cancel()
            await asyncio.gather(self.serve_task, return_exceptions=True)
            await self.mem.aclose()

        self.cleanup.append(stop)

    def close(self) -> Awaitable[None]:
        async def accept_and_wait() -> None:
            self.mem.push(self.t)
            for _ in range(60):
                await asyncio.sleep(0)
            if self.serve_task.done():
                raise RuntimeError("serve() ended")

        return accept_and_wait()

    def second(self) -> Awaitable[None]:
        return self.t.aclose()


class DatagramSocketAdapter(Path):
    name = "AsyncioTransportDatagramSocketAdapter.aclose"

    async def setup(self) -> None:
        self.backend = _backend()
        self.a, self.b = harness.loopback_udp_pair()
        self.cleanup += [self.b.close, self.a.close]
        self.adapter = await self.backend.wrap_connected_datagram_socket(self.a)
        self.closed_logged = False

    def close(self) -> Awaitable[None]:
        async def do() -> None:
            try:
                await self.adapter.aclose()
            finally:
                self._probe()

        return do()

    def _probe(self) -> None:
        if (self.a.fileno() == -1 or harness.asyncio_transport_of_any(self.adapter).is_closing()) and not self.closed_logged:
            self.closed_logged = True
            self.log({"ev": "inner_close", "i": 1})


class DatagramListenerAdapter(Path):
    """The UDP listener the asyncio backend builds on a real socket: aclose() waits (shielded) for connection_lost()."""

    name = "DatagramListenerSocketAdapter.aclose"

    async def setup(self) -> None:
        self.backend = _backend()
        self.adapter = (await self.backend.create_udp_listeners("127.0.0.1", 0))[0]
        self.closed_logged = False

        async def stop() -> None:
            try:
                await asyncio.wait_for(asyncio.shield(self.adapter.aclose()), 2)
            except BaseException:  # noqa: BLE001
                pass

        self.cleanup.append(stop)

    def close(self) -> Awaitable[None]:
        async def do() -> None:
            try:
                await self.adapter.aclose()
            finally:
                self._probe()

        return do()

    def _probe(self) -> None:
        if self.adapter.is_closing() and not self.closed_logged:
            self.closed_logged = True
            self.log({"ev": "inner_close", "i": 1})


class ListenerAdapter(Path):
    """The TCP listener of the asyncio backend while serve() is running: aclose() has one suspension point."""

    name = "ListenerSocketAdapter.aclose (serve running)"

    async def setup(self) -> None:
        self.backend = _backend()
        path = self

        class RecSocket(socket.socket):
            def close(self) -> None:
                if self.fileno() != -1:
                    path.log({"ev": "inner_close", "i": 1})
                super().close()

        base = socket.socket(socket.AF_INET, socket.SOCK_STREAM)
        base.bind(("127.0.0.1", 0))
        base.listen(5)
        self.lsock = RecSocket(base.family, base.type, base.proto, fileno=base.detach())
        from easynetwork.lowlevel.api_async.backend._asyncio.stream.listener import AcceptedSocketFactory, ListenerSocketAdapter

        self.listener = ListenerSocketAdapter(self.backend, self.lsock, AcceptedSocketFactory())

        async def handler(stream: Any) -> None:
            await stream.aclose()

        self.serve = asyncio.ensure_future(self.listener.serve(handler))
        await harness.settle()

        async def stop() -> None:
            self.serve.cancel()
            await asyncio.gather(self.serve, return_exceptions=True)
            if self.lsock.fileno() != -1:
                socket.socket.close(self.lsock)

        self.cleanup.append(stop)

    def close(self) -> Awaitable[None]:
        return self.listener.aclose()


class TCPClientWhileConnecting(Path):
    """aclose() while send_packet() of another task is performing the (lazy) connection: the attempt has to be abandoned at once."""

    name = "AsyncTCPNetworkClient.aclose (send_packet is connecting)"

    async def setup(self) -> None:
        from easynetwork.clients.async_tcp import AsyncTCPNetworkClient
        from easynetwork.protocol import StreamProtocol
        from easynetwork.serializers.line import StringLineSerializer

        self.backend = harness.HarnessBackend()
        path = self
        never = asyncio.Event()

        async def create_tcp_connection(*a: Any, **kw: Any) -> Any:
            try:
                await never.wait()
            except asyncio.CancelledError:
                path.log({"ev": "inner_close", "i": 1})  # the pending attempt (and whatever socket it had) is given up
                raise
            raise AssertionError("unreachable")

        self.backend.create_tcp_connection = create_tcp_connection  # type: ignore[method-assign]
        self.client = AsyncTCPNetworkClient(("verif.invalid", 9), StreamProtocol(StringLineSerializer()), backend=self.backend)
        self.sender = asyncio.ensure_future(self.client.send_packet("hello"))
        await harness.settle()

        async def stop() -> None:
            self.sender.cancel()
            await asyncio.gather(self.sender, return_exceptions=True)

        self.cleanup.append(stop)

    def close(self) -> Awaitable[None]:
        return self.client.aclose()


class UDPClientWhileConnecting(Path):
    """The same for the UDP client: aclose() while send_packet() of another task is creating the (lazy) endpoint."""

    name = "AsyncUDPNetworkClient.aclose (send_packet is connecting)"

    async def setup(self) -> None:
        from easynetwork.clients.async_udp import AsyncUDPNetworkClient
        from easynetwork.protocol import DatagramProtocol
        from easynetwork.serializers.line import StringLineSerializer

        self.backend = harness.HarnessBackend()
        path = self
        never = asyncio.Event()

        async def create_udp_endpoint(*a: Any, **kw: Any) -> Any:
            try:
                await never.wait()
            except asyncio.CancelledError:
                path.log({"ev": "inner_close", "i": 1})  # the pending attempt (and whatever socket it had) is given up
                raise
            raise AssertionError("unreachable")

        self.backend.create_udp_endpoint = create_udp_endpoint  # type: ignore[method-assign]
        self.client = AsyncUDPNetworkClient(("verif.invalid", 9), DatagramProtocol(StringLineSerializer()), backend=self.backend)
        self.sender = asyncio.ensure_future(self.client.send_packet("hello"))
        await harness.settle()

        async def stop() -> None:
            self.sender.cancel()
            await asyncio.gather(self.sender, return_exceptions=True)

        self.cleanup.append(stop)

    def close(self) -> Awaitable[None]:
        return self.client.aclose()


class DatagramEndpointBehindSender(Path):
    """AsyncDatagramEndpoint.aclose() while another task is suspended in send_packet(): closing is not a send, it goes ahead."""

    name = "AsyncDatagramEndpoint.aclose (another task is suspended in send_packet)"

    async def setup(self) -> None:
        from easynetwork.lowlevel.api_async.endpoints.datagram import AsyncDatagramEndpoint
        from easynetwork.protocol import DatagramProtocol
        from easynetwork.serializers.line import StringLineSerializer

        self.backend = _backend()
        path = self
        gate = asyncio.Event()

        class RecDg(memtransport.MemDatagramTransport):
            async def send(self, data: Any) -> None:
                await gate.wait()  # the socket's buffer is full

            async def aclose(self) -> None:
                path.log({"ev": "inner_close", "i": 1})
                for _ in range(2):
                    await asyncio.sleep(0)
                if path.fail_inner == 1:
                    self.closing = True
                    raise ConnectionResetError(104, "injected close failure")
                await super().aclose()

        self.t = RecDg(self.backend)
        self.ep = AsyncDatagramEndpoint(self.t, DatagramProtocol(StringLineSerializer()))
        st = asyncio.ensure_future(_swallow(self.ep.send_packet("blocked")))
        await harness.settle()

        async def stop() -> None:
            st.cancel()
            await asyncio.gather(st, return_exceptions=True)

        self.cleanup.append(stop)

    def close(self) -> Awaitable[None]:
        return self.ep.aclose()


class UDPServerTwoListeners(Path):
    """AsyncUDPNetworkServer.server_close() with two listeners (two addresses): whatever happens to the call, both are closed."""

    name = "AsyncUDPNetworkServer.server_close (two listeners)"
    ninner = 2

    async def setup(self) -> None:
        import socket

        from easynetwork.lowlevel.socket import INETSocketAttribute
        from easynetwork.protocol import DatagramProtocol
        from easynetwork.serializers.line import StringLineSerializer
        from easynetwork.servers.async_udp import AsyncUDPNetworkServer
        from easynetwork.servers.handlers import AsyncDatagramRequestHandler

        self.backend = harness.HarnessBackend()
        path = self
        socks = []
        for _ in range(2):
            s = socket.socket(socket.AF_INET, socket.SOCK_DGRAM)
            s.bind(("127.0.0.1", 0))
            socks.append(s)
            self.cleanup.append(s.close)

        def make(*a: Any, **kw: Any) -> list[Any]:
            out = []
            for i, s in enumerate(socks):

                class RecListener(memtransport.MemDatagramListener):
                    idx = i + 1

                    async def aclose(self) -> None:
                        path.log({"ev": "inner_close", "i": self.idx})
                        for _ in range(2):
                            await asyncio.sleep(0)  # (the asyncio listener waits for connection_lost() here)
                        if path.fail_inner == self.idx:
                            self.closing = True
                            raise ConnectionResetError(104, "injected close failure")
                        await super().aclose()

                out.append(RecListener(self.backend, extra={INETSocketAttribute.socket: lambda s=s: s, INETSocketAttribute.family: lambda s=s: s.family, INETSocketAttribute.sockname: lambda s=s: s.getsockname()}))
            return out

        self.backend.udp_listeners_factory = make

        class H(AsyncDatagramRequestHandler[str, str]):
            async def handle(self, client: Any) -> Any:
                yield

        self.server = AsyncUDPNetworkServer(None, 0, DatagramProtocol(StringLineSerializer()), H(), backend=self.backend)
        await self.server.server_activate()

    def close(self) -> Awaitable[None]:
        return self.server.server_close()


PATHS: list[type[Path]] = [
    TLSCloseAnswer,
    TLSCloseStall,
    TLSCloseVanish,
    TLSWrapStalled,
    Forcefully,
    Stapled,
    Endpoint,
    TCPClient,
    TCPClientBehindSender,
    UDPClient,
    SocketAdapter,
    ServerSideClient,
    ServerSideClientBehindSender,
    ServerSideClientLockHandOver,
    DatagramSocketAdapter,
    ListenerAdapter,
    TCPClientWhileConnecting,
    UDPClientWhileConnecting,
    EndpointBehindReader,
    TCPClientBehindReader,
    ServerSideTeardownBehindSender,
    DatagramEndpointBehindSender,
    UDPServerTwoListeners,
    DatagramListenerAdapter,
    SocketAdapterEofFails,
    TLSListenerWrapFails,
]


async def _run_once(cls: type[Path], cancel_before: int | None, fail_inner: int, early: bool = False) -> tuple[list[dict[str, Any]], int]:
    """cancel_before = k: task.cancel() is called between step k-1... precisely, after step k of the close task was run (so that the
    cancellation is delivered at the following one).  late (default): the call is queued after step k, i.e. it runs behind every
    callback that step k scheduled (connection_lost, transport callbacks); early: it is queued before step k runs, i.e. it runs
    ahead of them -- the order a timeout scheduled earlier or another task's cancel() gives."""
    events: list[dict[str, Any]] = []
    finished = [False]

    def log(e: dict[str, Any]) -> None:
        if not finished[0]:  # what the second close does to the inner transports is not part of the first close
            events.append(e)

    path = cls(log, fail_inner)
    await path.setup()
    loop = asyncio.get_running_loop()
    holder: dict[str, Any] = {}

    def on_step2(n: int) -> None:
        events.append({"ev": "step"})
        if not early and cancel_before is not None and n == cancel_before and not holder.get("cancelled"):
            holder["cancelled"] = True
            loop.call_soon(_cancel)

    def before(n: int) -> None:
        if early and cancel_before is not None and n == cancel_before and not holder.get("cancelled"):
            holder["cancelled"] = True
            loop.call_soon(_cancel)

    def _cancel() -> None:
        t = holder["task"]
        if not t.done():
            events.append({"ev": "cancel"})
            t.cancel()

    events.append({"ev": "start"})
    stepper = Stepper(path.close(), on_step2, before)
    task = loop.create_task(stepper)
    holder["task"] = task
    try:
        done, pending = await asyncio.wait([task], timeout=120)
    except vloop.VirtualDeadlock:
        pending = {task}
    nsteps = stepper.n
    if pending:
        events.append({"ev": "hang"})
        task.cancel()
    else:
        if isinstance(path, (SocketAdapter, DatagramSocketAdapter, DatagramListenerAdapter)):
            path._probe()
        finished[0] = True
        if task.cancelled():
            events.append({"ev": "end", "kind": "cancelled"})
        elif task.exception() is not None:
            events.append({"ev": "end", "kind": "failed"})
        else:
            events.append({"ev": "end", "kind": "returned"})
        # second close: must come back promptly (no virtual time, bounded number of loop iterations)
        t0 = loop.time()
        t2 = loop.create_task(_swallow(path.second()))
        for _ in range(200):
            await asyncio.sleep(0)
            if t2.done():
                break
        if t2.done() and t2.cancelled():
            # nobody cancelled this task: the second close neither returned nor failed, it killed its caller
            events.append({"ev": "second", "kind": "cancelled"})
        elif t2.done() and loop.time() - t0 < 1e-6:
            events.append({"ev": "second", "kind": "prompt"})
        else:
            events.append({"ev": "second", "kind": "slow"})
            t2.cancel()
    await path.teardown()
    return events, nsteps


async def _swallow(aw: Awaitable[None]) -> None:
    try:
        await aw
    except Exception:  # noqa: BLE001
        pass


def run(chk: Check) -> None:
    chk.rule = (
        "runs = (close path, cancellation injected immediately before task step k for every k of the un-cancelled run | none, failing inner transport | none); "
        "distinct = distinct (path, k, failing inner); the un-cancelled fault-free run of each path is the reference"
    )
    if not _model(chk):
        return
    rec: list[dict[str, Any]] = []
    per_path: dict[str, Any] = {}
    for cls in PATHS:
        fails = [0] + list(range(1, cls.ninner + 1)) + ([9] if cls is TLSWrapStalled else [])
        nruns = 0
        for fail in fails:
            try:
                evs, nsteps = vloop.run(lambda: _run_once(cls, None, fail), spin_limit=5000)
            except vloop.VirtualDeadlock:
                evs, nsteps = [{"ev": "start"}, {"ev": "hang"}], 0
            if cls not in (TCPClientBehindSender, ServerSideClientBehindSender):
                # (behind a sender that the peer never unblocks, a graceful close legitimately waits for ever: only its cancellation is of interest)
                rec.append({"inners": cls.ninner, "events": evs, "meta": f"{cls.name} cancel=none fail_inner={fail} steps={nsteps}"})
                nruns += 1
            for k in range(1, 0 if cls.own_cancel else nsteps + 1):  # k = 0 would cancel a close that has not started
                try:
                    evs2, _ = vloop.run(lambda: _run_once(cls, k, fail), spin_limit=5000)
                except vloop.VirtualDeadlock:
                    evs2 = [{"ev": "start"}, {"ev": "hang"}]
                rec.append({"inners": cls.ninner, "events": evs2, "meta": f"{cls.name} cancel_before_step={k} fail_inner={fail}"})
                nruns += 1
                # the same cancellation queued ahead of the callbacks that step k schedules (connection_lost, ...)
                try:
                    evs3, _ = vloop.run(lambda: _run_once(cls, k, fail, early=True), spin_limit=5000)
                except vloop.VirtualDeadlock:
                    evs3 = [{"ev": "start"}, {"ev": "hang"}]
                rec.append({"inners": cls.ninner, "events": evs3, "meta": f"{cls.name} cancel_before_step={k} order=early fail_inner={fail}"})
                nruns += 1
        per_path[cls.name] = nruns
    slim = [{"inners": t["inners"], "events": traces.uniform(t["events"], EVD)} for t in rec]
    res = traces.validate("ClosePathsTrace", slim, cfg_text=TRACE_CFG, parallel=4, chunk=400)
    chk.traces += len(rec)
    chk.evaluations = len(rec)
    for t in rec:
        chk.distinct.add(t["meta"])
    chk.extra["close_paths"] = {"runs": len(rec), "rejected": len(res.rejected), "runs_per_path": per_path}
    chk.sample({"meta": rec[3]["meta"], "events": [(e["ev"], e.get("i", 0), e.get("kind", "")) for e in rec[3]["events"]]}, cap=3)
    for idx, pos in sorted(res.rejected.items()):
        t = rec[idx]
        evs = t["events"]
        failing = evs[pos - 1] if 0 < pos <= len(evs) else None
        name = t["meta"].split(" cancel")[0]
        chk.violation(
            {"kind": "trace", "spec": "ClosePaths", "path": name, "event": (failing or {}).get("ev", "?"), "cancelled": "cancel_before_step" in t["meta"]},
            f"close path: obligation not met (event #{pos}: {failing}) -- {t['meta']} events={[(e['ev'], e.get('i', 0), e.get('kind', '')) for e in evs]}",
            {"kind": "close_run", "meta": t["meta"], "events": evs},
        )
    chk.not_covered.append("the client task's tear-down (exit stack of the low-level server) is exercised by the stream-server checks (C15/C17: the connection must end up closed)")
    chk.assumptions += [
        "inner transports are in-memory recording transports whose aclose() marks them closed even when their own close hook fails or is cancelled",
    ]


def replay(data: dict[str, Any]) -> int:
    print(data["replay"].get("meta"))
    for e in data["replay"].get("events", []):
        print(e)
    return 0
