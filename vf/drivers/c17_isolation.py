"""C17 - one client's failure (handler or connection set-up) never affects the others.

Isolation.tla is the containment law (server stays up; healthy clients are answered in order before, during and after the fault;
stream: the faulty connection ends closed, its disconnection hook runs iff its connection hook completed; datagram: the faulty address
is served again by a fresh handler).  Fault enumeration on the real servers: every (hook position x exception class) cell and every
connection set-up fault (reset right after accept; garbage / stalled / truncated TLS handshake) is executed on AsyncTCPNetworkServer
(plain and TLS, in-memory listener, virtual time) and AsyncUDPNetworkServer with two healthy clients active before, during and after
the fault; the merged hook / client log of every cell is validated by TLC against IsolationTrace.
"""

from __future__ import annotations

import asyncio
import os
import tempfile
from typing import Any

from .. import harness, memtransport, srvharness, tlc, tlspeer, traces, vloop
from ..common import Check

LEVEL = "fault_enumeration"
TRACE_CFG = "INIT TInit\nNEXT TNext\nCONSTANTS\n  NC = 1\n  Faulty = 1\n  MaxReq = 0\n  Stream = TRUE\nCONSTRAINT Constr\nPOSTCONDITION Post\nCHECK_DEADLOCK FALSE\n"
EVD = {"ev": "", "c": 0, "i": 0, "ok": False}

TCP_POSITIONS = [
    "onconn_coro_before",
    "onconn_coro_after_await",
    "onconn_gen_before_yield",
    "onconn_gen_after_yield",
    "handle_before_yield",
    "handle_after_yield",
    "handle_on_thrown_error",
    "on_disconnection",
]
SETUP_FAULTS_PLAIN = ["reset_after_accept", "eof_after_accept"]
SETUP_FAULTS_TLS = ["tls_garbage", "tls_stall", "tls_eof_mid_handshake"]
UDP_POSITIONS = ["handle_before_yield", "handle_after_yield", "handle_on_thrown_error"]


def _exceptions() -> dict[str, Any]:
    from easynetwork.exceptions import ClientClosedError, DeserializeError, StreamProtocolParseError

    class CustomError(Exception):
        pass

    return {
        "ValueError": lambda: ValueError("boom"),
        "CustomError": lambda: CustomError("boom"),
        "ExceptionGroup": lambda: ExceptionGroup("grp", [ValueError("a"), KeyError("b")]),
        "ConnectionResetError": lambda: ConnectionResetError(104, "reset"),
        "ClientClosedError": lambda: ClientClosedError("closed client"),
        "TimeoutError": lambda: TimeoutError("slow"),
        "OSError": lambda: OSError(5, "io"),
        "StreamProtocolParseError": lambda: StreamProtocolParseError(DeserializeError("bad"), b""),
        "ExceptionGroup(ConnectionError)": lambda: ExceptionGroup("grp", [ConnectionAbortedError(103, "aborted")]),
        # groups that mix an "expected" member (closed client / lost connection) with an ordinary failure
        "ExceptionGroup(ClientClosedError+ValueError)": lambda: ExceptionGroup("grp", [ClientClosedError("closed client"), ValueError("v")]),
        "ExceptionGroup(ConnectionError+KeyError)": lambda: ExceptionGroup("grp", [ConnectionResetError(104, "reset"), KeyError("k")]),
    }


def _model(chk: Check) -> bool:
    ok = True
    with tempfile.TemporaryDirectory(prefix="vf_c17_") as d:
        for stream in (True, False):
            cfg = os.path.join(d, f"mc_{stream}.cfg")
            consts = {"NC": "3", "Faulty": "2", "MaxReq": "2", "Stream": "TRUE" if stream else "FALSE"}
            tlc.write_cfg(cfg, constants=consts, invariants=["ServerStaysUp", "Ordered", "HookOrder"], check_deadlock=False)
            res = tlc.run_tlc("Isolation", cfg)
            chk.add_model(f"Isolation[{'stream' if stream else 'datagram'}]", res, consts, "containment law: 1 faulty + 2 healthy clients")
            if not res.ok:
                chk.model_violation("Isolation", res, consts)
                ok = False
    return ok


class _LineClient:
    """A healthy (or faulty) plain-text client over the in-memory connection."""

    def __init__(self, mc: srvharness.MemClient) -> None:
        self.mc = mc
        self.nread = 0

    def send(self, text: str) -> None:
        self.mc.feed(text.encode() + b"\n")

    async def expect(self, text: str) -> bool:
        want = text.encode() + b"\n"
        for _ in range(200):
            data = self.mc.received()[self.nread :]
            if len(data) >= len(want):
                self.nread += len(want)
                return data[: len(want)] == want
            await asyncio.sleep(0)
        await asyncio.sleep(0.5)
        data = self.mc.received()[self.nread :]
        self.nread += len(data)
        return data == want


class _TLSLineClient:
    def __init__(self, mc: srvharness.MemClient) -> None:
        self.mc = mc
        self.peer = tlspeer.Peer(mc.from_server, mc.to_server, server_side=False)
        self.buf = b""

    async def handshake(self) -> None:
        await self.peer.handshake()

    def send(self, text: str) -> None:
        self._t = asyncio.ensure_future(self.peer.write(text.encode() + b"\n"))

    async def expect(self, text: str) -> bool:
        want = text.encode() + b"\n"
        try:
            while len(self.buf) < len(want):
                data = await asyncio.wait_for(self.peer.read(), 5)
                if not data:
                    return False
                self.buf += data
        except Exception:  # noqa: BLE001
            return False
        got, self.buf = self.buf[: len(want)], self.buf[len(want) :]
        return got == want


async def _tcp_cell(position: str, exc_name: str, tls: bool, buffered: bool = False) -> dict[str, Any]:
    from easynetwork.exceptions import StreamProtocolParseError
    from easynetwork.protocol import BufferedStreamProtocol, StreamProtocol
    from easynetwork.serializers.line import StringLineSerializer
    from easynetwork.servers.handlers import AsyncStreamRequestHandler

    excs = _exceptions()
    events: list[dict[str, Any]] = []
    ids: dict[int, int] = {}
    pending_ids: list[int] = []  # ids of the connections that will reach the handler, in accept order
    FAULTY = 2

    def ev(kind: str, c: int = 0, i: int = 0, ok: bool = False) -> None:
        events.append({"ev": kind, "c": c, "i": i, "ok": ok})

    def boom() -> None:
        ev("fault")
        raise excs[exc_name]()

    class Handler(AsyncStreamRequestHandler[str, str]):
        def on_connection(self, client: Any) -> Any:
            cid = pending_ids.pop(0)
            ids[id(client)] = cid
            if cid == FAULTY and position.startswith("onconn_gen"):
                return self._onconn_gen(client, cid)
            return self._onconn_coro(client, cid)

        async def _onconn_coro(self, client: Any, cid: int) -> None:
            if cid == FAULTY and position == "onconn_coro_before":
                boom()
            await asyncio.sleep(0)
            if cid == FAULTY and position == "onconn_coro_after_await":
                boom()
            ev("onconn", cid)

        async def _onconn_gen(self, client: Any, cid: int) -> Any:
            if position == "onconn_gen_before_yield":
                boom()
            req = yield
            await client.send_packet("a" + req[1:])
            boom()

        async def handle(self, client: Any) -> Any:
            cid = ids[id(client)]
            if cid == FAULTY and position == "handle_before_yield":
                boom()
            try:
                req = yield
            except StreamProtocolParseError:
                if cid == FAULTY and position == "handle_on_thrown_error":
                    if exc_name == "StreamProtocolParseError":
                        ev("fault")
                        raise
                    boom()
                return
            except Exception:
                # a lost connection is a disconnection (on_disconnection), never an exception handed to the handler: no disjunct of the
                # trace specification takes this event
                ev("thrown", cid)
                raise
            if cid == FAULTY and position == "handle_after_yield":
                boom()
            await client.send_packet("a" + req[1:])

        async def on_disconnection(self, client: Any) -> None:
            cid = ids[id(client)]
            ev("disconnect", cid)
            if cid == FAULTY and position == "on_disconnection":
                boom()

    kw: dict[str, Any] = {}
    if tls:
        # a stalled / broken handshake must be abandoned after ssl_handshake_timeout (5 s), whatever the other timeouts are: in those cells the
        # shutdown timeout is longer than the observation window, elsewhere it is short so that closing a silent client ends within it
        kw = {"ssl": tlspeer.server_context(), "ssl_handshake_timeout": 5, "ssl_shutdown_timeout": 30 if position in SETUP_FAULTS_TLS else 1}
    fx = srvharness.TCPServerFixture((BufferedStreamProtocol if buffered else StreamProtocol)(StringLineSerializer()), Handler(), **kw)
    await fx.start()
    sent = {1: 0, 2: 0, 3: 0}

    async def new_client(cid: int) -> Any:
        if not (cid == FAULTY and position in SETUP_FAULTS_TLS):
            pending_ids.append(cid)
        mc = fx.connect()
        ev("connect", cid)
        if tls and not (cid == FAULTY and position in SETUP_FAULTS_TLS):
            c: Any = _TLSLineClient(mc)
            await asyncio.wait_for(c.handshake(), 10)
        else:
            c = _LineClient(mc)
        await harness.settle()
        return c

    async def exchange(c: Any, cid: int) -> None:
        sent[cid] += 1
        i = sent[cid]
        ev("req", cid, i)
        c.send(f"q{i}")
        ok = await c.expect(f"a{i}")
        if ok:
            ev("resp", cid, i, True)
        else:
            ev("noresp", cid, i)

    h1 = await new_client(1)
    await exchange(h1, 1)
    # the faulty client
    f = await new_client(2)
    if position in SETUP_FAULTS_PLAIN + SETUP_FAULTS_TLS:
        ev("fault")
        if position == "reset_after_accept":
            f.mc.reset()
        elif position == "eof_after_accept":
            f.mc.close()
        elif position == "tls_garbage":
            f.mc.feed(b"GET / HTTP/1.1\r\nHost: x\r\n\r\n" * 3)
        elif position == "tls_eof_mid_handshake":
            f.mc.feed(b"\x16\x03\x01\x00\xc8\x01\x00\x00")
            f.mc.close()
        # tls_stall: nothing is ever sent; the handshake timeout fires in virtual time
    elif position in ("onconn_gen_after_yield", "handle_after_yield"):
        sent[2] += 1
        ev("req", 2, 1)
        f.send("q1")
        if position == "onconn_gen_after_yield":
            if await f.expect("a1"):
                ev("resp", 2, 1, True)
    elif position == "handle_on_thrown_error":
        if tls:
            f._t = asyncio.ensure_future(f.peer.write(b"\xff\xfe\n"))
        else:
            f.mc.feed(b"\xff\xfe\n")
    elif position == "tls_ragged_close":
        # after a completed handshake and one exchange the faulty client's TCP connection ends without a TLS close notification:
        # in standard-compatible mode this is a connection error, which the server treats as any other disconnection
        await exchange(f, 2)
        ev("fault")
        f.mc.close()
    elif position == "on_disconnection":
        await exchange(f, 2)
        if tls:
            await f.peer.close_notify()
        f.mc.close()
    await harness.settle()
    # healthy traffic during the fault
    await exchange(h1, 1)
    h2 = await new_client(3)
    await exchange(h2, 3)
    await asyncio.sleep(8)  # handshake timeouts, shutdown timeouts ... all in virtual time
    await harness.settle()
    ev("closed", 2, ok=bool(f.mc.server_side.closed))
    # and after it
    await exchange(h1, 1)
    await exchange(h2, 3)
    alive = fx.task is not None and not fx.task.done() and fx.server.is_serving()
    ev("end", ok=bool(alive))
    await fx.stop()
    # order: "disconnect"/"closed" bookkeeping of the faulty client must precede "end"; already the case
    return {
        "nc": 3,
        "faulty": 2,
        "stream": True,
        "events": traces.uniform(events, EVD),
        "meta": f"{'TLS' if tls else 'TCP'}{' (buffered protocol)' if buffered else ''} position={position} exception={exc_name}",
    }


async def _udp_cell(position: str, exc_name: str, eager: bool = False) -> dict[str, Any]:
    from easynetwork.exceptions import DatagramProtocolParseError
    from easynetwork.protocol import DatagramProtocol
    from easynetwork.serializers.line import StringLineSerializer
    from easynetwork.servers.async_udp import AsyncUDPNetworkServer
    from easynetwork.servers.handlers import AsyncDatagramRequestHandler

    if eager:
        # an event loop with eager task start (the datagram server has special code for it)
        asyncio.get_running_loop().set_task_factory(asyncio.eager_task_factory)
    excs = _exceptions()
    events: list[dict[str, Any]] = []
    addrs = {1: ("10.0.0.1", 11), 2: ("10.0.0.2", 22), 3: ("10.0.0.3", 33)}
    by_addr = {v: k for k, v in addrs.items()}
    armed = [True]

    def ev(kind: str, c: int = 0, i: int = 0, ok: bool = False) -> None:
        events.append({"ev": kind, "c": c, "i": i, "ok": ok})

    # eager cells, failure after the first yield: three more datagrams of the faulty address are queued while its handler is suspended;
    # when that run ends with its failure, the queued ones are dispatched to runs that fail before they ever suspend
    burst = [3 if (eager and position == "handle_after_yield") else 0]
    gate = asyncio.Event()

    fault_logged = [False]

    def boom() -> None:
        if not fault_logged[0]:
            fault_logged[0] = True
            ev("fault")
        armed[0] = burst[0] > 0
        burst[0] -= 1
        if exc_name == "StreamProtocolParseError":
            raise excs["ValueError"]()
        raise excs[exc_name]()

    class Handler(AsyncDatagramRequestHandler[str, str]):
        async def handle(self, client: Any) -> Any:
            cid = by_addr[_client_addr(client)]
            if cid == 2 and armed[0] and (position == "handle_before_yield" or (fault_logged[0] and burst[0] >= 0 and eager)):
                boom()
            try:
                req = yield
            except DatagramProtocolParseError:
                if cid == 2 and armed[0] and position == "handle_on_thrown_error":
                    boom()
                return
            if cid == 2 and armed[0] and position == "handle_after_yield":
                if burst[0] == 3:
                    await gate.wait()
                boom()
            if cid == 2 and armed[0] and burst[0] >= 0 and position == "handle_after_yield":
                boom()
            await client.send_packet("a" + req[1:])

    backend = harness.HarnessBackend()
    import socket

    lsock = socket.socket(socket.AF_INET, socket.SOCK_DGRAM)
    lsock.bind(("127.0.0.1", 0))
    listeners: list[memtransport.MemDatagramListener] = []

    def make(*a: Any, **kw: Any) -> list[Any]:
        lst = memtransport.MemDatagramListener(backend, extra=_dgram_extra(lsock))
        listeners.append(lst)
        return [lst]

    backend.udp_listeners_factory = make
    server = AsyncUDPNetworkServer("127.0.0.1", 0, DatagramProtocol(StringLineSerializer()), Handler(), backend=backend)
    up = asyncio.Event()
    task = asyncio.get_running_loop().create_task(server.serve_forever(is_up_event=up))
    await asyncio.wait([task, asyncio.ensure_future(up.wait())], return_when=asyncio.FIRST_COMPLETED)
    lst = listeners[-1]
    sent = {1: 0, 2: 0, 3: 0}
    seen = 0

    async def exchange(cid: int, payload: bytes | None = None) -> None:
        nonlocal seen
        sent[cid] += 1
        i = sent[cid]
        ev("req", cid, i)
        lst.push(payload if payload is not None else f"q{i}".encode(), addrs[cid])
        await harness.settle()
        new = lst.sent[seen:]
        seen = len(lst.sent)
        ok = any(d == f"a{i}".encode() and a == addrs[cid] for d, a in new)
        if ok:
            ev("resp", cid, i, True)

    for cid in (1, 2, 3):
        ev("connect", cid)
    await exchange(1)
    if position == "handle_on_thrown_error":
        await exchange(2, b"\xff\xfe")
    elif burst[0] == 3:
        sent[2] += 1
        ev("req", 2, 1)
        lst.push(b"q1", addrs[2])
        await harness.settle()  # its handler is suspended behind the gate
        for _ in range(3):
            lst.push(b"q0", addrs[2])
        await harness.settle()
        gate.set()
        await harness.settle()
        seen = len(lst.sent)
    else:
        await exchange(2)
    await exchange(1)
    await exchange(3)
    await exchange(2)  # a later datagram of the faulty address: fresh handler
    await exchange(1)
    await exchange(3)
    alive = not task.done() and server.is_serving()
    ev("end", ok=bool(alive))
    await server.shutdown()
    await server.server_close()
    await asyncio.gather(task, return_exceptions=True)
    lsock.close()
    return {"nc": 3, "faulty": 2, "stream": False, "events": traces.uniform(events, EVD), "meta": f"UDP{'(eager tasks)' if eager else ''} position={position} exception={exc_name}"}


async def _relay_scenario(exc_name: str) -> list[str]:
    """A relay server: the handlers keep the client objects in a registry and write to each other's.  Client A's handler fails; client B then
    asks the server to write to A: B's handler must be told at once that A is gone (ClientClosedError) and B keeps being served."""
    from easynetwork.exceptions import ClientClosedError
    from easynetwork.protocol import StreamProtocol
    from easynetwork.serializers.line import StringLineSerializer
    from easynetwork.servers.handlers import AsyncStreamRequestHandler

    exc_factory = _exceptions()[exc_name]
    registry: dict[str, Any] = {}
    problems: list[str] = []

    class Relay(AsyncStreamRequestHandler[str, str]):
        async def handle(self, client: Any) -> Any:
            while True:
                req = yield
                if req.startswith("iam "):
                    registry[req[4:]] = client
                    await client.send_packet("ok")
                elif req == "crash":
                    raise exc_factory()
                elif req.startswith("to "):
                    _, name, text = req.split(" ", 2)
                    try:
                        await registry[name].send_packet(text)
                        await client.send_packet("sent")
                    except ClientClosedError:
                        await client.send_packet("gone")
                    except OSError:
                        await client.send_packet("gone")
                else:
                    await client.send_packet("pong")

    fx = srvharness.TCPServerFixture(StreamProtocol(StringLineSerializer()), Relay())
    await fx.start()
    try:
        a, b = _LineClient(fx.connect()), _LineClient(fx.connect())
        await harness.settle()
        a.send("iam alice")
        b.send("iam bob")
        if not (await a.expect("ok") and await b.expect("ok")):
            problems.append("registration not answered")
        b.send("to alice hello")
        if not (await a.expect("hello") and await b.expect("sent")):
            problems.append("relay to a live client does not work")
        a.send("crash")
        await harness.settle()
        await asyncio.sleep(1)
        b.send("to alice are you there")
        if not await b.expect("gone"):
            problems.append("bob's request to write to the dead client was never answered with 'gone' (his handler is stuck or was taken down)")
        b.send("ping")
        if not await b.expect("pong"):
            problems.append("bob is not served any more after touching the dead client's object")
        if fx.task is not None and fx.task.done():
            problems.append("the server stopped")
    finally:
        await fx.stop()
    return problems


def _client_addr(client: Any) -> Any:
    from easynetwork.servers.handlers import INETClientAttribute

    a = client.extra(INETClientAttribute.remote_address)
    return (a.host, a.port)


def _addr_attr() -> Any:
    return None


def _dgram_extra(sock: Any) -> dict[Any, Any]:
    from easynetwork.lowlevel.socket import INETSocketAttribute

    return {
        INETSocketAttribute.socket: lambda: sock,
        INETSocketAttribute.family: lambda: sock.family,
        INETSocketAttribute.sockname: lambda: sock.getsockname(),
    }


def run(chk: Check) -> None:
    quick = chk.tier == "quick"
    chk.rule = (
        "cells = (server kind in {TCP, TLS, UDP}) x (hook position | connection set-up fault) x (exception class); every cell is one run with two "
        "healthy clients exchanging requests before, during and after the fault; distinct = distinct cells; all cells are non-trivial (a fault is injected in each)"
    )
    if not _model(chk):
        return
    excs = list(_exceptions())
    rec: list[dict[str, Any]] = []

    def cell(coro_fn: Any, meta: str) -> None:
        try:
            rec.append(vloop.run(coro_fn, spin_limit=20000))
        except vloop.VirtualDeadlock as exc:
            rec.append({"nc": 3, "faulty": 2, "stream": True, "events": [dict(EVD, ev="deadlock")], "meta": f"{meta} VirtualDeadlock {exc}"})
        except Exception as exc:  # noqa: BLE001
            rec.append({"nc": 3, "faulty": 2, "stream": True, "events": [dict(EVD, ev="harness_exception")], "meta": f"{meta} {type(exc).__name__}: {exc}"})

    for pos in TCP_POSITIONS:
        for en in excs:
            if en == "StreamProtocolParseError" and pos != "handle_on_thrown_error":
                continue
            cell(lambda: _tcp_cell(pos, en, False), f"TCP {pos} {en}")
    for pos in SETUP_FAULTS_PLAIN:
        cell(lambda: _tcp_cell(pos, "-", False), f"TCP {pos}")
    tls_excs = excs if not quick else ["ValueError", "ExceptionGroup", "ConnectionResetError"]
    for pos in SETUP_FAULTS_TLS:
        cell(lambda: _tcp_cell(pos, "-", True), f"TLS {pos}")
    for b in (False, True):
        cell(lambda: _tcp_cell("tls_ragged_close", "-", True, buffered=b), f"TLS tls_ragged_close buffered={b}")
    cell(lambda: _tcp_cell("reset_after_accept", "-", False, buffered=True), "TCP (buffered protocol) reset_after_accept")
    cell(lambda: _tcp_cell("on_disconnection", "ValueError", True, buffered=True), "TLS (buffered protocol) on_disconnection ValueError")
    for pos in ("handle_after_yield", "onconn_coro_before", "on_disconnection") if quick else TCP_POSITIONS:
        for en in tls_excs:
            if en == "StreamProtocolParseError" and pos != "handle_on_thrown_error":
                continue
            cell(lambda: _tcp_cell(pos, en, True), f"TLS {pos} {en}")
    for pos in UDP_POSITIONS:
        for en in excs:
            if en == "StreamProtocolParseError":
                continue
            cell(lambda: _udp_cell(pos, en), f"UDP {pos} {en}")
            if en in ("ValueError", "ExceptionGroup", "ClientClosedError"):
                cell(lambda: _udp_cell(pos, en, eager=True), f"UDP(eager tasks) {pos} {en}")
    slim = [{"nc": t["nc"], "faulty": t["faulty"], "stream": t["stream"], "events": t["events"]} for t in rec]
    res = traces.validate("IsolationTrace", slim, cfg_text=TRACE_CFG, parallel=4, chunk=400)
    chk.traces += len(rec)
    chk.evaluations = len(rec)
    for t in rec:
        chk.distinct.add(t["meta"])
    for en in ("ValueError", "ExceptionGroup", "ConnectionResetError", "TimeoutError") if quick else excs:
        if en == "StreamProtocolParseError":
            continue
        try:
            problems = vloop.run(lambda: _relay_scenario(en), spin_limit=20000)
        except vloop.VirtualDeadlock as exc:
            problems = [f"the scenario does not end: {exc}"]
        chk.traces += 1
        chk.distinct.add(("relay", en))
        if problems:
            chk.violation(
                {"kind": "relay", "what": "dead_client_object", "exception": en},
                f"relay server, client A's handler raises {en}, client B's handler then writes to A's client object: {problems}",
                {"kind": "relay", "exception": en},
            )
    from . import c17_accept

    c17_accept.run(chk)
    chk.extra["cells"] = {"runs": len(rec), "rejected": len(res.rejected), "tcp_positions": TCP_POSITIONS, "setup_faults": SETUP_FAULTS_PLAIN + SETUP_FAULTS_TLS, "exception_classes": excs}
    chk.sample({"meta": rec[5]["meta"], "events": [(e["ev"], e["c"], e["i"], e["ok"]) for e in rec[5]["events"]]}, cap=3)
    for idx, pos_ in sorted(res.rejected.items())[:40]:
        t = rec[idx]
        failing = t["events"][pos_ - 1] if 0 < pos_ <= len(t["events"]) else None
        chk.violation(
            {"kind": "trace", "spec": "Isolation", "cell": t["meta"]},
            f"isolation: not a behaviour of Isolation (event #{pos_}: {failing}) -- {t['meta']} events={[(e['ev'], e['c'], e['i']) for e in t['events']]}",
            {"kind": "isolation_cell", "meta": t["meta"], "events": t["events"]},
        )
    chk.assumptions += [
        "BaseException subclasses that are meant to stop the interpreter (KeyboardInterrupt, SystemExit) and task cancellation are not 'failures of one client'",
    ]


def replay(data: dict[str, Any]) -> int:
    print(data["replay"].get("meta"))
    for e in data["replay"].get("events", []):
        print(e)
    return 0
