"""Shared plumbing of the checks: repository path, evidence, violations, known findings."""

from __future__ import annotations

import dataclasses
import json
import os
import sys
import time
from typing import Any

VERIF = os.path.dirname(os.path.dirname(os.path.abspath(__file__)))
REPO = os.environ.get("VERIF_REPO", "/repo")
# (VERIF_EVIDENCE_DIR: somewhere else for runs that must not touch the registered evidence - seed regressions, load tests)
EVIDENCE_DIR = os.environ.get("VERIF_EVIDENCE_DIR") or os.path.join(VERIF, "evidence")
REPLAY_DIR = os.path.join(EVIDENCE_DIR, "replay")
FINDINGS_FILE = os.path.join(VERIF, "known_findings.json")
GUARD = "EASYNETWORK_VERIF"


def use_repo() -> str:
    """Make `import easynetwork` resolve to the working tree of the repository under test."""
    src = os.path.join(REPO, "src")
    if sys.path[0] != src:
        sys.path.insert(0, src)
    os.environ.setdefault(GUARD, "1")
    import easynetwork  # noqa: F401

    got = os.path.dirname(os.path.abspath(easynetwork.__file__))
    if not got.startswith(os.path.abspath(src)):
        raise RuntimeError(f"easynetwork imported from {got}, expected under {src}")
    return src


def seed() -> int:
    try:
        return int(os.environ.get("VERIF_SEED", "0"))
    except ValueError:
        return 0


@dataclasses.dataclass
class Violation:
    signature: dict[str, Any]  # canonical keys used for known-finding matching
    what: str
    replay: dict[str, Any]  # enough to re-execute


class Check:
    """Accumulates what a check run covered, and decides the exit status."""

    def __init__(self, prop: str, tier: str, level: str) -> None:
        self.prop = prop
        self.tier = tier
        self.level = level
        self.seed = seed()
        self.t0 = time.time()
        self.states = 0
        self.transitions = 0
        self.traces = 0
        self.evaluations = 0
        self.distinct: set[Any] = set()
        self.distinct_extra = 0
        self.samples: list[Any] = []
        self.models: list[dict[str, Any]] = []
        self.assumptions: list[str] = []
        self.not_covered: list[str] = []
        self.violations: list[Violation] = []
        self.extra: dict[str, Any] = {}
        self.rule = ""
        self.exhaustive: bool | None = None
        self.machinery_errors: list[str] = []

    # -- recording ---------------------------------------------------------
    def add_model(self, name: str, res: Any, constants: Any = None, note: str = "") -> None:
        self.states += res.distinct
        self.transitions += res.generated
        self.models.append(
            {
                "module": name,
                "constants": constants,
                "distinct_states": res.distinct,
                "states_generated": res.generated,
                "depth": res.depth,
                "wall_s": round(res.wall_s, 2),
                "actions_never_taken": res.never_taken,
                "coverage": {k: list(v) for k, v in res.coverage.items()} if res.coverage else None,
                "note": note,
            }
        )

    def sample(self, s: Any, cap: int = 6) -> None:
        if len(self.samples) < cap:
            self.samples.append(s)

    def violation(self, signature: dict[str, Any], what: str, replay: dict[str, Any]) -> None:
        self.violations.append(Violation(signature, what, replay))

    def model_violation(self, module: str, res: Any, constants: Any = None) -> None:
        """TLC found a counterexample in a model that is supposed to hold."""
        self.violation(
            {"kind": "model", "module": module, "what": res.violation},
            f"TLC: {res.violation} in {module}",
            {"kind": "tlc_counterexample", "module": module, "constants": constants, "trace": _jsonable(res.trace)},
        )

    # -- finishing ---------------------------------------------------------
    def finish(self) -> int:
        known = load_findings()
        os.makedirs(EVIDENCE_DIR, exist_ok=True)
        new: list[Violation] = []
        known_hits: dict[str, int] = {}
        for v in self.violations:
            k = match_finding(known, self.prop, v.signature)
            if k is not None:
                known_hits[k["what"]] = known_hits.get(k["what"], 0) + 1
            else:
                new.append(v)
        for what, n in known_hits.items():
            print(f"KNOWN-FINDING: property={self.prop} {what} ({n} occurrence(s) in this run)")
        rc = 0
        if os.path.isdir(REPLAY_DIR):
            for name in os.listdir(REPLAY_DIR):
                if name.startswith(f"{self.prop}_{self.tier}_"):
                    os.unlink(os.path.join(REPLAY_DIR, name))
        if new:
            os.makedirs(REPLAY_DIR, exist_ok=True)
            seen = set()
            for idx, v in enumerate(new):
                key = json.dumps(v.signature, sort_keys=True, default=str)
                if key in seen and idx > 0:
                    continue
                seen.add(key)
                if len(seen) > 10:
                    break
                path = os.path.join(REPLAY_DIR, f"{self.prop}_{self.tier}_{len(seen)}.json")
                with open(path, "w") as f:
                    json.dump(
                        {"property": self.prop, "signature": v.signature, "what": v.what, "replay": _jsonable(v.replay)},
                        f,
                        indent=1,
                        default=str,
                    )
                print(f"VIOLATION property={self.prop} replay={path}")
                print(f"  what: {v.what}")
            rc = 1
        self.write_evidence(len(new), known_hits)
        if self.machinery_errors:
            for e in self.machinery_errors:
                print(f"MACHINERY-ERROR property={self.prop}: {e}", file=sys.stderr)
            return 2 if rc == 0 else rc
        return rc

    def write_evidence(self, nviol: int, known_hits: dict[str, int]) -> None:
        cov: dict[str, Any] = {}
        ndist = len(self.distinct) + self.distinct_extra
        if self.level == "model_checking":
            cov.update(
                states=self.states,
                transitions=self.transitions,
                traces_validated_against_impl=self.traces,
            )
        cov.update(
            evaluations=max(self.evaluations, self.traces),
            distinct_nontrivial=ndist,
            rule=self.rule,
            samples=_jsonable(self.samples) or ["(no sample recorded)"],
            models=self.models,
            not_covered=self.not_covered,
            known_findings_hit=known_hits,
        )
        if self.exhaustive is not None:
            cov["exhaustive"] = self.exhaustive
        cov.update(_jsonable(self.extra))
        ev = {
            "property_id": self.prop,
            "tier": self.tier,
            "seed": self.seed,
            "level": self.level,
            "coverage": cov,
            "assumptions": self.assumptions,
            "wall_s": round(time.time() - self.t0, 2),
            "violations": nviol,
        }
        os.makedirs(EVIDENCE_DIR, exist_ok=True)
        with open(os.path.join(EVIDENCE_DIR, f"{self.prop}.json"), "w") as f:
            json.dump(ev, f, indent=1, default=str)


def _jsonable(v: Any) -> Any:
    if isinstance(v, dict):
        return {str(k): _jsonable(x) for k, x in v.items()}
    if isinstance(v, (list, tuple)):
        return [_jsonable(x) for x in v]
    if isinstance(v, (set, frozenset)):
        return sorted((_jsonable(x) for x in v), key=str)
    if isinstance(v, (bytes, bytearray, memoryview)):
        return bytes(v).decode("latin-1")
    if isinstance(v, (str, int, float, bool)) or v is None:
        return v
    return repr(v)


def load_findings() -> list[dict[str, Any]]:
    try:
        with open(FINDINGS_FILE) as f:
            data = json.load(f)
    except FileNotFoundError:
        return []
    return [e for e in data.get("findings", []) if e.get("status") == "known"]


def match_finding(known: list[dict[str, Any]], prop: str, signature: dict[str, Any]) -> dict[str, Any] | None:
    for e in known:
        if e.get("property") != prop:
            continue
        m = e.get("match", {})
        if all(_match_value(signature.get(k), v) for k, v in m.items()):
            return e
    return None


def _match_value(got: Any, want: Any) -> bool:
    if isinstance(want, list):
        return got in want
    return got == want


def pmap(func: Any, items: list[Any], *, procs: int | None = None, min_items: int = 120) -> list[Any]:
    """Ordered map over independent, seed-determined scenarios in forked worker processes (each scenario builds its own event loop,
    sockets and clock; nothing is shared).  Small batches run in-process."""
    if len(items) < min_items or os.environ.get("VERIF_NO_FORK"):
        return [func(x) for x in items]
    import multiprocessing

    ctx = multiprocessing.get_context("fork")
    n = procs or min(12, os.cpu_count() or 4)
    with ctx.Pool(n) as pool:
        return pool.map(func, items, chunksize=max(1, len(items) // (n * 8)))
