------------------------------ MODULE SendLock ------------------------------
(* N concurrent senders on one client object:   async with send_lock: ... await endpoint.send_packet(packet)
   The transport may suspend the sender before every chunk it writes.  Suspension points of a sender are exactly:
   waiting for the lock, and waiting in the transport before chunk k.  One action = from one suspension point to
   the next (what one task step does), so a release and the FIFO hand-off to the longest waiter happen in the step
   that writes the last chunk (the hand-off protocol itself, including cancellations, is FairLock.tla).        *)
EXTENDS Naturals, Sequences, FiniteSets, TLC

CONSTANTS Senders,     \* set of sender ids (naturals)
          NChunks,     \* chunks per packet (>= 1)
          PktsPer,     \* packets each sender wants to send
          MaxCancel    \* cancellations of *queued* senders

VARIABLES pc,        \* per sender: "idle" | "queued" | "sending" | "done"
          pkt,       \* per sender: index of the packet being / to be sent (1-based)
          chunk,     \* per sender: number of chunks of the current packet already written
          holder,    \* sender holding the lock or 0
          queue,     \* FIFO of queued senders
          wire,      \* sequence of <<sender, packet, chunk>>
          ncancel,
          cancelled  \* set of <<sender, packet>> whose call was cancelled while queued
vars == <<pc, pkt, chunk, holder, queue, wire, ncancel, cancelled>>

Init == /\ pc = [s \in Senders |-> "idle"] /\ pkt = [s \in Senders |-> 1] /\ chunk = [s \in Senders |-> 0]
        /\ holder = 0 /\ queue = <<>> /\ wire = <<>> /\ ncancel = 0 /\ cancelled = {}

\* send_packet() called: runs until the lock wait or the transport's first suspension
Call(s) ==
  /\ pc[s] = "idle" /\ pkt[s] <= PktsPer
  /\ IF holder = 0 /\ queue = <<>>
     THEN holder' = s /\ pc' = [pc EXCEPT ![s] = "sending"] /\ UNCHANGED queue
     ELSE queue' = Append(queue, s) /\ pc' = [pc EXCEPT ![s] = "queued"] /\ UNCHANGED holder
  /\ UNCHANGED <<pkt, chunk, wire, ncancel, cancelled>>

\* the transport lets the holder write its next chunk; after the last one the call returns and the lock goes to the head
Send(s) ==
  /\ pc[s] = "sending" /\ holder = s
  /\ wire' = Append(wire, <<s, pkt[s], chunk[s] + 1>>)
  /\ IF chunk[s] + 1 < NChunks
     THEN /\ chunk' = [chunk EXCEPT ![s] = @ + 1] /\ UNCHANGED <<pc, pkt, holder, queue>>
     ELSE /\ chunk' = [chunk EXCEPT ![s] = 0] /\ pkt' = [pkt EXCEPT ![s] = @ + 1]
          /\ IF queue = <<>>
             THEN holder' = 0 /\ queue' = queue
                  /\ pc' = [pc EXCEPT ![s] = IF pkt[s] + 1 > PktsPer THEN "done" ELSE "idle"]
             ELSE holder' = Head(queue) /\ queue' = Tail(queue)
                  /\ pc' = [pc EXCEPT ![s] = (IF pkt[s] + 1 > PktsPer THEN "done" ELSE "idle"), ![Head(queue)] = "sending"]
  /\ UNCHANGED <<ncancel, cancelled>>

\* a queued sender is cancelled: it leaves the queue, its packet is never written, nobody else is affected
Cancel(s) ==
  /\ pc[s] = "queued" /\ ncancel < MaxCancel
  /\ queue' = SelectSeq(queue, LAMBDA x : x # s)
  /\ cancelled' = cancelled \cup {<<s, pkt[s]>>}
  /\ pkt' = [pkt EXCEPT ![s] = @ + 1]
  /\ pc' = [pc EXCEPT ![s] = IF pkt[s] + 1 > PktsPer THEN "done" ELSE "idle"]
  /\ ncancel' = ncancel + 1
  /\ UNCHANGED <<chunk, holder, wire>>

Finished == \A s \in Senders : pc[s] = "done"
Next == (\E s \in Senders : Call(s) \/ Send(s) \/ Cancel(s)) \/ (Finished /\ UNCHANGED vars)
Spec == Init /\ [][Next]_vars /\ WF_vars(\E s \in Senders : Call(s) \/ Send(s))

-----------------------------------------------------------------------------
\* the wire is a concatenation of whole packets, each written contiguously with its chunks in order,
\* followed by at most one partial packet (the holder's)
Contiguous ==
  \A i \in 1..Len(wire) :
     LET e == wire[i] IN
       IF e[3] = 1 THEN (i = 1 \/ wire[i - 1][3] = NChunks)
       ELSE i > 1 /\ wire[i - 1] = <<e[1], e[2], e[3] - 1>>
\* exactly once
ExactlyOnce == \A i, j \in 1..Len(wire) : wire[i] = wire[j] => i = j
\* packets of one sender keep their order
SenderOrder == \A i, j \in 1..Len(wire) : (i < j /\ wire[i][1] = wire[j][1]) => wire[i][2] <= wire[j][2]
HolderConsistent == /\ (holder # 0 => pc[holder] = "sending")
                    /\ \A s \in Senders : pc[s] = "sending" => holder = s
                    /\ \A i \in 1..Len(queue) : pc[queue[i]] = "queued"
NeverWritten == \A i \in 1..Len(wire) : <<wire[i][1], wire[i][2]>> \notin cancelled
\* every non-cancelled packet is fully written in the end
AllSent == Finished => \A s \in Senders : \A p \in 1..PktsPer :
              <<s, p>> \notin cancelled => \E i \in 1..Len(wire) : wire[i] = <<s, p, NChunks>>
Terminates == <>Finished
=============================================================================
