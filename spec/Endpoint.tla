------------------------------ MODULE Endpoint ------------------------------
(* The packet endpoint over a connected stream (lowlevel AsyncStreamEndpoint / StreamEndpoint): what each call answers, at
   the grain "one call or one peer action, then everything that can run has run".  Not one of the listed properties: the
   answers of recv_packet / send_packet / send_eof / aclose in every order, around the peer's packets, half packets and
   end-of-stream, with one call of each direction possibly pending (Async) - who is told "busy", what a close does to a
   pending receive, what stays sticky.

   Async = TRUE : calls are tasks, a receive with nothing to deliver and a big send (the peer does not read) stay pending;
                  a second call in the same direction is refused ("busy"), aclose() too while a send is pending.
   Async = FALSE: the blocking endpoint called with timeout = 0: "timeout" instead of pending, no big sends.

   out[a]: how actor a's last call ended:
     "packet" "ok" | "eof" (ConnectionAbortedError, end-of-stream) | "gone" (a connection error on a closed endpoint)
     "busy" (BusyResourceError) | "runtime" (send_packet after send_eof) | "timeout" | "pending" | "cancelled" | "none"     *)
EXTENDS Naturals, Sequences, FiniteSets
CONSTANTS Actors, Async, MaxOps, MaxPeer
VARIABLES inBuf,    \* complete packets already read from the socket (they came along with an earlier one), not delivered yet
          inKernel, \* complete packets waiting in the socket
          punread,  \* the beginning of a packet is waiting in the socket
          partial,  \* the peer's last bytes are the beginning of a packet
          peerEof,  \* the peer closed its sending half
          npeer,    \* packets the peer has sent (complete ones)
          ngot,     \* packets delivered to callers
          rwait, swait,   \* actor whose recv_packet / send_packet is pending (0: none)
          eofSent, closed, eofSeen,
          out, sent, nops
vars == <<inBuf, inKernel, punread, partial, peerEof, npeer, ngot, rwait, swait, eofSent, closed, eofSeen, out, sent, nops>>

avail == inBuf + inKernel
Init == /\ inBuf = 0 /\ inKernel = 0 /\ punread = FALSE /\ partial = FALSE /\ peerEof = FALSE /\ npeer = 0 /\ ngot = 0 /\ rwait = 0 /\ swait = 0
        /\ eofSent = FALSE /\ closed = FALSE /\ eofSeen = FALSE /\ out = [a \in Actors |-> "none"] /\ sent = <<>> /\ nops = 0

Idle(a) == rwait # a /\ swait # a
Answer(a, o) == out' = [out EXCEPT ![a] = o]

\* ---- the peer ----
\* a pending receive reads whatever arrives at once; otherwise the bytes wait in the socket
Deliver == /\ punread' = FALSE /\ UNCHANGED inBuf
           /\ IF rwait # 0
              THEN Answer(rwait, "packet") /\ rwait' = 0 /\ ngot' = ngot + 1 /\ UNCHANGED inKernel
              ELSE inKernel' = inKernel + 1 /\ UNCHANGED <<out, rwait, ngot>>
PeerSend == /\ ~closed /\ ~peerEof /\ ~partial /\ npeer < MaxPeer /\ npeer' = npeer + 1 /\ Deliver
            /\ UNCHANGED <<partial, peerEof, swait, eofSent, closed, eofSeen, sent, nops>>
PeerHalf == /\ ~closed /\ ~peerEof /\ ~partial /\ npeer < MaxPeer /\ partial' = TRUE     \* a pending receive stays pending
            /\ punread' = (rwait = 0)
            /\ UNCHANGED <<inBuf, inKernel, peerEof, npeer, ngot, rwait, swait, eofSent, closed, eofSeen, out, sent, nops>>
PeerRest == /\ ~closed /\ ~peerEof /\ partial /\ partial' = FALSE /\ npeer' = npeer + 1 /\ Deliver
            /\ UNCHANGED <<peerEof, swait, eofSent, closed, eofSeen, sent, nops>>
PeerEof == /\ ~closed /\ ~peerEof /\ peerEof' = TRUE
           /\ IF rwait # 0 THEN Answer(rwait, "eof") /\ rwait' = 0 /\ eofSeen' = TRUE ELSE UNCHANGED <<out, rwait, eofSeen>>
           /\ UNCHANGED <<inBuf, inKernel, punread, partial, npeer, ngot, swait, eofSent, closed, sent, nops>>
\* the peer reads what was written to it: the pending big send completes
PeerDrain == /\ swait # 0 /\ Answer(swait, "ok") /\ swait' = 0
             /\ UNCHANGED <<inBuf, inKernel, punread, partial, peerEof, npeer, ngot, rwait, eofSent, closed, eofSeen, sent, nops>>

\* ---- calls ----
\* One read takes everything that waits in the socket (the packets here are tiny): the first packet is returned, the others stay in the
\* endpoint's buffer and are served from there without touching the socket.  The blocking endpoint called with timeout = 0 gives up after a
\* read that brought no complete packet ("timeout"), even when the end of the stream is right behind: the next call reports it.
Recv(a) == /\ Idle(a) /\ nops < MaxOps /\ nops' = nops + 1
           /\ IF rwait # 0 THEN Answer(a, "busy") /\ UNCHANGED <<inBuf, inKernel, punread, ngot, rwait, eofSeen>>
              ELSE IF closed THEN Answer(a, "gone") /\ UNCHANGED <<inBuf, inKernel, punread, ngot, rwait, eofSeen>>        \* whatever was buffered is gone too
              ELSE IF inBuf > 0 THEN Answer(a, "packet") /\ inBuf' = inBuf - 1 /\ ngot' = ngot + 1 /\ UNCHANGED <<inKernel, punread, rwait, eofSeen>>
              ELSE IF eofSeen THEN Answer(a, "eof") /\ UNCHANGED <<inBuf, inKernel, punread, ngot, rwait, eofSeen>>
              ELSE IF inKernel > 0 THEN Answer(a, "packet") /\ inBuf' = inKernel - 1 /\ inKernel' = 0 /\ punread' = FALSE /\ ngot' = ngot + 1 /\ UNCHANGED <<rwait, eofSeen>>
              ELSE IF punread /\ ~Async THEN Answer(a, "timeout") /\ punread' = FALSE /\ UNCHANGED <<inBuf, inKernel, ngot, rwait, eofSeen>>
              ELSE IF peerEof THEN Answer(a, "eof") /\ eofSeen' = TRUE /\ punread' = FALSE /\ UNCHANGED <<inBuf, inKernel, ngot, rwait>>   \* a trailing half packet is dropped
              ELSE IF Async THEN Answer(a, "pending") /\ rwait' = a /\ punread' = FALSE /\ UNCHANGED <<inBuf, inKernel, ngot, eofSeen>>
              ELSE Answer(a, "timeout") /\ UNCHANGED <<inBuf, inKernel, punread, ngot, rwait, eofSeen>>
           /\ UNCHANGED <<partial, peerEof, npeer, swait, eofSent, closed, sent>>
Send(a, big) == /\ Idle(a) /\ nops < MaxOps /\ nops' = nops + 1 /\ (big => Async)
                /\ IF swait # 0 THEN Answer(a, "busy") /\ UNCHANGED <<swait, sent>>
                   ELSE IF eofSent THEN Answer(a, "runtime") /\ UNCHANGED <<swait, sent>>
                   ELSE IF closed THEN Answer(a, "gone") /\ UNCHANGED <<swait, sent>>
                   ELSE IF big THEN Answer(a, "pending") /\ swait' = a /\ sent' = Append(sent, "big")
                   ELSE Answer(a, "ok") /\ sent' = Append(sent, "small") /\ UNCHANGED swait
                /\ UNCHANGED <<inBuf, inKernel, punread, partial, peerEof, npeer, ngot, rwait, eofSent, closed, eofSeen>>
\* "does nothing if the endpoint is closed; can be called several times" - but it is remembered even then
SendEof(a) == /\ Idle(a) /\ nops < MaxOps /\ nops' = nops + 1
              /\ IF swait # 0 THEN Answer(a, "busy") /\ UNCHANGED eofSent
                 ELSE Answer(a, "ok") /\ eofSent' = TRUE
              /\ UNCHANGED <<inBuf, inKernel, punread, partial, peerEof, npeer, ngot, rwait, swait, closed, eofSeen, sent>>
Close(a) == /\ Idle(a) /\ nops < MaxOps /\ nops' = nops + 1
            /\ IF swait # 0 THEN Answer(a, "busy") /\ UNCHANGED <<closed, rwait, inBuf, inKernel, punread, eofSeen>>
               ELSE /\ closed' = TRUE /\ inBuf' = 0 /\ inKernel' = 0 /\ punread' = FALSE
                    /\ IF rwait # 0 /\ rwait # a
                       THEN out' = [out EXCEPT ![a] = "ok", ![rwait] = "gone"] /\ rwait' = 0 /\ eofSeen' = TRUE
                       ELSE Answer(a, "ok") /\ UNCHANGED <<rwait, eofSeen>>
            /\ UNCHANGED <<partial, peerEof, npeer, ngot, swait, eofSent, sent>>
\* the task of a pending receive is cancelled: nothing that arrived is lost (avail untouched)
CancelRecv == /\ rwait # 0 /\ Answer(rwait, "cancelled") /\ rwait' = 0
              /\ UNCHANGED <<inBuf, inKernel, punread, partial, peerEof, npeer, ngot, swait, eofSent, closed, eofSeen, sent, nops>>

Next == PeerSend \/ PeerHalf \/ PeerRest \/ PeerEof \/ PeerDrain \/ CancelRecv
        \/ \E a \in Actors : Recv(a) \/ Send(a, FALSE) \/ Send(a, TRUE) \/ SendEof(a) \/ Close(a)
Spec == Init /\ [][Next]_vars

\* ---- what the design promises ----
TypeOK == /\ inBuf \in 0..MaxPeer /\ inKernel \in 0..MaxPeer /\ rwait \in Actors \cup {0} /\ swait \in Actors \cup {0}
          /\ out \in [Actors -> {"none", "pending", "packet", "eof", "gone", "busy", "runtime", "ok", "timeout", "cancelled"}]
ExactlyOnce == ~closed => ngot + avail = npeer
PendingIsPending == /\ (rwait # 0 => out[rwait] = "pending" /\ avail = 0 /\ ~punread /\ ~eofSeen /\ ~closed)
                    /\ (swait # 0 => out[swait] = "pending" /\ ~closed /\ ~eofSent)
                    /\ (~Async => rwait = 0 /\ swait = 0)
StickyEof == [][eofSeen => eofSeen']_vars
StickyClose == [][(closed => closed') /\ (eofSent => eofSent')]_vars
\* a packet is only ever handed out while the end of the stream has not been reported
NoPacketAfterEof == [][\A a \in Actors : (out'[a] = "packet" /\ (out[a] # "packet" \/ ngot' # ngot)) => ~eofSeen]_vars
\* nothing is written after send_eof / close: `sent` is frozen
NothingSentAfterEof == [][(eofSent \/ closed) => sent' = sent]_vars
=============================================================================
