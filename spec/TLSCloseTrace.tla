--------------------------- MODULE TLSCloseTrace ---------------------------
(* trace = [par |-> [standard, variant], events |-> << [ev, n, ok] >>]     "lib_close" | "peer_clean" | "peer_truncated"
   (anything else - "peer_nothing": the peer saw neither within the allotted time, "crash:..." - has no action)          *)
EXTENDS TLSClose, Sequences, Json, IOUtils
Traces == JsonDeserialize(IOEnv.TRACE_FILE)
VARIABLES tid, l
T == Traces[tid]
Ev == T.events[l]
TInit == tid \in 1..Len(Traces) /\ l = 1 /\ par = Traces[tid].par /\ phase = "open" /\ peerSaw = "none"
IsEvent(e) == l <= Len(T.events) /\ Ev.ev = e /\ l' = l + 1 /\ UNCHANGED tid
TNext == /\ (CloseSendsNotify /\ NothingBeforeClose) = TRUE
         /\ \/ IsEvent("lib_close") /\ LibClose
            \/ IsEvent("peer_clean") /\ PeerObserves("clean")
            \/ IsEvent("peer_truncated") /\ PeerObserves("truncated")
            \/ IsEvent("end") /\ peerSaw # "none" /\ UNCHANGED vars
ASSUME \A x \in 1..Len(Traces) : TLCSet(x, 0)
Constr == TLCSet(tid, IF TLCGet(tid) > l THEN TLCGet(tid) ELSE l)
Post == LET bad == {x \in 1..Len(Traces) : TLCGet(x) <= Len(Traces[x].events)} IN
        IF bad = {} THEN TRUE ELSE PrintT(<<"REJECTED", [x \in bad |-> TLCGet(x)]>>) /\ FALSE
=============================================================================
