--------------------------- MODULE EndpointTrace ---------------------------
(* Endpoint.tla's promises as laws over the calls recorded on ONE packet endpoint while somebody else's program runs (the
   repository's own functional tests, recorded by vf/pytest_trace_plugin.py): the peer is not observed, only the calls.
   events [ev, op, c, out]:   "call" op c | "ret" op c out        op in {"recv", "send", "eof", "close"}; c: call number
   out in {"packet", "ok", "eof", "gone", "busy", "runtime", "timeout", "cancelled", "error:<type>"}
   Laws
     - end-of-stream is sticky: a receive issued after one answered "eof" does not deliver a packet and does not time out;
     - close is final: a receive issued after a close that returned delivers nothing, a send issued after it is not accepted;
     - send_eof is remembered: a send issued after a send_eof that returned is refused ("runtime"), never accepted; and "runtime" is
       only ever answered when a send_eof has been issued;
     - "busy" is only answered to a call issued while another call of the same direction was in flight (close and send_eof are of
       the sending direction); on the asynchronous endpoint such a call IS answered "busy";
     - every return belongs to a call in flight.                                                                                  *)
EXTENDS Naturals, Sequences, FiniteSets, TLC, Json, IOUtils
Traces == JsonDeserialize(IOEnv.TRACE_FILE)
VARIABLES tid, l, rp, sp, eofSeen, eofIssued, eofSent, closed, afterEof, afterClose, afterSendEof, overlapped
\* rp / sp: receive / sending-direction calls in flight; afterEof / afterClose / afterSendEof: calls issued after the corresponding
\* answer was given; overlapped: calls issued while another one of their direction was in flight
vars == <<rp, sp, eofSeen, eofIssued, eofSent, closed, afterEof, afterClose, afterSendEof, overlapped>>
T == Traces[tid]
Ev == T.events[l]
TInit == /\ tid \in 1..Len(Traces) /\ l = 1 /\ rp = {} /\ sp = {} /\ eofSeen = FALSE /\ eofIssued = FALSE /\ eofSent = FALSE /\ closed = FALSE
         /\ afterEof = {} /\ afterClose = {} /\ afterSendEof = {} /\ overlapped = {}
IsEvent(e) == l <= Len(T.events) /\ Ev.ev = e /\ l' = l + 1 /\ UNCHANGED tid
Mark(S, cond) == IF cond THEN S \cup {Ev.c} ELSE S
CallEv == /\ IsEvent("call")
          /\ IF Ev.op = "recv"
             THEN rp' = rp \cup {Ev.c} /\ overlapped' = Mark(overlapped, rp # {}) /\ UNCHANGED sp
             ELSE sp' = sp \cup {Ev.c} /\ overlapped' = Mark(overlapped, sp # {}) /\ UNCHANGED rp
          /\ afterEof' = Mark(afterEof, eofSeen) /\ afterClose' = Mark(afterClose, closed) /\ afterSendEof' = Mark(afterSendEof, eofSent)
          /\ eofIssued' = (eofIssued \/ Ev.op = "eof")
          /\ UNCHANGED <<eofSeen, eofSent, closed>>
BusyLaw == /\ (Ev.out = "busy" => Ev.c \in overlapped)
           /\ (T.async /\ Ev.c \in overlapped => Ev.out = "busy")
RecvLaw == /\ (Ev.c \in afterEof => Ev.out \notin {"packet", "timeout"})
           /\ (Ev.c \in afterClose => Ev.out # "packet")
SendLaw == /\ (Ev.c \in afterClose \/ Ev.c \in afterSendEof => Ev.out # "ok")
           /\ (Ev.c \in afterSendEof /\ Ev.c \notin overlapped => Ev.out = "runtime")
           /\ (Ev.out = "runtime" => eofIssued)
RetEv == /\ IsEvent("ret")
         /\ BusyLaw
         /\ IF Ev.op = "recv"
            THEN /\ Ev.c \in rp /\ rp' = rp \ {Ev.c} /\ RecvLaw /\ eofSeen' = (eofSeen \/ Ev.out = "eof") /\ UNCHANGED <<sp, eofSent, closed>>
            ELSE /\ Ev.c \in sp /\ sp' = sp \ {Ev.c} /\ UNCHANGED <<rp, eofSeen>>
                 /\ (Ev.op = "send" => SendLaw)
                 /\ eofSent' = (eofSent \/ (Ev.op = "eof" /\ Ev.out = "ok"))
                 /\ closed' = (closed \/ (Ev.op = "close" /\ Ev.out = "ok"))
         /\ UNCHANGED <<eofIssued, afterEof, afterClose, afterSendEof, overlapped>>
TNext == CallEv \/ RetEv
ASSUME \A x \in 1..Len(Traces) : TLCSet(x, 0)
Constr == TLCSet(tid, IF TLCGet(tid) > l THEN TLCGet(tid) ELSE l)
Post == LET bad == {x \in 1..Len(Traces) : TLCGet(x) <= Len(Traces[x].events)} IN
        IF bad = {} THEN TRUE ELSE PrintT(<<"REJECTED", [x \in bad |-> TLCGet(x)]>>) /\ FALSE
=============================================================================
