---------------------------- MODULE ThreadsPortal ----------------------------
(* The threads portal of the asyncio backend (the bridge the standalone servers use to reach their event loop: C18).
   Worker threads hand a function (run_sync_soon) or a coroutine function (run_coroutine_soon) to the loop thread and get a
   concurrent future; the loop thread leaves the portal (__aexit__) at some point.

     worker w:   CallCheck(w)     under the portal lock: is the portal still running?  yes: register a waiter (the call is ACCEPTED)
                                   no: RuntimeError (REFUSED)
                 Post(w)          call_soon_threadsafe(callback)                      (outside the lock)
     loop:       RunCallback(w)   the callback runs in the loop thread: waiter released; the function runs unless its future was
                                   cancelled meanwhile; for a coroutine function a task is created in the portal's task group
                 TaskDone(w)      that task finishes (result | exception) and settles the future
                 ExitBegin        __aexit__: under the lock, loop := None
                 ExitWait         ... then waits until no waiter is registered, then leaves the task group (waits for its tasks;
                                   they are cancelled if the portal is left with an exception / cancellation)
     anyone:     CancelFuture(w)  future.cancel() on a future that is not running yet (or a coroutine call in flight: cancels the task)

   Properties: a call is either refused or its future is settled before the portal has been left - no future stays pending for
   ever (the thread blocked in .result() would hang); nothing is accepted once the exit has begun; a function runs at most once; the
   exit terminates.                                                                                                      *)
EXTENDS Naturals, FiniteSets, TLC
CONSTANTS Workers,       \* calling threads (one call each)
          Kind           \* Kind[w] \in {"sync", "coro"}
VARIABLES running, wst, waiters, posted, fut, ran, tasks, exitst
vars == <<running, wst, waiters, posted, fut, ran, tasks, exitst>>
\* wst[w]: "idle" | "checked" (accepted, callback not posted yet) | "posted" | "refused" | "done"
\* fut[w]: "none" | "pending" | "running" | "result" | "cancelled"
\* exitst: "in" | "closing" (loop := None done) | "left"

Init == /\ running = TRUE /\ wst = [w \in Workers |-> "idle"] /\ waiters = {} /\ posted = {} /\ fut = [w \in Workers |-> "none"]
        /\ ran = [w \in Workers |-> 0] /\ tasks = {} /\ exitst = "in"

CallCheck(w) == /\ wst[w] = "idle"      \* (the check and the registration happen under the portal lock: one atomic step)
                /\ IF running
                   THEN wst' = [wst EXCEPT ![w] = "checked"] /\ waiters' = waiters \cup {w} /\ fut' = [fut EXCEPT ![w] = "pending"]
                   ELSE wst' = [wst EXCEPT ![w] = "refused"] /\ UNCHANGED <<waiters, fut>>
                /\ UNCHANGED <<running, posted, ran, tasks, exitst>>
Post(w) == /\ wst[w] = "checked" /\ wst' = [wst EXCEPT ![w] = "posted"] /\ posted' = posted \cup {w}
           /\ UNCHANGED <<running, waiters, fut, ran, tasks, exitst>>
\* the loop keeps running its ready queue while the exit waits: callbacks posted before are executed
RunCallback(w) == /\ w \in posted /\ exitst # "left" /\ posted' = posted \ {w} /\ waiters' = waiters \ {w}
                  /\ IF fut[w] = "cancelled"
                     THEN UNCHANGED <<fut, ran, tasks>>
                     ELSE IF Kind[w] = "sync"
                          THEN fut' = [fut EXCEPT ![w] = "result"] /\ ran' = [ran EXCEPT ![w] = @ + 1] /\ UNCHANGED tasks
                          ELSE fut' = [fut EXCEPT ![w] = "running"] /\ ran' = [ran EXCEPT ![w] = @ + 1] /\ tasks' = tasks \cup {w}
                  /\ UNCHANGED <<running, wst, exitst>>
TaskDone(w) == /\ w \in tasks /\ tasks' = tasks \ {w}
               /\ fut' = [fut EXCEPT ![w] = IF @ = "cancelled" THEN "cancelled" ELSE "result"]
               /\ UNCHANGED <<running, wst, waiters, posted, ran, exitst>>
CancelFuture(w) == /\ fut[w] \in {"pending", "running"} /\ fut' = [fut EXCEPT ![w] = "cancelled"]
                   /\ UNCHANGED <<running, wst, waiters, posted, ran, tasks, exitst>>
ExitBegin == /\ exitst = "in" /\ running' = FALSE /\ exitst' = "closing"
             /\ UNCHANGED <<wst, waiters, posted, fut, ran, tasks>>
ExitWait == /\ exitst = "closing" /\ waiters = {} /\ tasks = {} /\ exitst' = "left"
            /\ UNCHANGED <<running, wst, waiters, posted, fut, ran, tasks>>
Next == \/ \E w \in Workers : CallCheck(w) \/ Post(w) \/ RunCallback(w) \/ TaskDone(w) \/ CancelFuture(w)
        \/ ExitBegin \/ ExitWait
Fair == /\ \A w \in Workers : WF_vars(Post(w)) /\ WF_vars(RunCallback(w)) /\ WF_vars(TaskDone(w))
        /\ WF_vars(ExitWait)
Spec == Init /\ [][Next]_vars /\ Fair

-----------------------------------------------------------------------------
Settled(w) == fut[w] \in {"none", "result", "cancelled"}
\* once the portal has been left, no accepted call is still in flight
NoOrphan == exitst = "left" => \A w \in Workers : (wst[w] \in {"checked", "posted"} => Settled(w)) /\ w \notin posted /\ w \notin tasks
\* every accepted, posted call is answered before the portal is left
AcceptedAreAnswered == exitst = "left" => \A w \in Workers : wst[w] = "posted" => fut[w] \in {"result", "cancelled"}
NothingAcceptedAfterExit == [][\A w \in Workers : (~running /\ wst[w] = "idle") => wst'[w] \in {"idle", "refused"}]_vars
AtMostOnce == \A w \in Workers : ran[w] <= 1
ExitTerminates == (exitst = "closing") ~> (exitst = "left")
=============================================================================
