----------------------------- MODULE ConnectRace -----------------------------
(* BaseAsyncDNSResolver._staggered_race_connection_impl + _create_connection_impl (one address per attempt):
   attempts are started in order, the next one when the previous one is done or the stagger delay elapsed; every attempt
   owns one socket (created -> [bind fails: closed] -> connecting -> connected | failed(closed) | cancelled(closed));
   the first attempt that connects becomes the winner and cancels the race scope; later finishers close their socket;
   the caller may be cancelled at any time.  Time is abstracted: "the delay elapsed" is an environment choice.          *)
EXTENDS Naturals, FiniteSets, TLC

CONSTANTS Ns            \* set of numbers of addresses explored (kept in variable n)

VARIABLES n, att,       \* att[i] \in {"idle", "connecting", "connected", "closed"}
          started,      \* number of attempts started so far
          winner,       \* 0 or the index of the winning attempt
          scope,        \* race scope cancelled?
          ext,          \* external cancellation requested?
          errors,       \* number of attempts that failed with an OSError
          result        \* "none" | "sock" | "error" | "cancelled"
vars == <<n, att, started, winner, scope, ext, errors, result>>

Idx == 1..n
Init == /\ n \in Ns /\ att = [i \in 1..n |-> "idle"] /\ started = 0 /\ winner = 0 /\ scope = FALSE /\ ext = FALSE
        /\ errors = 0 /\ result = "none"

Open == {i \in Idx : att[i] \in {"connecting", "connected"}}
Pending == {i \in Idx : att[i] = "connecting"}
Stopped == scope \/ ext

\* the loop starts the next attempt (previous done, or stagger delay elapsed): socket created, connect in progress.
\* An external cancellation that was requested but not delivered yet does not prevent it (the child task may already
\* have been spawned); a won race does (children that did not start never run).
Start == /\ result = "none" /\ ~scope /\ started < n
         /\ started' = started + 1 /\ att' = [att EXCEPT ![started + 1] = "connecting"]
         /\ UNCHANGED <<n, winner, scope, ext, errors, result>>
\* ... or the bind on the requested local address fails: socket created and closed at once, error recorded
StartBindFail == /\ result = "none" /\ ~scope /\ started < n
                 /\ started' = started + 1 /\ att' = [att EXCEPT ![started + 1] = "closed"] /\ errors' = errors + 1
                 /\ UNCHANGED <<n, winner, scope, ext, result>>
\* the connect of attempt i completes (the attempt's task runs before any pending cancellation reaches it)
FinishOk(i) == /\ att[i] = "connecting" /\ result = "none"
               /\ IF winner = 0
                  THEN winner' = i /\ scope' = TRUE /\ att' = [att EXCEPT ![i] = "connected"]
                  ELSE att' = [att EXCEPT ![i] = "closed"] /\ UNCHANGED <<winner, scope>>
               /\ UNCHANGED <<n, started, ext, errors, result>>
FinishErr(i) == /\ att[i] = "connecting" /\ result = "none"
                /\ att' = [att EXCEPT ![i] = "closed"] /\ errors' = errors + 1
                /\ UNCHANGED <<n, started, winner, scope, ext, result>>
\* a cancellation (race won by somebody else, or caller cancelled) reaches a connecting attempt: its socket is closed
CancelDelivered(i) == /\ att[i] = "connecting" /\ Stopped /\ result = "none"
                      /\ att' = [att EXCEPT ![i] = "closed"]
                      /\ UNCHANGED <<n, started, winner, scope, ext, errors, result>>
ExtCancel == /\ ~ext /\ result = "none" /\ ext' = TRUE
             /\ UNCHANGED <<n, att, started, winner, scope, errors, result>>
\* every child is finished: the call returns / raises
Return == /\ result = "none" /\ Pending = {} /\ (Stopped \/ started = n)
          /\ \/ /\ ext /\ result' = "cancelled"
                   /\ att' = [i \in 1..n |-> IF att[i] = "connected" THEN "closed" ELSE att[i]]     \* the winner is closed too
                \* a cancellation request that arrives while the (already cancelled) race scope is unwinding may be absorbed
                \* by that scope: the call then returns its winner normally.  Nothing leaks; whether the request may be
                \* lost is the cancel scopes' business (property C13), not this one's.
                \/ /\ winner # 0 /\ result' = "sock" /\ UNCHANGED att
                \/ /\ ~ext /\ winner = 0 /\ result' = "error" /\ UNCHANGED att
                \* an external cancellation delivered while every attempt has already failed may likewise surface as the error group
                \/ /\ ext /\ winner = 0 /\ started = n /\ errors = n /\ result' = "error" /\ UNCHANGED att
          /\ UNCHANGED <<n, started, winner, scope, ext, errors>>
Next == Start \/ StartBindFail \/ (\E i \in Idx : FinishOk(i) \/ FinishErr(i) \/ CancelDelivered(i)) \/ ExtCancel \/ Return
        \/ (result # "none" /\ UNCHANGED vars)
\* fairness: the environment eventually completes every connect and starts every attempt; the library's own steps are fair
Spec == Init /\ [][Next]_vars /\ WF_vars(Return) /\ WF_vars(\E i \in Idx : CancelDelivered(i))
             /\ WF_vars(\E i \in Idx : FinishOk(i) \/ FinishErr(i)) /\ WF_vars(Start \/ StartBindFail)

-----------------------------------------------------------------------------
\* exactly one connected socket is returned and nothing else stays open; on failure / cancellation nothing stays open
OneSocketNoLeak == /\ (result = "sock" => winner # 0 /\ Open = {winner} /\ att[winner] = "connected")
                   /\ (result \in {"error", "cancelled"} => Open = {})
AtMostOneConnected == Cardinality({i \in Idx : att[i] = "connected"}) <= 1
ErrorMeansAllFailed == result = "error" => errors = n /\ winner = 0
WinnerIsFirstFinisher == [][winner # 0 => winner' = winner]_vars
Terminates == <>(result # "none")
=============================================================================
