---------------------------- MODULE ClientConnect ----------------------------
(* C19 seen from AsyncTCPNetworkClient: the connection race runs inside wait_connected() (or inside the first send_packet /
   recv_packet), and the ways to abandon it are task cancellation and client.aclose() from another task.

   trace = [n |-> number of addresses, events |-> << [ev, i, nopen, kind] >>]
     "call" kind           the operation that triggers the connection: "wait" | "send"
     "start" i             attempt i reached connect (nopen = sockets of the race currently open)
     "gate" i kind         the harness lets attempt i finish: "ok" | "refused" | "ok_then_reset" (the server resets it at once)
     "aclose"              client.aclose() called from another task        "aclose_ret" kind ("prompt" | "late" | "error:..")
     "cancel"              the task that runs the operation is cancelled
     "ret" kind nopen      how the operation ended: "connected" | "closed" (ClientClosedError) | "cancelled" | "error" (OSError / group)
     "closed_client" nopen the harness closed the client at the end (after "connected")
     "end" nopen

   Laws: an operation that does not end "connected" leaves no socket open; "connected" leaves exactly one, owned by the client, and
   closing the client closes it; after aclose() was called the operation cannot end "connected" and aclose() returns promptly (it does
   not wait for the race); the failure is reported (an abandoned operation never "returns" silently).                           *)
EXTENDS Naturals, Sequences, TLC, Json, IOUtils
Traces == JsonDeserialize(IOEnv.TRACE_FILE)
VARIABLES tid, l, called, closeAsked, cancelAsked, result, anyOk, anyReset
vars == <<called, closeAsked, cancelAsked, result, anyOk, anyReset>>
T == Traces[tid]
Ev == T.events[l]
TInit == tid \in 1..Len(Traces) /\ l = 1 /\ called = "none" /\ closeAsked = FALSE /\ cancelAsked = FALSE /\ result = "none" /\ anyOk = FALSE /\ anyReset = FALSE
IsEvent(e) == l <= Len(T.events) /\ Ev.ev = e /\ l' = l + 1 /\ UNCHANGED tid
Call == IsEvent("call") /\ called = "none" /\ called' = Ev.kind /\ UNCHANGED <<closeAsked, cancelAsked, result, anyOk, anyReset>>
Start == IsEvent("start") /\ called # "none" /\ result = "none" /\ Ev.i \in 1..T.n /\ UNCHANGED vars
Gate == /\ IsEvent("gate") /\ anyOk' = (anyOk \/ Ev.kind \in {"ok", "ok_then_reset"}) /\ anyReset' = (anyReset \/ Ev.kind = "ok_then_reset")
        /\ UNCHANGED <<called, closeAsked, cancelAsked, result>>
AClose == IsEvent("aclose") /\ closeAsked' = TRUE /\ UNCHANGED <<called, cancelAsked, result, anyOk, anyReset>>
\* aclose() does not wait for the race to finish
ACloseRet == IsEvent("aclose_ret") /\ closeAsked /\ Ev.kind = "prompt" /\ UNCHANGED vars
Cancel == IsEvent("cancel") /\ cancelAsked' = TRUE /\ UNCHANGED <<called, closeAsked, result, anyOk, anyReset>>
Ret == /\ IsEvent("ret") /\ called # "none" /\ result = "none" /\ result' = Ev.kind
       /\ Ev.kind \in {"connected", "closed", "cancelled", "error"}
       \* (a connection that the server reset at once may already have been torn down by the event loop)
       /\ (Ev.kind = "connected" => ((Ev.nopen = 1 \/ (anyReset /\ Ev.nopen = 0)) /\ anyOk /\ ~closeAsked))
       /\ (Ev.kind # "connected" => Ev.nopen = 0)
       /\ (Ev.kind = "closed" => closeAsked)
       /\ (Ev.kind = "cancelled" => cancelAsked)
       /\ (Ev.kind = "error" => ~closeAsked)
       /\ UNCHANGED <<called, closeAsked, cancelAsked, anyOk, anyReset>>
ClosedClient == IsEvent("closed_client") /\ result # "none" /\ Ev.nopen = 0 /\ UNCHANGED vars
End == IsEvent("end") /\ result # "none" /\ Ev.nopen = 0 /\ UNCHANGED vars
TNext == Call \/ Start \/ Gate \/ AClose \/ ACloseRet \/ Cancel \/ Ret \/ ClosedClient \/ End
ASSUME \A x \in 1..Len(Traces) : TLCSet(x, 0)
Constr == TLCSet(tid, IF TLCGet(tid) > l THEN TLCGet(tid) ELSE l)
Post == LET bad == {x \in 1..Len(Traces) : TLCGet(x) <= Len(Traces[x].events)} IN
        IF bad = {} THEN TRUE ELSE PrintT(<<"REJECTED", [x \in bad |-> TLCGet(x)]>>) /\ FALSE
=============================================================================
