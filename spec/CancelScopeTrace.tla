------------------------- MODULE CancelScopeTrace -------------------------
(* trace = [par |-> [prog, ext], events |-> << [ev, id, caught, cc, exc, t] >>] recorded from the real asyncio backend.
   Every observable step of the interpreter must coincide with the next recorded event (same kind, scope id, caught,
   cancel_called, exception leaving the scope, virtual time); sleeps are silent steps.
   For "end", id carries task.cancelling().                                                                          *)
EXTENDS CancelScope, Json, IOUtils

Traces == JsonDeserialize(IOEnv.TRACE_FILE)
VARIABLES tid, l
T == Traces[tid]
Ev == T.events[l]
TInit == /\ tid \in 1..Len(Traces) /\ l = 1 /\ par = Traces[tid].par
         /\ pc = 1 /\ now = 0 /\ stack = <<>> /\ mode = "run" /\ last = NoEv
HaveEvent == l <= Len(T.events)
\* an observable step: consumes one event, which must be the one the interpreter produces
Observable(A) == /\ HaveEvent /\ A /\ last'.ev # "none"
                 /\ last' = [ev |-> Ev.ev, id |-> Ev.id, caught |-> Ev.caught, cc |-> Ev.cc, exc |-> Ev.exc, t |-> Ev.t]
                 /\ l' = l + 1 /\ UNCHANGED tid
Obs1 == (\E f \in BOOLEAN : Observable(StartQ(TRUE, f))) \/ (\E f \in BOOLEAN : Observable(StartC(TRUE, f))) \/ Observable(Join) \/ Observable(Mark) \/ Observable(CancelOp) \/ Observable(Resched) \/ Observable(ShieldIn) \/ Observable(ShieldOut) \/ Observable(Enter)
Obs2 == HaveEvent /\ (Observable(ExitNormal(Ev.cc)) \/ Observable(Unwind(Ev.caught, Ev.cc)))
Obs3 == HaveEvent /\ (Observable(EndOk(Ev.id)) \/ Observable(EndCancelled))
\* a join is silent when it is abandoned without the child's mark, observable (the child's "mark") otherwise
Silent == (Sleep \/ (Join /\ last'.ev = "none") \/ (\E f \in BOOLEAN : StartC(FALSE, f)) \/ (\E f \in BOOLEAN : StartQ(FALSE, f)) \/ CancelQ) /\ UNCHANGED <<tid, l>>
TNext == /\ (CaughtOnlyIfCancelled /\ UnwindHasCause /\ NoUnwindThroughShield) = TRUE
         /\ (Obs1 \/ Obs2 \/ Obs3 \/ Silent)

ASSUME \A x \in 1..Len(Traces) : TLCSet(x, 0)
Constr == TLCSet(tid, IF TLCGet(tid) > l THEN TLCGet(tid) ELSE l)
Post == LET bad == {x \in 1..Len(Traces) : TLCGet(x) <= Len(Traces[x].events)} IN
        IF bad = {} THEN TRUE ELSE PrintT(<<"REJECTED", [x \in bad |-> TLCGet(x)]>>) /\ FALSE
=============================================================================
