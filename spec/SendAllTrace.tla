--------------------------- MODULE SendAllTrace ---------------------------
(* trace = [par |-> [...], events |-> << [ev, offered, k, w, e, ready, ok] >>]
   "attempt": one send()/sendmsg() call: offered = bytes offered, k = bytes accepted (-1: EAGAIN/EINTR)
   "wait":    one selector.select(w) call: e = fake time elapsed, ready
   "return" / "timeout": how the call ended; ok = the bytes on the wire are exactly the packet's bytes (return) or a prefix of them
   A spin guard event ("spin") or any other exception has no action: rejected.                                                  *)
EXTENDS SendAll, Json, IOUtils, Integers

Traces == JsonDeserialize(IOEnv.TRACE_FILE)
VARIABLES tid, l
tvars == <<vars, tid, l>>
T == Traces[tid]
Ev == T.events[l]
TInit == /\ tid \in 1..Len(Traces) /\ l = 1 /\ par = Traces[tid].par
         /\ bufs = (IF Traces[tid].par.mode = "join" THEN <<SumSeq(Traces[tid].par.chunks)>>
                    ELSE IF Traces[tid].par.fixed THEN NonEmpty(Traces[tid].par.chunks) ELSE Traces[tid].par.chunks)
         /\ wire = 0 /\ budget = Traces[tid].par.budget /\ waited = 0 /\ st = "attempt" /\ blocks = 0 /\ over = 0
IsEvent(e) == l <= Len(T.events) /\ Ev.ev = e /\ l' = l + 1 /\ UNCHANGED tid
TAccept == IsEvent("attempt") /\ Ev.k >= 0 /\ Ev.offered = Offered /\ Accept(Ev.k)
TBlock == IsEvent("attempt") /\ Ev.k = 0 - 1 /\ Ev.offered = Offered /\ Block
TWait == IsEvent("wait") /\ (Ev.w >= 0 => Ev.w = WaitTime) /\ Wait(Ev.e, Ev.ready)
TReturn == IsEvent("return") /\ Return /\ Ev.ok = TRUE
TTimeout == IsEvent("timeout") /\ st = "timeout" /\ Ev.ok = TRUE /\ UNCHANGED vars
TNext == /\ (WirePrefix /\ ExactOnReturn /\ WithinBudget /\ TimeoutMeansExhausted /\ ZeroNeverWaits) = TRUE
         /\ (TAccept \/ TBlock \/ TWait \/ TReturn \/ TTimeout)

ASSUME \A t \in 1..Len(Traces) : TLCSet(t, 0)
Constr == TLCSet(tid, IF TLCGet(tid) > l THEN TLCGet(tid) ELSE l)
Post == LET bad == {t \in 1..Len(Traces) : TLCGet(t) <= Len(Traces[t].events)} IN
        IF bad = {} THEN TRUE ELSE PrintT(<<"REJECTED", [t \in bad |-> TLCGet(t)]>>) /\ FALSE
=============================================================================
