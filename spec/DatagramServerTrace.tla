------------------------ MODULE DatagramServerTrace ------------------------
(* Validation of what one client address of the real AsyncDatagramServer did, against DatagramServer.
   trace = [par |-> [...], events |-> << [ev, id, state, qlen] >>]
     "arrive"      the harness hands datagram `id` to the listener
     "gen_start"   a handler generator starts (code before its first yield)
     "gen_got"     the generator receives request `id`
     "gen_timeout" TimeoutError is thrown into the generator
     "gen_end"     the generator is finished (returned or closed)
     "end"         quiescence: every datagram was handled
   state / qlen are _ClientData.state and len(_ClientData._datagram_queue) read at that moment on the real object.
   Pushes, task starts, the done-hook and "yield again" are not logged: TLC interleaves them as silent steps.        *)
EXTENDS DatagramServer, Json, IOUtils, Integers

Traces == JsonDeserialize(IOEnv.TRACE_FILE)
VARIABLES tid, l
tvars == <<vars, tid, l>>
T == Traces[tid]
Ev == T.events[l]

TInit == /\ tid \in 1..Len(Traces) /\ l = 1 /\ par = Traces[tid].par
         /\ arrived = 0 /\ dtask = [i \in 1..Traces[tid].par.n |-> "new"] /\ queue = <<>> /\ state = "None"
         /\ ctask = [st |-> "none", served |-> 0] /\ seen = <<>> /\ gens = 0 /\ ngen = 0

IsEvent(e) == l <= Len(T.events) /\ Ev.ev = e /\ l' = l + 1 /\ UNCHANGED tid
Obs == Ev.qlen < 0 \/ (Ev.state = state' /\ Ev.qlen = Len(queue'))      \* qlen = -1: state not observed (real socket listener)

TArrive == IsEvent("arrive") /\ Arrive /\ Ev.id = arrived'
TGenStart == IsEvent("gen_start") /\ GenStart /\ Obs
TGenGot == IsEvent("gen_got") /\ (GenFirst \/ GenNext) /\ Ev.id = seen'[Len(seen')] /\ Obs
TGenTimeout == IsEvent("gen_timeout") /\ GenTimeout /\ Obs
\* the generator ends: after handling its last request, or (aftertimeout = "return") GenTimeout already closed it
TGenEnd == IsEvent("gen_end") /\ ((GenReturn /\ Obs) \/ (ctask.st = "finishing" /\ UNCHANGED vars))
TEnd == IsEvent("end") /\ Len(seen) = arrived /\ queue = <<>> /\ ctask.st \in {"none", "wait"} /\ UNCHANGED vars
Silent == /\ ((\E i \in 1..N : Push(i) \/ PushResume(i)) \/ ClientStart \/ ClientDone \/ GenYield)
          /\ UNCHANGED <<tid, l>>
TNext == /\ (OneGenerator /\ Fifo /\ StateConsistent /\ OneOwner /\ NoStrandedDatagram) = TRUE
         /\ (TArrive \/ TGenStart \/ TGenGot \/ TGenTimeout \/ TGenEnd \/ TEnd \/ Silent)

ASSUME \A t \in 1..Len(Traces) : TLCSet(t, 0)
Constr == TLCSet(tid, IF TLCGet(tid) > l THEN TLCGet(tid) ELSE l)
Post == LET bad == {t \in 1..Len(Traces) : TLCGet(t) <= Len(Traces[t].events)} IN
        IF bad = {} THEN TRUE ELSE PrintT(<<"REJECTED", [t \in bad |-> TLCGet(t)]>>) /\ FALSE
=============================================================================
