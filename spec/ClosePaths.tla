----------------------------- MODULE ClosePaths -----------------------------
(* C14: a close operation, once started, releases the underlying transport(s) whatever happens to the closing task.
   A close path is a task that goes through a number of suspension points; the environment may deliver a cancellation
   at any of them (at most MaxCancels times) and may make any inner aclose()/send/recv fail; the path may close the inner
   transports gracefully or forcefully.  What must hold when the closing task is finished - returned, failed, timed
   out or cancelled - is that every wrapped transport has been closed, and a second close returns promptly.           *)
EXTENDS Naturals, FiniteSets, TLC
CONSTANTS Inners,        \* set of wrapped transports of the path under test
          MaxSteps, MaxCancels
VARIABLES st,            \* "idle" | "closing" | "done"
          steps, cancels,
          closed,        \* set of inner transports whose aclose() was performed (gracefully or forcefully)
          outcome,       \* "none" | "returned" | "failed" | "cancelled"
          second         \* "none" | "prompt" | "hang"
vars == <<st, steps, cancels, closed, outcome, second>>
Init == st = "idle" /\ steps = 0 /\ cancels = 0 /\ closed = {} /\ outcome = "none" /\ second = "none"
Start == st = "idle" /\ st' = "closing" /\ UNCHANGED <<steps, cancels, closed, outcome, second>>
Step == st = "closing" /\ steps < MaxSteps /\ steps' = steps + 1 /\ UNCHANGED <<st, cancels, closed, outcome, second>>
Cancel == st = "closing" /\ cancels < MaxCancels /\ cancels' = cancels + 1 /\ UNCHANGED <<st, steps, closed, outcome, second>>
InnerClose(i) == st = "closing" /\ i \notin closed /\ closed' = closed \cup {i} /\ UNCHANGED <<st, steps, cancels, outcome, second>>
\* the closing task finishes: only possible once every wrapped transport has been closed
End(o) == /\ st = "closing" /\ closed = Inners /\ (o = "cancelled" => cancels > 0)
          /\ st' = "done" /\ outcome' = o /\ UNCHANGED <<steps, cancels, closed, second>>
Second == st = "done" /\ second = "none" /\ second' = "prompt" /\ UNCHANGED <<st, steps, cancels, closed, outcome>>
Next == Start \/ Step \/ Cancel \/ (\E i \in Inners : InnerClose(i)) \/ (\E o \in {"returned", "failed", "cancelled"} : End(o)) \/ Second
        \/ (second = "prompt" /\ UNCHANGED vars)
Spec == Init /\ [][Next]_vars /\ WF_vars(\E i \in Inners : InnerClose(i)) /\ WF_vars(\E o \in {"returned", "failed", "cancelled"} : End(o)) /\ WF_vars(Start) /\ WF_vars(Second)
ClosedWhenDone == st = "done" => closed = Inners
EventuallyDone == <>(st = "done")
SecondIsPrompt == <>(second = "prompt")
=============================================================================
