------------------------------ MODULE FairLock ------------------------------
(* easynetwork.lowlevel.api_async.backend._common.fair_lock.FairLock, action by action.

   acquire():  if _locked or _waiters: append an event, wait on it (finally: remove it;
               on BaseException: if not _locked, _wake_up_first(); re-raise);  _locked = True
   release():  _locked = False; _wake_up_first()
   _wake_up_first(): set the event of the head of _waiters (if any)

   A task whose event has been set is *scheduled* but resumes later: other tasks may call acquire(),
   and the task may be cancelled, in between.  Cancellation is delivered when the task resumes
   (asyncio: Task.cancel() marks must_cancel when the awaited future is already done, or cancels the
   future; either way the coroutine sees CancelledError at its next step).                        *)
EXTENDS Naturals, Sequences, FiniteSets, TLC

CONSTANTS Tasks,        \* set of task ids
          MaxAcq,       \* bound: total number of acquire() calls
          MaxCancel     \* bound: number of cancellations

VARIABLES locked,       \* _locked
          waiters,      \* _waiters as a sequence of task ids (one event per waiting task)
          evset,        \* set of tasks whose event is set
          pc,           \* per task: "idle" | "waiting" | "holding"
          creq,         \* tasks with a pending cancellation request
          hist,         \* sequence of tasks in the order in which they *got* the lock
          order,        \* sequence of tasks in the order in which they called acquire() (cancelled ones removed)
          nacq, ncancel
vars == <<locked, waiters, evset, pc, creq, hist, order, nacq, ncancel>>

Init == /\ locked = FALSE /\ waiters = <<>> /\ evset = {} /\ pc = [t \in Tasks |-> "idle"]
        /\ creq = {} /\ hist = <<>> /\ order = <<>> /\ nacq = 0 /\ ncancel = 0

Remove(s, t) == SelectSeq(s, LAMBDA x : x # t)
WakeFirst(w, ev) == IF w = <<>> THEN ev ELSE ev \cup {Head(w)}

\* acquire() up to its first suspension (or to its end on the fast path)
Acquire(t) ==
  /\ pc[t] = "idle" /\ nacq < MaxAcq
  /\ nacq' = nacq + 1
  /\ order' = Append(order, t)
  /\ IF locked \/ waiters # <<>>
     THEN /\ waiters' = Append(waiters, t) /\ pc' = [pc EXCEPT ![t] = "waiting"]
          /\ UNCHANGED <<locked, hist>>
     ELSE /\ locked' = TRUE /\ pc' = [pc EXCEPT ![t] = "holding"] /\ hist' = Append(hist, t)
          /\ UNCHANGED waiters
  /\ UNCHANGED <<evset, creq, ncancel>>

\* the waiting task resumes normally: finally-remove, _locked = True
Resume(t) ==
  /\ pc[t] = "waiting" /\ t \in evset /\ t \notin creq
  /\ waiters' = Remove(waiters, t) /\ evset' = evset \ {t}
  /\ locked' = TRUE /\ pc' = [pc EXCEPT ![t] = "holding"] /\ hist' = Append(hist, t)
  /\ UNCHANGED <<creq, order, nacq, ncancel>>

\* somebody calls task.cancel() on a waiting task
Cancel(t) ==
  /\ pc[t] = "waiting" /\ t \notin creq /\ ncancel < MaxCancel
  /\ creq' = creq \cup {t} /\ ncancel' = ncancel + 1
  /\ UNCHANGED <<locked, waiters, evset, pc, hist, order, nacq>>

\* the cancelled task resumes with CancelledError: finally-remove; if not _locked: _wake_up_first()
CancelResume(t) ==
  /\ pc[t] = "waiting" /\ t \in creq
  /\ LET w == Remove(waiters, t) IN
     /\ waiters' = w
     /\ evset' = (IF locked THEN evset ELSE WakeFirst(w, evset)) \ {t}
  /\ creq' = creq \ {t} /\ pc' = [pc EXCEPT ![t] = "idle"]
  /\ order' = Remove(order, t)      \* t holds the lock in no pending request: at most one outstanding acquire per task
  /\ UNCHANGED <<locked, hist, nacq, ncancel>>

Release(t) ==
  /\ pc[t] = "holding"
  /\ locked' = FALSE /\ evset' = WakeFirst(waiters, evset)
  /\ pc' = [pc EXCEPT ![t] = "idle"]
  /\ order' = Remove(order, t)
  /\ UNCHANGED <<waiters, creq, hist, nacq, ncancel>>

Next == \E t \in Tasks : Acquire(t) \/ Resume(t) \/ Cancel(t) \/ CancelResume(t) \/ Release(t)
Quiet == \A t \in Tasks : pc[t] = "idle"
Spec == Init /\ [][Next]_vars /\ WF_vars(\E t \in Tasks : Resume(t) \/ CancelResume(t) \/ Release(t))

-----------------------------------------------------------------------------
TypeOK == /\ locked \in BOOLEAN /\ evset \subseteq Tasks /\ creq \subseteq Tasks
          /\ pc \in [Tasks -> {"idle", "waiting", "holding"}]
MutualExclusion == Cardinality({t \in Tasks : pc[t] = "holding"}) <= 1
LockedIffHeld == locked = (\E t \in Tasks : pc[t] = "holding")
WaitersAreWaiting == \A i \in 1..Len(waiters) : pc[waiters[i]] = "waiting"
\* no lost wake-up: a free lock with waiters always has its head scheduled
NoLostWakeup == (~locked /\ waiters # <<>>) => Head(waiters) \in evset
\* only the head is ever scheduled (at most one task is woken per hand-off) -- stated as: a woken task is in the queue
WokenQueued == \A t \in evset : \E i \in 1..Len(waiters) : waiters[i] = t
\* FIFO: the task that gets the lock is the oldest outstanding requester
Fifo == [][\A t \in Tasks : (pc[t] # "holding" /\ pc'[t] = "holding") => Head(order') = t]_vars
\* every waiting task eventually leaves the queue (gets the lock or is cancelled) provided holders release
Live == \A t \in Tasks : (pc[t] = "waiting") ~> (pc[t] # "waiting")
=============================================================================
