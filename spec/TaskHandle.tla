------------------------------ MODULE TaskHandle ------------------------------
(* The task handle returned by TaskGroup.start() of the asyncio backend: three ways to wait for the task, which differ in what a
   cancellation of the WAITER does to the TASK (not one of the listed properties; run by `python -m vf.extra`).

     join()             result / exception of the task; cancelling the waiter leaves the task alone (shielded)
     join_or_cancel()   same, but cancelling the waiter cancels the task, and the waiter ends only when the task has ended
     wait()             returns None once the task is done, whatever its outcome; cancelling the waiter leaves the task alone

   tsk: "running" | "result" | "error" | "cancelled";   tcancel: a cancellation of the task is requested and not delivered yet
   w:   "waiting" | "ret_result" | "ret_error" | "ret_none" | "cancelled";   wcancel: same for the waiter
   Env actions: Finish(kind), CancelTask, CancelWaiter.  TaskStep / WaiterStep are the wake-ups of the two tasks.            *)
EXTENDS Naturals, TLC
CONSTANTS Op          \* "join" | "joc" | "wait"
VARIABLES tsk, fin, tcancel, w, wcancel, byWaiter
vars == <<tsk, fin, tcancel, w, wcancel, byWaiter>>
Init == tsk = "running" /\ fin = "none" /\ tcancel = FALSE /\ w = "waiting" /\ wcancel = FALSE /\ byWaiter = FALSE
TaskDone == tsk # "running"
WaiterDone == w # "waiting"

\* what the task is waiting for completes (fin): the task itself ends at its next step - unless a cancellation reaches it first
Finish(k) == tsk = "running" /\ fin = "none" /\ ~tcancel /\ k \in {"result", "error"} /\ fin' = k /\ UNCHANGED <<tsk, tcancel, w, wcancel, byWaiter>>
CancelTask == tsk = "running" /\ ~tcancel /\ tcancel' = TRUE /\ UNCHANGED <<tsk, fin, w, wcancel, byWaiter>>
\* (join_or_cancel awaits the task directly: the event loop hands a cancellation of the waiter to the awaited task at once)
CancelWaiter == /\ w = "waiting" /\ ~wcancel
                /\ IF Op = "joc" /\ tsk = "running"
                   THEN tcancel' = TRUE /\ byWaiter' = TRUE /\ UNCHANGED <<tsk, fin, w, wcancel>>
                   ELSE wcancel' = TRUE /\ UNCHANGED <<tsk, fin, tcancel, w, byWaiter>>
\* the task's next step: a pending cancellation wins over a completion that has not been consumed yet
TaskStep == /\ tsk = "running" /\ (tcancel \/ fin # "none")
            /\ tsk' = (IF tcancel THEN "cancelled" ELSE fin) /\ tcancel' = FALSE /\ UNCHANGED <<fin, w, wcancel, byWaiter>>
WaiterStep ==
  /\ w = "waiting"
  /\ CASE wcancel /\ Op \in {"join", "wait"} ->
            w' = "cancelled" /\ wcancel' = FALSE /\ UNCHANGED <<tsk, fin, tcancel, byWaiter>>
       [] wcancel /\ Op = "joc" ->
            \* (only possible when the task had already ended)
            w' = "cancelled" /\ wcancel' = FALSE /\ UNCHANGED <<tsk, fin, tcancel, byWaiter>>
       [] ~wcancel /\ TaskDone ->
            /\ w' = (IF Op = "wait" THEN "ret_none"
                     ELSE IF tsk = "result" THEN "ret_result" ELSE IF tsk = "error" THEN "ret_error" ELSE "cancelled")
            /\ UNCHANGED <<tsk, fin, tcancel, wcancel, byWaiter>>
       [] OTHER -> FALSE
Next == (\E k \in {"result", "error"} : Finish(k)) \/ CancelTask \/ CancelWaiter \/ TaskStep \/ WaiterStep
Spec == Init /\ [][Next]_vars /\ WF_vars(TaskStep) /\ WF_vars(WaiterStep)

-----------------------------------------------------------------------------
\* join() and wait() never touch the task
ShieldedWaits == Op \in {"join", "wait"} => ~byWaiter
\* the waiter never reports an outcome the task does not have
Faithful == /\ w = "ret_result" => tsk = "result"
            /\ w = "ret_error" => tsk = "error"
            /\ w = "ret_none" => (Op = "wait" /\ TaskDone)
\* join_or_cancel() does not return before the task has ended
JocWaitsForTheTask == (Op = "joc" /\ WaiterDone) => TaskDone
Answers == TaskDone ~> WaiterDone
=============================================================================
