---------------------------- MODULE SendLockWire ----------------------------
(* The invariants of SendLock evaluated on a wire observed on a real connection (thread-safe blocking clients:
   chunk-level events are not observable there, the bytes received by the peer are).
   trace = [nchunks |-> k, wire |-> << <<sender, packet, chunk>> >>, cancelled |-> << <<sender, packet>> >>, events |-> << [ev] >>]
   The harness parses the received bytes back into <<sender, packet, chunk>> records; bytes that do not parse are
   reported as a record <<0, 0, 0>>, which no invariant tolerates.                                               *)
EXTENDS SendLock, Json, IOUtils

Traces == JsonDeserialize(IOEnv.TRACE_FILE)
VARIABLES tid, l
T == Traces[tid]
TInit == /\ tid \in 1..Len(Traces) /\ l = 1
         /\ pc = <<>> /\ pkt = <<>> /\ chunk = <<>> /\ holder = 0 /\ queue = <<>> /\ ncancel = 0
         /\ wire = Traces[tid].wire
         /\ cancelled = {Traces[tid].cancelled[i] : i \in 1..Len(Traces[tid].cancelled)}
NChunksT == T.nchunks
WireOk == /\ \A i \in 1..Len(wire) : wire[i][1] # 0
          /\ \A i \in 1..Len(wire) :
               LET e == wire[i] IN
                 IF e[3] = 1 THEN (i = 1 \/ wire[i - 1][3] = NChunksT)
                 ELSE i > 1 /\ wire[i - 1] = <<e[1], e[2], e[3] - 1>>
          /\ ExactlyOnce /\ SenderOrder /\ NeverWritten
          /\ \A k \in 1..Len(T.expected) : \E i \in 1..Len(wire) : wire[i] = <<T.expected[k][1], T.expected[k][2], NChunksT>>
TNext == /\ l = 1 /\ WireOk = TRUE /\ l' = 2
         /\ UNCHANGED <<pc, pkt, chunk, holder, queue, wire, ncancel, cancelled, tid>>
ASSUME \A t \in 1..Len(Traces) : TLCSet(t, 0)
Constr == TLCSet(tid, IF TLCGet(tid) > l THEN TLCGet(tid) ELSE l)
Post == LET bad == {t \in 1..Len(Traces) : TLCGet(t) <= 1} IN
        IF bad = {} THEN TRUE ELSE PrintT(<<"REJECTED", [t \in bad |-> TLCGet(t)]>>) /\ FALSE
=============================================================================
