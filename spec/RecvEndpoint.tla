---------------------------- MODULE RecvEndpoint ----------------------------
(* The blocking receive loop of StreamEndpoint (copying receiver: transport.recv(bufsize, t) + consumer.next(chunk);
   buffered receiver: transport.recv_into(view, t) + consumer.next(n)) over an abstract transport, with the time budget of
   the call (C03 + C11).  Content-free: the stream is a sequence of frames given by their cumulative end offsets.

     receive(timeout):  try: return consumer.next(None)            -- a complete frame already buffered: no transport call
                        while not eof_reached:
                            chunk = transport.recv(bufsize, timeout)        (elapsed time measured)
                            if not chunk: eof_reached = True; continue
                            try: return consumer.next(chunk)
                            except StopIteration:
                                if timeout > 0: timeout = max(timeout - elapsed, 0)
                                elif len(chunk) < bufsize: break
                        if eof_reached: raise ConnectionAbortedError (end-of-stream, sticky)
                        raise TimeoutError

   The transport honours its contract: recv(n, t) returns 1..n available bytes after waiting at most t, returns b"" once
   the peer has closed and everything was read, and raises TimeoutError after waiting t with nothing to deliver.
   Integer time.  par = [ends, bufsize, closeat]  (closeat: the peer closes after writing that many bytes, -1 = never).   *)
EXTENDS Integers, Sequences, FiniteSets, TLC

CONSTANTS Params, Timeouts, MaxCalls      \* Timeouts: set of timeouts tried (-1 = None)

VARIABLES par, wire, closed, read, delivered, eof, calling, budget, waited, result, ncalls, trecvs, tmo
\* wire: bytes written by the peer; read: bytes taken from the transport; result: outcome of the last finished call
vars == <<par, wire, closed, read, delivered, eof, calling, budget, waited, result, ncalls, trecvs, tmo>>

Ends == par.ends
Total == IF Len(Ends) = 0 THEN 0 ELSE Ends[Len(Ends)]
Limit == IF par.closeat >= 0 THEN par.closeat ELSE Total       \* bytes the peer will ever write
Complete(n) == Cardinality({i \in 1..Len(Ends) : Ends[i] <= n})
Avail == wire - read
INF == 0 - 1

Init == /\ par \in Params /\ wire = 0 /\ closed = FALSE /\ read = 0 /\ delivered = 0 /\ eof = FALSE
        /\ calling = FALSE /\ budget = 0 /\ waited = 0 /\ result = "none" /\ ncalls = 0 /\ trecvs = 0 /\ tmo = 0

-----------------------------------------------------------------------------
(* the peer *)
PeerWrite(n) == /\ ~closed /\ n >= 1 /\ wire + n <= Limit /\ wire' = wire + n
                /\ UNCHANGED <<par, closed, read, delivered, eof, calling, budget, waited, result, ncalls, trecvs, tmo>>
PeerClose == /\ ~closed /\ par.closeat >= 0 /\ wire = Limit /\ closed' = TRUE
             /\ UNCHANGED <<par, wire, read, delivered, eof, calling, budget, waited, result, ncalls, trecvs, tmo>>

(* the application *)
Call(t) == /\ ~calling /\ ncalls < MaxCalls /\ t \in Timeouts
           /\ ncalls' = ncalls + 1 /\ waited' = 0 /\ trecvs' = 0 /\ tmo' = t
           /\ IF delivered < Complete(read)                           \* consumer.next(None) succeeds
              THEN delivered' = delivered + 1 /\ result' = "packet" /\ UNCHANGED <<calling, budget>>
              ELSE calling' = TRUE /\ budget' = t /\ result' = "none" /\ UNCHANGED delivered
           /\ UNCHANGED <<par, wire, closed, read, eof>>

\* loop head with eof already latched: end-of-stream is reported without touching the transport
EofSticky == /\ calling /\ eof /\ calling' = FALSE /\ result' = "eof"
             /\ UNCHANGED <<par, wire, closed, read, delivered, eof, budget, waited, ncalls, trecvs, tmo>>

\* transport.recv returns k bytes after e time units
\* bs = size of the buffer handed to the transport (bufsize for the copying receiver, the free part of the
\* consumer's buffer for the buffered one)
RecvData(k, e, bs) ==
  /\ calling /\ ~eof /\ Avail >= 1 /\ k >= 1 /\ k <= Avail /\ k <= bs
  /\ e >= 0 /\ (budget # INF => e <= budget)
  /\ read' = read + k /\ waited' = waited + e /\ trecvs' = trecvs + 1
  /\ IF delivered < Complete(read + k)
     THEN delivered' = delivered + 1 /\ calling' = FALSE /\ result' = "packet" /\ UNCHANGED budget
     ELSE /\ UNCHANGED delivered
          /\ IF budget = INF THEN UNCHANGED <<budget, calling, result>>
             ELSE IF budget > 0 THEN budget' = budget - e /\ UNCHANGED <<calling, result>>
             ELSE IF k < bs THEN calling' = FALSE /\ result' = "timeout" /\ UNCHANGED budget
             ELSE UNCHANGED <<budget, calling, result>>
  /\ UNCHANGED <<par, wire, closed, eof, ncalls, tmo>>
\* transport.recv returns b"": the peer closed and everything was read
RecvEof(e) == /\ calling /\ ~eof /\ closed /\ Avail = 0
              /\ e >= 0 /\ (budget # INF => e <= budget)
              /\ eof' = TRUE /\ waited' = waited + e /\ trecvs' = trecvs + 1
              /\ UNCHANGED <<par, wire, closed, read, delivered, calling, budget, result, ncalls, tmo>>
\* transport.recv raises TimeoutError: nothing arrived during the whole remaining budget
RecvTimeout == /\ calling /\ ~eof /\ budget # INF /\ Avail = 0 /\ ~closed
               /\ waited' = waited + budget /\ trecvs' = trecvs + 1
               /\ calling' = FALSE /\ result' = "timeout"
               /\ UNCHANGED <<par, wire, closed, read, delivered, eof, budget, ncalls, tmo>>

Next == (\E n \in 1..3 : PeerWrite(n)) \/ PeerClose \/ (\E t \in Timeouts : Call(t)) \/ EofSticky
        \/ (\E k \in 1..3, e \in 0..3 : RecvData(k, e, par.bufsize)) \/ (\E e \in 0..2 : RecvEof(e)) \/ RecvTimeout
Spec == Init /\ [][Next]_vars

-----------------------------------------------------------------------------
\* C03: packets are delivered once, in order, never ahead of the bytes, an incomplete trailing frame is never delivered
NeverAhead == delivered <= Complete(read) /\ read <= wire
\* end-of-stream is reported only after every frame completed before the close was delivered
EofAfterAll == result = "eof" => (closed /\ read = wire /\ delivered = Complete(wire))
\* once end-of-stream is latched, no call touches the transport again: it is reported again at once
EofNoTransport == [][eof => (read' = read /\ eof' /\ (trecvs' = trecvs \/ trecvs' = 0))]_vars
EofIsSticky == (eof /\ ~calling /\ result # "none" /\ trecvs = 0 /\ delivered = Complete(read)) => result \in {"eof", "packet"}
\* C11: the time waited by one call never exceeds its timeout; a zero timeout never waits
WithinBudget == tmo # INF => waited <= tmo
\* TimeoutError only when the budget is used up and no complete frame is available
TimeoutIsReal == (result = "timeout") => (tmo # INF /\ waited = tmo /\ delivered = Complete(read))
=============================================================================
