--------------------------- MODULE LifecycleTrace ---------------------------
(* C18 as laws over a recorded history of lifecycle calls on ONE server object (asynchronous server: tasks; standalone server:
   threads, events serialised by the harness under one lock).  events [ev, a, out, serving, listening]:
     "serve_call" a | "up" a | "serve_ret" a out        out in {"returned", "already_running", "closed_error"}
     "shutdown_call" a | "shutdown_ret" a               serving   = server.is_serving() read at that moment
     "close_call" a | "close_ret" a out                 out in {"returned", "busy"};  listening = some listener still open
     "tstart_call" a | "tstart_ret" a                    NetworkServerThread(server).start()
     "probe" serving listening                          a quiescent observation (nothing is in flight)
     "svc_init" | "svc_down"                            the handler's service_init registered its tear-down / that tear-down ran
     "end"                                              every call has returned
   Laws: one serving call at a time, a concurrent one is refused with ServerAlreadyRunning and only then; a server whose
   close returned refuses with ServerClosedError, and ServerClosedError needs a close; shutdown returns only when serving has
   stopped; after a returned close no listener is open and nothing serves at the next quiescent point; every call returns.  *)
EXTENDS Naturals, Sequences, FiniteSets, TLC, Json, IOUtils
Traces == JsonDeserialize(IOEnv.TRACE_FILE)
VARIABLES tid, l, owner, phase, refused, closeSeen, closeReturned, pending, bornClosed, stopped, finishing, gen, starget, stopReq, svc
\* owner: actor whose serve_forever call is the active one (0: none); phase: "idle" | "setup" | "up"
\* refused: serve calls issued while another one was active; bornClosed: serve calls issued after a close had returned
\* stopped: the active serve call has been declared over by a shutdown() that returned (its own return may not be logged yet)
\* finishing: serve calls superseded that way, whose return is still to be logged
\* gen: number of serve calls that became the active one so far; starget[a]: value of gen when actor a called shutdown() (0: nothing was active)
\* stopReq: a shutdown() / server_close() call has been in flight at some moment since the active serve call was issued
\* svc: service tear-downs registered by service_init and not run yet
vars == <<owner, phase, refused, closeSeen, closeReturned, pending, bornClosed, stopped, finishing, gen, starget, stopReq, svc>>
T == Traces[tid]
Ev == T.events[l]
TInit == /\ tid \in 1..Len(Traces) /\ l = 1 /\ owner = 0 /\ phase = "idle" /\ refused = {} /\ closeSeen = FALSE /\ closeReturned = FALSE
         /\ pending = {} /\ bornClosed = {} /\ stopped = FALSE /\ finishing = {} /\ gen = 0 /\ starget = <<>> /\ stopReq = FALSE /\ svc = 0
IsEvent(e) == l <= Len(T.events) /\ Ev.ev = e /\ l' = l + 1 /\ UNCHANGED tid
Call(k) == <<k, Ev.a>>
\* once a shutdown() has returned, serving has fully stopped: a new serve_forever() is not "concurrent" with the call that was shut down
ServeCall == /\ IsEvent("serve_call") /\ pending' = pending \cup {Call("serve")}
             /\ IF owner # 0 /\ ~stopped
                THEN refused' = refused \cup {Ev.a} /\ UNCHANGED <<owner, phase, bornClosed, stopped, finishing, gen, starget, stopReq>>
                ELSE /\ owner' = Ev.a /\ phase' = "setup" /\ UNCHANGED <<refused, starget>> /\ stopped' = FALSE /\ gen' = gen + 1
                     /\ stopReq' = (\E c \in pending : c[1] \in {"shutdown", "close"})
                     /\ finishing' = (IF owner # 0 THEN finishing \cup {owner} ELSE finishing)
                     /\ bornClosed' = (IF closeReturned THEN bornClosed \cup {Ev.a} ELSE bornClosed)
             /\ UNCHANGED <<closeSeen, closeReturned, svc>>
\* Two serve_forever calls that are in flight together race for the server's locks: the order of the "serve_call" events does not decide
\* the winner.  As long as the presumed owner has not come up, a call presumed refused may turn out to be the one that serves.
Up == /\ IsEvent("up") /\ phase = "setup"
      /\ \/ owner = Ev.a /\ UNCHANGED <<owner, refused>>
         \/ owner # 0 /\ Ev.a \in refused /\ owner' = Ev.a /\ refused' = (refused \ {Ev.a}) \cup {owner}
      /\ phase' = "up"
      /\ UNCHANGED <<closeSeen, closeReturned, pending, bornClosed, stopped, finishing, gen, starget, stopReq, svc>>
ServeRet == /\ IsEvent("serve_ret") /\ Call("serve") \in pending /\ pending' = pending \ {Call("serve")}
            /\ Ev.out \in {"returned", "already_running", "closed_error"}     \* anything else ("error:<type>") is not a lifecycle answer
            /\ IF Ev.a \in finishing
               THEN Ev.out # "already_running" /\ finishing' = finishing \ {Ev.a} /\ UNCHANGED <<owner, phase, refused, bornClosed, stopped>>
               ELSE IF Ev.a \in refused
               THEN Ev.out = "already_running" /\ refused' = refused \ {Ev.a} /\ UNCHANGED <<owner, phase, bornClosed, stopped, finishing>>
               ELSE IF owner = Ev.a /\ Ev.out = "already_running"
               THEN \* the presumed owner lost the race: one of the calls presumed refused is the active one
                    /\ phase = "setup" /\ refused # {}
                    /\ \E b \in refused : owner' = b /\ refused' = refused \ {b}
                    /\ UNCHANGED <<phase, bornClosed, stopped, finishing>>
               ELSE /\ owner = Ev.a /\ Ev.out # "already_running"
                    /\ (Ev.out = "closed_error" => closeSeen)
                    /\ (Ev.a \in bornClosed => Ev.out = "closed_error")
                    /\ (Ev.out = "returned" => stopReq)       \* it does not stop serving on its own
                    /\ owner' = 0 /\ phase' = "idle" /\ bornClosed' = bornClosed \ {Ev.a} /\ stopped' = FALSE /\ UNCHANGED <<refused, finishing>>
            /\ UNCHANGED <<closeSeen, closeReturned, gen, starget, stopReq, svc>>
Put(f, k, v) == [x \in DOMAIN f \cup {k} |-> IF x = k THEN v ELSE f[x]]
ShutdownCall == /\ IsEvent("shutdown_call") /\ pending' = pending \cup {Call("shutdown")}
                /\ starget' = Put(starget, Ev.a, IF owner # 0 THEN gen ELSE 0)
                /\ stopReq' = TRUE
                /\ UNCHANGED <<owner, phase, refused, closeSeen, closeReturned, bornClosed, stopped, finishing, gen, svc>>
\* shutdown returns only after serving has fully stopped
ShutdownRet == /\ IsEvent("shutdown_ret") /\ Call("shutdown") \in pending /\ pending' = pending \ {Call("shutdown")}
               /\ Ev.serving = FALSE
               \* the serve call that was active when this shutdown() was issued is over, even if its own return is not logged yet
               /\ stopped' = (owner # 0 /\ (stopped \/ (Ev.a \in DOMAIN starget /\ starget[Ev.a] = gen)))
               \* ... and what its service_init registered has been torn down
               /\ ((Ev.a \in DOMAIN starget /\ starget[Ev.a] = gen) => svc = 0)
               /\ UNCHANGED <<owner, phase, refused, closeSeen, closeReturned, bornClosed, finishing, gen, starget, stopReq, svc>>
CloseCall == /\ IsEvent("close_call") /\ pending' = pending \cup {Call("close")} /\ closeSeen' = TRUE /\ stopReq' = TRUE
             /\ UNCHANGED <<owner, phase, refused, closeReturned, bornClosed, stopped, finishing, gen, starget, svc>>
CloseRet == /\ IsEvent("close_ret") /\ Call("close") \in pending /\ pending' = pending \ {Call("close")}
            /\ \/ /\ Ev.out = "returned" /\ Ev.listening = FALSE /\ closeReturned' = TRUE
               \/ /\ Ev.out = "busy" /\ phase = "setup" /\ UNCHANGED closeReturned      \* refused loudly during the set-up of serve_forever
            /\ UNCHANGED <<owner, phase, refused, closeSeen, bornClosed, stopped, finishing, gen, starget, stopReq, svc>>
SvcInit == IsEvent("svc_init") /\ svc' = svc + 1 /\ UNCHANGED <<owner, phase, refused, closeSeen, closeReturned, pending, bornClosed, stopped, finishing, gen, starget, stopReq>>
SvcDown == IsEvent("svc_down") /\ svc > 0 /\ svc' = svc - 1 /\ UNCHANGED <<owner, phase, refused, closeSeen, closeReturned, pending, bornClosed, stopped, finishing, gen, starget, stopReq>>
\* quiescent observation: consistent with the history
Probe == /\ IsEvent("probe") /\ pending \subseteq {c \in pending : c[1] = "serve"}
         /\ (Ev.serving => owner # 0 /\ phase = "up" /\ ~closeReturned)
         /\ (closeReturned => ~Ev.listening /\ ~Ev.serving)
         /\ (owner = 0 /\ pending = {} => svc = 0)
         /\ UNCHANGED vars
\* NetworkServerThread.start(): returns once the server is up or its serve_forever() has ended - it has to return
TStartCall == IsEvent("tstart_call") /\ pending' = pending \cup {Call("tstart")} /\ UNCHANGED <<owner, phase, refused, closeSeen, closeReturned, bornClosed, stopped, finishing, gen, starget, stopReq, svc>>
TStartRet == IsEvent("tstart_ret") /\ Call("tstart") \in pending /\ pending' = pending \ {Call("tstart")} /\ UNCHANGED <<owner, phase, refused, closeSeen, closeReturned, bornClosed, stopped, finishing, gen, starget, stopReq, svc>>
End == IsEvent("end") /\ pending = {} /\ owner = 0 /\ finishing = {} /\ svc = 0 /\ UNCHANGED vars
TNext == SvcInit \/ SvcDown \/ TStartCall \/ TStartRet \/ ServeCall \/ Up \/ ServeRet \/ ShutdownCall \/ ShutdownRet \/ CloseCall \/ CloseRet \/ Probe \/ End
ASSUME \A x \in 1..Len(Traces) : TLCSet(x, 0)
Constr == TLCSet(tid, IF TLCGet(tid) > l THEN TLCGet(tid) ELSE l)
Post == LET bad == {x \in 1..Len(Traces) : TLCGet(x) <= Len(Traces[x].events)} IN
        IF bad = {} THEN TRUE ELSE PrintT(<<"REJECTED", [x \in bad |-> TLCGet(x)]>>) /\ FALSE
=============================================================================
