--------------------------- MODULE LifecycleTrace ---------------------------
(* C18 as laws over a recorded history of lifecycle calls on ONE server object (asynchronous server: tasks; standalone server:
   threads, events serialised by the harness under one lock).  events [ev, a, out, serving, listening]:
     "serve_call" a | "up" a | "serve_ret" a out        out in {"returned", "already_running", "closed_error"}
     "shutdown_call" a | "shutdown_ret" a               serving   = server.is_serving() read at that moment
     "close_call" a | "close_ret" a out                 out in {"returned", "busy"};  listening = some listener still open
     "tstart_call" a | "tstart_ret" a                    NetworkServerThread(server).start()
     "probe" serving listening                          a quiescent observation (nothing is in flight)
     "end"                                              every call has returned
   Laws: one serving call at a time, a concurrent one is refused with ServerAlreadyRunning and only then; a server whose
   close returned refuses with ServerClosedError, and ServerClosedError needs a close; shutdown returns only when serving has
   stopped; after a returned close no listener is open and nothing serves at the next quiescent point; every call returns.  *)
EXTENDS Naturals, Sequences, FiniteSets, TLC, Json, IOUtils
Traces == JsonDeserialize(IOEnv.TRACE_FILE)
VARIABLES tid, l, owner, phase, refused, closeSeen, closeReturned, pending, bornClosed
\* owner: actor whose serve_forever call is the active one (0: none); phase: "idle" | "setup" | "up"
\* refused: serve calls issued while another one was active; bornClosed: serve calls issued after a close had returned
vars == <<owner, phase, refused, closeSeen, closeReturned, pending, bornClosed>>
T == Traces[tid]
Ev == T.events[l]
TInit == /\ tid \in 1..Len(Traces) /\ l = 1 /\ owner = 0 /\ phase = "idle" /\ refused = {} /\ closeSeen = FALSE /\ closeReturned = FALSE
         /\ pending = {} /\ bornClosed = {}
IsEvent(e) == l <= Len(T.events) /\ Ev.ev = e /\ l' = l + 1 /\ UNCHANGED tid
Call(k) == <<k, Ev.a>>
ServeCall == /\ IsEvent("serve_call") /\ pending' = pending \cup {Call("serve")}
             /\ IF owner # 0
                THEN refused' = refused \cup {Ev.a} /\ UNCHANGED <<owner, phase, bornClosed>>
                ELSE /\ owner' = Ev.a /\ phase' = "setup" /\ UNCHANGED refused
                     /\ bornClosed' = (IF closeReturned THEN bornClosed \cup {Ev.a} ELSE bornClosed)
             /\ UNCHANGED <<closeSeen, closeReturned>>
\* Two serve_forever calls that are in flight together race for the server's locks: the order of the "serve_call" events does not decide
\* the winner.  As long as the presumed owner has not come up, a call presumed refused may turn out to be the one that serves.
Up == /\ IsEvent("up") /\ phase = "setup"
      /\ \/ owner = Ev.a /\ UNCHANGED <<owner, refused>>
         \/ owner # 0 /\ Ev.a \in refused /\ owner' = Ev.a /\ refused' = (refused \ {Ev.a}) \cup {owner}
      /\ phase' = "up"
      /\ UNCHANGED <<closeSeen, closeReturned, pending, bornClosed>>
ServeRet == /\ IsEvent("serve_ret") /\ Call("serve") \in pending /\ pending' = pending \ {Call("serve")}
            /\ IF Ev.a \in refused
               THEN Ev.out = "already_running" /\ refused' = refused \ {Ev.a} /\ UNCHANGED <<owner, phase, bornClosed>>
               ELSE IF owner = Ev.a /\ Ev.out = "already_running"
               THEN \* the presumed owner lost the race: one of the calls presumed refused is the active one
                    /\ phase = "setup" /\ refused # {}
                    /\ \E b \in refused : owner' = b /\ refused' = refused \ {b}
                    /\ UNCHANGED <<phase, bornClosed>>
               ELSE /\ owner = Ev.a /\ Ev.out # "already_running"
                    /\ (Ev.out = "closed_error" => closeSeen)
                    /\ (Ev.a \in bornClosed => Ev.out = "closed_error")
                    /\ owner' = 0 /\ phase' = "idle" /\ bornClosed' = bornClosed \ {Ev.a} /\ UNCHANGED refused
            /\ UNCHANGED <<closeSeen, closeReturned>>
ShutdownCall == IsEvent("shutdown_call") /\ pending' = pending \cup {Call("shutdown")} /\ UNCHANGED <<owner, phase, refused, closeSeen, closeReturned, bornClosed>>
\* shutdown returns only after serving has fully stopped
ShutdownRet == /\ IsEvent("shutdown_ret") /\ Call("shutdown") \in pending /\ pending' = pending \ {Call("shutdown")}
               /\ Ev.serving = FALSE
               /\ UNCHANGED <<owner, phase, refused, closeSeen, closeReturned, bornClosed>>
CloseCall == /\ IsEvent("close_call") /\ pending' = pending \cup {Call("close")} /\ closeSeen' = TRUE
             /\ UNCHANGED <<owner, phase, refused, closeReturned, bornClosed>>
CloseRet == /\ IsEvent("close_ret") /\ Call("close") \in pending /\ pending' = pending \ {Call("close")}
            /\ \/ /\ Ev.out = "returned" /\ Ev.listening = FALSE /\ closeReturned' = TRUE
               \/ /\ Ev.out = "busy" /\ phase = "setup" /\ UNCHANGED closeReturned      \* refused loudly during the set-up of serve_forever
            /\ UNCHANGED <<owner, phase, refused, closeSeen, bornClosed>>
\* quiescent observation: consistent with the history
Probe == /\ IsEvent("probe") /\ pending \subseteq {c \in pending : c[1] = "serve"}
         /\ (Ev.serving => owner # 0 /\ phase = "up" /\ ~closeReturned)
         /\ (closeReturned => ~Ev.listening /\ ~Ev.serving)
         /\ UNCHANGED vars
\* NetworkServerThread.start(): returns once the server is up or its serve_forever() has ended - it has to return
TStartCall == IsEvent("tstart_call") /\ pending' = pending \cup {Call("tstart")} /\ UNCHANGED <<owner, phase, refused, closeSeen, closeReturned, bornClosed>>
TStartRet == IsEvent("tstart_ret") /\ Call("tstart") \in pending /\ pending' = pending \ {Call("tstart")} /\ UNCHANGED <<owner, phase, refused, closeSeen, closeReturned, bornClosed>>
End == IsEvent("end") /\ pending = {} /\ owner = 0 /\ UNCHANGED vars
TNext == TStartCall \/ TStartRet \/ ServeCall \/ Up \/ ServeRet \/ ShutdownCall \/ ShutdownRet \/ CloseCall \/ CloseRet \/ Probe \/ End
ASSUME \A x \in 1..Len(Traces) : TLCSet(x, 0)
Constr == TLCSet(tid, IF TLCGet(tid) > l THEN TLCGet(tid) ELSE l)
Post == LET bad == {x \in 1..Len(Traces) : TLCGet(x) <= Len(Traces[x].events)} IN
        IF bad = {} THEN TRUE ELSE PrintT(<<"REJECTED", [x \in bad |-> TLCGet(x)]>>) /\ FALSE
=============================================================================
