---------------------------- MODULE RecvCancel ----------------------------
(* One connection of the asyncio stream adapter (StreamReaderBufferedProtocol.receive_data / receive_data_into)
   together with the iteration structure of the event loop:

     iteration = poll I/O (read-ready handle appended if the socket is readable and the poll sees it),
                 then timers that are due are appended, then exactly the handles present at that moment are run in FIFO
                 order; handles scheduled while they run (task wake-ups, call_soon) belong to the next iteration.

   Handles: "read" = transport._read_ready (protocol.get_buffer / recv_into / protocol.buffer_updated),
            "step" = one step of the reading task, "cancel" = somebody calls task.cancel() on the reading task.
   A cancellation request comes either from a timer (deadline of a timeout scope: runs after the I/O handles of its
   iteration) or from a handle scheduled earlier (another task / call_soon: runs before them).

   Fixed = FALSE is the code as it was (bytes written into the caller's buffer are lost when the task is cancelled
   in the same iteration, in either order); Fixed = TRUE is the intended design:
     - incoming bytes are routed into the caller's buffer only while its waiter is still pending,
     - a task thrown CancelledError although its waiter already carries a byte count moves those bytes to the front
       of the protocol's own buffer.                                                                              *)
EXTENDS Naturals, Sequences, TLC

CONSTANTS MaxBytes,    \* bytes the peer will write (numbered 1..MaxBytes)
          B,           \* size of the caller's buffer / bufsize
          MaxCalls,    \* number of receive calls the reading task makes
          MaxCancels,
          Into,        \* TRUE: receive_data_into (caller's buffer registered with the protocol); FALSE: receive_data
          Double,      \* TRUE: a transport may deliver two data callbacks in one iteration (proactor / fed-buffer transports)
          Fixed

VARIABLES sent, kernel, internal, extbuf, ext, waiter, wres, tst, mustc, ready, ntodo,
          delivered, lost, calls, cancels, outcomes
vars == <<sent, kernel, internal, extbuf, ext, waiter, wres, tst, mustc, ready, ntodo, delivered, lost, calls, cancels, outcomes>>

Take(s, n) == SubSeq(s, 1, n)
Drop(s, n) == SubSeq(s, n + 1, Len(s))
Min(a, b) == IF a < b THEN a ELSE b

Init == /\ sent = <<>> /\ kernel = <<>> /\ internal = <<>> /\ extbuf = <<>> /\ ext = FALSE
        /\ waiter = "none" /\ wres = 0 /\ tst = "start" /\ mustc = FALSE
        /\ ready = <<"step">> /\ ntodo = 0 /\ delivered = <<>> /\ lost = <<>> /\ calls = 0 /\ cancels = 0
        /\ outcomes = <<>>

-----------------------------------------------------------------------------
(* environment, between iterations *)
PeerWrite(n) == /\ ntodo = 0 /\ n \in 1..(MaxBytes - Len(sent))
                /\ LET new == [i \in 1..n |-> Len(sent) + i] IN sent' = sent \o new /\ kernel' = kernel \o new
                /\ UNCHANGED <<internal, extbuf, ext, waiter, wres, tst, mustc, ready, ntodo, delivered, lost, calls, cancels, outcomes>>

\* another task / call_soon schedules task.cancel(): it will run before the I/O handles of the next iteration
CancelSoon == /\ ntodo = 0 /\ cancels < MaxCancels /\ tst \in {"await", "yield"}
              /\ cancels' = cancels + 1 /\ ready' = Append(ready, "cancel")
              /\ UNCHANGED <<sent, kernel, internal, extbuf, ext, waiter, wres, tst, mustc, ntodo, delivered, lost, calls, outcomes>>

\* start of an iteration. seen: the poll reports the socket readable; timer: a deadline fires in this iteration
BeginIter(seen, timer, dbl) ==
  /\ ntodo = 0
  /\ (dbl => Double /\ seen)
  /\ (timer => cancels < MaxCancels /\ tst \in {"await", "yield"})
  /\ LET r0 == IF seen /\ kernel # <<>> THEN Append(ready, "read") ELSE ready
         r1 == IF dbl /\ kernel # <<>> THEN Append(r0, "read") ELSE r0
         r2 == IF timer THEN Append(r1, "cancel") ELSE r1 IN
     /\ ready' = r2 /\ ntodo' = Len(r2) /\ Len(r2) > 0
  /\ cancels' = IF timer THEN cancels + 1 ELSE cancels
  /\ UNCHANGED <<sent, kernel, internal, extbuf, ext, waiter, wres, tst, mustc, delivered, lost, calls, outcomes>>

-----------------------------------------------------------------------------
(* handles *)
\* transport._read_ready -> protocol.get_buffer / buffer_updated
RunRead ==
  /\ ntodo > 0 /\ Head(ready) = "read"
  /\ ntodo' = ntodo - 1
  /\ IF kernel = <<>> THEN UNCHANGED <<kernel, internal, extbuf, ext, waiter, wres, lost>> /\ ready' = Tail(ready)
     ELSE LET useExt == ext /\ (~Fixed \/ waiter = "pending")
              n == IF useExt THEN Min(Len(kernel), B) ELSE Len(kernel)
              data == Take(kernel, n) IN
          /\ kernel' = Drop(kernel, n)
          /\ IF useExt
             THEN /\ ext' = FALSE
                  /\ IF waiter = "pending"
                     THEN waiter' = "done_n" /\ wres' = n /\ extbuf' = data /\ ready' = Append(Tail(ready), "step") /\ UNCHANGED lost
                     ELSE lost' = lost \o data /\ ready' = Tail(ready) /\ UNCHANGED <<waiter, wres, extbuf>>
                  /\ UNCHANGED internal
             ELSE /\ internal' = internal \o data
                  /\ ext' = (IF Fixed THEN FALSE ELSE ext)
                  /\ IF waiter = "pending"
                     THEN waiter' = "done_none" /\ ready' = Append(Tail(ready), "step")
                     ELSE UNCHANGED waiter /\ ready' = Tail(ready)
                  /\ UNCHANGED <<wres, extbuf, lost>>
  /\ UNCHANGED <<sent, tst, mustc, delivered, calls, cancels, outcomes>>

\* entering the next receive call (no suspension between the end of a call and the start of the next one)
StartCall(int, cl) ==
  IF cl >= MaxCalls THEN [tst |-> "finished", waiter |-> "none", ext |-> FALSE, queue |-> FALSE]
  ELSE IF int # <<>> THEN [tst |-> "yield", waiter |-> "done_none", ext |-> FALSE, queue |-> TRUE]      \* data already buffered: set_result + coro_yield
  ELSE [tst |-> "await", waiter |-> "pending", ext |-> Into, queue |-> FALSE]

\* one step of the reading task: from its resumption point to its next suspension
RunStep ==
  /\ ntodo > 0 /\ Head(ready) = "step"
  /\ ntodo' = ntodo - 1
  /\ LET r == Tail(ready) IN
     CASE tst = "start" ->
            LET s == StartCall(internal, calls) IN
            /\ tst' = s.tst /\ waiter' = s.waiter /\ ext' = s.ext /\ calls' = IF s.tst = "finished" THEN calls ELSE calls + 1
            /\ ready' = IF s.queue THEN Append(r, "step") ELSE r
            /\ UNCHANGED <<internal, extbuf, wres, mustc, delivered, lost, outcomes>>
       [] tst \in {"await", "yield"} /\ (tst = "yield" \/ waiter # "pending") ->
            LET cancelled == mustc \/ waiter = "cancelled"
                dropped == IF cancelled /\ waiter = "done_n" THEN extbuf ELSE <<>>      \* bytes sitting in the caller's buffer
                int1 == IF Fixed THEN dropped \o internal ELSE internal
                lost1 == IF Fixed THEN lost ELSE lost \o dropped
                got == IF cancelled THEN <<>>
                       ELSE IF waiter = "done_n" THEN extbuf
                       ELSE Take(int1, Min(Len(int1), B))
                int2 == IF cancelled \/ waiter = "done_n" THEN int1 ELSE Drop(int1, Len(got))
                s == StartCall(int2, calls) IN
            /\ delivered' = delivered \o got /\ internal' = int2 /\ lost' = lost1 /\ extbuf' = <<>> /\ wres' = 0
            /\ mustc' = FALSE
            /\ outcomes' = Append(outcomes, IF cancelled THEN "cancelled" ELSE "data")
            /\ tst' = s.tst /\ waiter' = s.waiter /\ ext' = s.ext /\ calls' = IF s.tst = "finished" THEN calls ELSE calls + 1
            /\ ready' = IF s.queue THEN Append(r, "step") ELSE r
       [] OTHER -> /\ ready' = r /\ UNCHANGED <<tst, waiter, ext, calls, internal, extbuf, wres, mustc, delivered, lost, outcomes>>
  /\ UNCHANGED <<sent, kernel, cancels>>

\* task.cancel(): a pending waiter is cancelled (wake-up queued); otherwise the task is marked and gets CancelledError at its next step
RunCancel ==
  /\ ntodo > 0 /\ Head(ready) = "cancel"
  /\ ntodo' = ntodo - 1
  /\ IF tst = "await" /\ waiter = "pending"
     THEN waiter' = "cancelled" /\ ready' = Append(Tail(ready), "step") /\ UNCHANGED mustc
     ELSE IF tst \in {"await", "yield"} THEN mustc' = TRUE /\ ready' = Tail(ready) /\ UNCHANGED waiter
     ELSE ready' = Tail(ready) /\ UNCHANGED <<mustc, waiter>>
  /\ UNCHANGED <<sent, kernel, internal, extbuf, ext, wres, tst, delivered, lost, calls, cancels, outcomes>>

Next == (\E n \in 1..MaxBytes : PeerWrite(n)) \/ CancelSoon \/ (\E s, t, d \in BOOLEAN : BeginIter(s, t, d)) \/ RunRead \/ RunStep \/ RunCancel
Spec == Init /\ [][Next]_vars

-----------------------------------------------------------------------------
NoLoss == lost = <<>>
\* no byte lost, duplicated or reordered: what was sent is what was delivered, then what waits in the caller's buffer
\* (result already set), then the protocol's buffer, then the kernel
Conservation == sent = delivered \o (IF waiter = "done_n" THEN extbuf ELSE <<>>) \o internal \o kernel
InOrder == \A i \in 1..Len(delivered) : delivered[i] = i
=============================================================================
