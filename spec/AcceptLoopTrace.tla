-------------------------- MODULE AcceptLoopTrace --------------------------
(* trace = [script |-> <<...>>, events |-> << [ev, s, kind, t] >>]
   "accept" kind s (s = socket id when kind = "ok") t (time in ms at which accept() was called)
   "setup_start" s | "handed" s | "sock_closed" s (observed: close() was called on the accepted socket, which was not handed over)
   "close" (listener.aclose() called) | "serve_end" kind ("closed": OSError EBADF | "error": the fatal error | "cancelled")
   "final" s kind : state of every accepted socket once everything is at rest ("handed" | "closed" | "dropped": never closed explicitly,
                    the object is gone and the interpreter closed the descriptor | "leaked": still open, owned by nobody)
   A capacity error must be followed by a pause of at least SleepMs before the next accept().                              *)
EXTENDS AcceptLoop, Json, IOUtils
Traces == JsonDeserialize(IOEnv.TRACE_FILE)
SleepMs == 100
VARIABLES tid, l, lastcap
T == Traces[tid]
Ev == T.events[l]
TInit == /\ tid \in 1..Len(Traces) /\ l = 1 /\ script = Traces[tid].script /\ pos = 1 /\ loop = "accepting" /\ socks = <<>>
         /\ closed = FALSE /\ naccepts = 0 /\ lastcap = 0 - 1
IsEvent(e) == l <= Len(T.events) /\ Ev.ev = e /\ l' = l + 1 /\ UNCHANGED tid
TAccept == /\ IsEvent("accept")
           /\ (loop = "sleeping" => (Ev.t >= lastcap + SleepMs))
           /\ AcceptBody      \* from "accepting", or from "sleeping" once the pause is over (Wake is not logged)
           /\ script[pos] = Ev.kind /\ (Ev.kind = "ok" => Ev.s = Len(socks'))
           /\ lastcap' = IF Ev.kind = "capacity" THEN Ev.t ELSE lastcap
TStart == IsEvent("setup_start") /\ SetupStart(Ev.s) /\ UNCHANGED lastcap
THanded == IsEvent("handed") /\ SetupOk(Ev.s) /\ UNCHANGED lastcap
\* a set-up task that never ran is not observable when it is discarded: inferred (silently) before serve() ends
TDropped == Stopping /\ (\E s \in Ids : SetupDropped(s)) /\ UNCHANGED <<tid, l, lastcap>>
TSockClosed == IsEvent("sock_closed") /\ (SetupFail(Ev.s) \/ SetupCancelled(Ev.s)) /\ UNCHANGED lastcap
TClose == IsEvent("close") /\ Close /\ UNCHANGED lastcap
\* serve() ended: with EBADF after a close, or with the fatal accept error
TServeEnd == /\ IsEvent("serve_end") /\ ServeEnds /\ UNCHANGED lastcap
             /\ \/ Ev.kind = "closed" /\ loop' = "ended_closed"
                \/ Ev.kind = "error" /\ loop' = "ended_error"
TFinal == /\ IsEvent("final") /\ Ended /\ Ev.s \in Ids /\ Ev.kind \in {"handed", "closed", "dropped"} /\ UNCHANGED lastcap
          /\ socks[Ev.s] = Ev.kind /\ UNCHANGED vars
TEnd == IsEvent("end") /\ Ended /\ UNCHANGED <<vars, lastcap>>
TNext == (NoLeak = TRUE) /\ (TDropped \/ TAccept \/ TStart \/ THanded \/ TSockClosed \/ TClose \/ TServeEnd \/ TFinal \/ TEnd)
ASSUME \A x \in 1..Len(Traces) : TLCSet(x, 0)
Constr == TLCSet(tid, IF TLCGet(tid) > l THEN TLCGet(tid) ELSE l)
Post == LET bad == {x \in 1..Len(Traces) : TLCGet(x) <= Len(Traces[x].events)} IN
        IF bad = {} THEN TRUE ELSE PrintT(<<"REJECTED", [x \in bad |-> TLCGet(x)]>>) /\ FALSE
=============================================================================
