-------------------------- MODULE SepScanTrace --------------------------
(* Batch trace validation against SepScan: every recorded execution of a real separator-framed serializer
   (fed through the real StreamDataConsumer / BufferedStreamDataConsumer) must be a behaviour of SepScan with
   par.faithful = FALSE, and every invariant of SepScan must hold in every state it passes through.

   trace = [par |-> [...], sent |-> <<bytes>>, events |-> << [ev, n, k, data, held] >>]
     ev = "read"  : n bytes handed to the consumer; k = outcome ("more" | "pkt" | "err" | "limit"); data = payload delivered
     ev = "drain" : next(None) produced outcome k
     ev = "quiet" : next(None) raised StopIteration (nothing deliverable)
     held >= 0    : number of bytes the consumer holds after the step, as observed on the real object (-1: not observable)  *)
EXTENDS SepScan, Json, IOUtils

Traces == JsonDeserialize(IOEnv.TRACE_FILE)

VARIABLES tid, l
tvars == <<vars, tid, l>>

T == Traces[tid]
Ev == T.events[l]

TInit == /\ tid \in 1..Len(Traces) /\ l = 1
         /\ par = Traces[tid].par
         /\ sent = Traces[tid].sent /\ unread = Traces[tid].sent
         /\ rbuf = <<>> /\ off = 0 /\ active = FALSE /\ left = <<>>
         /\ mem = [i \in 1..Traces[tid].par.limit |-> Stale] /\ buflen = 0 /\ pending = FALSE /\ out = <<>> /\ consumed = 0

IsEvent(e) == l <= Len(T.events) /\ Ev.ev = e /\ l' = l + 1 /\ UNCHANGED tid

Match == /\ IF Ev.k = "more" THEN out' = out
            ELSE /\ Len(out') = Len(out) + 1 /\ out'[Len(out')].k = Ev.k
                 /\ (Ev.k = "pkt" => out'[Len(out')].data = Ev.data)
         /\ (Ev.held >= 0 => Held' = Ev.held)

AllInv == SafeAgree /\ SafeComplete /\ NoLimitOnSafe /\ Bound /\ StaleFree /\ Aligned /\ Resync

DrainEnabled == (par.path = "copy" /\ ~active /\ Len(left) > 0) \/ (par.path = "buf" /\ pending)
TRead == IsEvent("read") /\ (CopyRead(Ev.n) \/ BufRead(Ev.n)) /\ Match
TDrain == IsEvent("drain") /\ (CopyDrain \/ BufDrain) /\ Match
\* next(None) raised StopIteration: either the leftover was parsed without completing a frame, or nothing was left over
TQuiet == /\ IsEvent("quiet")
          /\ \/ DrainEnabled /\ (CopyDrain \/ BufDrain) /\ out' = out
             \/ ~DrainEnabled /\ UNCHANGED vars
\* last event of every trace: makes the final state subject to the guard below
TEnd == IsEvent("end") /\ UNCHANGED vars

\* the invariants of SepScan are evaluated in every state the trace passes through: no step is possible from a state
\* that violates one, so the furthest position reached identifies the event after which it broke
TNext == /\ AllInv = TRUE      \* '= TRUE': evaluated as a value, TLC must not enumerate the witnesses of its quantifiers as action branches
         /\ (TRead \/ TDrain \/ TQuiet \/ TEnd)
         /\ (consumed' >= consumed)
         /\ (\A i \in 1..Len(out') : (i > Len(out) /\ out'[i].k \in {"err", "limit"}) => consumed' > consumed) = TRUE
TSpec == TInit /\ [][TNext]_tvars

ASSUME \A t \in 1..Len(Traces) : TLCSet(t, 0)
Constr == TLCSet(tid, IF TLCGet(tid) > l THEN TLCGet(tid) ELSE l)
Post == LET bad == {t \in 1..Len(Traces) : TLCGet(t) <= Len(Traces[t].events)} IN
        IF bad = {} THEN TRUE ELSE PrintT(<<"REJECTED", [t \in bad |-> TLCGet(t)]>>) /\ FALSE
=============================================================================
