--------------------------- MODULE IsolationTrace ---------------------------
(* trace = [nc, faulty, stream, events |-> << [ev, c, i, ok] >>] recorded from a real server with one faulty and NC-1 healthy clients:
   "connect" c | "onconn" c | "req" c i | "resp" c i ok (ok = the expected answer to request i) | "fault" | "disconnect" c
   | "closed" c ok (ok = the server side of the connection is closed) | "end" ok (ok = the server is still serving)
   At "end": every healthy client got all its answers; stream: the faulty connection is closed and its hooks are consistent;
   datagram: the faulty address was answered again after the fault.                                                       *)
EXTENDS Isolation, Sequences, Json, IOUtils
Traces == JsonDeserialize(IOEnv.TRACE_FILE)
VARIABLES tid, l, nc, fc, strm
T == Traces[tid]
Ev == T.events[l]
TInit == /\ tid \in 1..Len(Traces) /\ l = 1 /\ nc = Traces[tid].nc /\ fc = Traces[tid].faulty /\ strm = Traces[tid].stream
         /\ up = TRUE /\ conn = [c \in 1..Traces[tid].nc |-> "none"] /\ onconn = [c \in 1..Traces[tid].nc |-> FALSE]
         /\ sent = [c \in 1..Traces[tid].nc |-> 0] /\ answered = [c \in 1..Traces[tid].nc |-> 0] /\ faulted = FALSE
         /\ disc = [c \in 1..Traces[tid].nc |-> FALSE]
IsEvent(e) == l <= Len(T.events) /\ Ev.ev = e /\ l' = l + 1 /\ UNCHANGED <<tid, nc, fc, strm>>
C == Ev.c
TNext ==
  /\ (up /\ (\A c \in 1..nc : answered[c] <= sent[c] /\ (disc[c] => onconn[c]))) = TRUE
  /\ \/ IsEvent("connect") /\ conn[C] = "none" /\ conn' = [conn EXCEPT ![C] = "open"] /\ UNCHANGED <<up, onconn, sent, answered, faulted, disc>>
     \/ IsEvent("onconn") /\ conn[C] = "open" /\ ~onconn[C] /\ onconn' = [onconn EXCEPT ![C] = TRUE] /\ UNCHANGED <<up, conn, sent, answered, faulted, disc>>
     \/ IsEvent("req") /\ conn[C] = "open" /\ Ev.i = sent[C] + 1 /\ sent' = [sent EXCEPT ![C] = @ + 1] /\ UNCHANGED <<up, conn, onconn, answered, faulted, disc>>
     \/ IsEvent("resp") /\ Ev.ok = TRUE /\ answered[C] < sent[C] /\ Ev.i = answered[C] + 1
           /\ answered' = [answered EXCEPT ![C] = @ + 1] /\ UNCHANGED <<up, conn, onconn, sent, faulted, disc>>
     \/ IsEvent("fault") /\ ~faulted /\ faulted' = TRUE
           /\ (IF strm THEN UNCHANGED answered ELSE answered' = [answered EXCEPT ![fc] = sent[fc]])
           /\ UNCHANGED <<up, conn, onconn, sent, disc>>
     \/ IsEvent("disconnect") /\ strm /\ onconn[C] /\ ~disc[C] /\ conn[C] = "open" /\ disc' = [disc EXCEPT ![C] = TRUE]
           /\ UNCHANGED <<up, conn, onconn, sent, answered, faulted>>
     \/ IsEvent("closed") /\ strm /\ Ev.ok = TRUE /\ conn[C] = "open" /\ (onconn[C] => disc[C]) /\ conn' = [conn EXCEPT ![C] = "closed"]
           /\ UNCHANGED <<up, onconn, sent, answered, faulted, disc>>
     \/ /\ IsEvent("end") /\ Ev.ok = TRUE /\ faulted
        /\ \A c \in 1..nc : c # fc => answered[c] = sent[c]
        /\ (strm => conn[fc] = "closed")
        /\ (~strm => answered[fc] = sent[fc])
        /\ UNCHANGED vars
ASSUME \A x \in 1..Len(Traces) : TLCSet(x, 0)
Constr == TLCSet(tid, IF TLCGet(tid) > l THEN TLCGet(tid) ELSE l)
Post == LET bad == {x \in 1..Len(Traces) : TLCGet(x) <= Len(Traces[x].events)} IN
        IF bad = {} THEN TRUE ELSE PrintT(<<"REJECTED", [x \in bad |-> TLCGet(x)]>>) /\ FALSE
=============================================================================
