-------------------------- MODULE ClosePathsTrace --------------------------
(* trace = [inners |-> N, events |-> << [ev, i, kind] >>]   (inner transports are numbered 1..N)
   "start" | "step" | "cancel" | "inner_close" i | "end" kind ("returned" | "failed" | "cancelled") | "second" kind ("prompt")
   A hang (virtual deadlock / watchdog) or a second close that does not return promptly is an event without action.       *)
EXTENDS ClosePaths, Sequences, Json, IOUtils
Traces == JsonDeserialize(IOEnv.TRACE_FILE)
VARIABLES tid, l, ninner
T == Traces[tid]
Ev == T.events[l]
TInit == /\ tid \in 1..Len(Traces) /\ l = 1 /\ ninner = Traces[tid].inners
         /\ st = "idle" /\ steps = 0 /\ cancels = 0 /\ closed = {} /\ outcome = "none" /\ second = "none"
IsEvent(e) == l <= Len(T.events) /\ Ev.ev = e /\ l' = l + 1 /\ UNCHANGED <<tid, ninner>>
TStart == IsEvent("start") /\ Start
TStep == IsEvent("step") /\ st = "closing" /\ steps' = steps + 1 /\ UNCHANGED <<st, cancels, closed, outcome, second>>
TCancel == IsEvent("cancel") /\ st = "closing" /\ cancels' = cancels + 1 /\ UNCHANGED <<st, steps, closed, outcome, second>>
TInner == IsEvent("inner_close") /\ st = "closing" /\ closed' = closed \cup {Ev.i} /\ UNCHANGED <<st, steps, cancels, outcome, second>>
TEnd == /\ IsEvent("end") /\ st = "closing" /\ closed = 1..ninner /\ (Ev.kind = "cancelled" => cancels > 0)
        /\ st' = "done" /\ outcome' = Ev.kind /\ UNCHANGED <<steps, cancels, closed, second>>
TSecond == IsEvent("second") /\ Ev.kind = "prompt" /\ Second
TNext == ((st = "done" => closed = 1..ninner) = TRUE) /\ (TStart \/ TStep \/ TCancel \/ TInner \/ TEnd \/ TSecond)
ASSUME \A x \in 1..Len(Traces) : TLCSet(x, 0)
Constr == TLCSet(tid, IF TLCGet(tid) > l THEN TLCGet(tid) ELSE l)
Post == LET bad == {x \in 1..Len(Traces) : TLCGet(x) <= Len(Traces[x].events)} IN
        IF bad = {} THEN TRUE ELSE PrintT(<<"REJECTED", [x \in bad |-> TLCGet(x)]>>) /\ FALSE
=============================================================================
