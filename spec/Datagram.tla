------------------------------ MODULE Datagram ------------------------------
(* C05: datagram endpoints.  `net` is the sequence of datagrams in flight towards the receiver, each [id, kind]
   (kind = "ok": the payload of packet `id` as produced by one send_packet; "bad": a malformed payload).
   Send appends exactly ONE element; Recv removes the head and its outcome depends on that element only.
   There is deliberately no buffer variable: that absence is the property (never merged, split or carried over).   *)
EXTENDS Naturals, Sequences, FiniteSets, TLC
CONSTANTS MaxSend, MaxBad, MaxErr
VARIABLES net, nsent, nbad, out, errs, nerr
vars == <<net, nsent, nbad, out, errs, nerr>>
Init == net = <<>> /\ nsent = 0 /\ nbad = 0 /\ out = <<>> /\ errs = 0 /\ nerr = 0
Send == /\ nsent < MaxSend /\ nsent' = nsent + 1 /\ net' = Append(net, [id |-> nsent + 1, kind |-> "ok"])
        /\ UNCHANGED <<nbad, out, errs, nerr>>
Inject == /\ nbad < MaxBad /\ nbad' = nbad + 1 /\ net' = Append(net, [id |-> 0, kind |-> "bad"]) /\ UNCHANGED <<nsent, out, errs, nerr>>
Recv == /\ net # <<>> /\ net' = Tail(net)
        /\ out' = Append(out, IF Head(net).kind = "ok" THEN [k |-> "pkt", id |-> Head(net).id] ELSE [k |-> "err", id |-> 0])
        /\ UNCHANGED <<nsent, nbad, errs, nerr>>
\* an asynchronous socket error (ICMP port unreachable, ...) is reported to the endpoint: it is not a datagram.  A later receive
\* raises it; it takes the place of no datagram.
SockError == /\ nerr < MaxErr /\ nerr' = nerr + 1 /\ errs' = errs + 1 /\ UNCHANGED <<net, nsent, nbad, out>>
RecvOsError == /\ errs > 0 /\ errs' = errs - 1 /\ out' = Append(out, [k |-> "oserr", id |-> 0]) /\ UNCHANGED <<net, nsent, nbad, nerr>>
Next == Send \/ Inject \/ Recv \/ SockError \/ RecvOsError
Spec == Init /\ [][Next]_vars
\* every received datagram yields exactly one outcome; packets come out in sending order, none twice
OneOutcomePerDatagram == Cardinality({i \in 1..Len(out) : out[i].k \in {"pkt", "err"}}) + Len(net) = nsent + nbad
PacketsInOrder == \A i, j \in 1..Len(out) : (i < j /\ out[i].k = "pkt" /\ out[j].k = "pkt") => out[i].id < out[j].id
=============================================================================
