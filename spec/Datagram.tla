------------------------------ MODULE Datagram ------------------------------
(* C05: datagram endpoints.  `net` is the sequence of datagrams in flight towards the receiver, each [id, kind]
   (kind = "ok": the payload of packet `id` as produced by one send_packet; "bad": a malformed payload).
   Send appends exactly ONE element; Recv removes the head and its outcome depends on that element only.
   There is deliberately no buffer variable: that absence is the property (never merged, split or carried over).   *)
EXTENDS Naturals, Sequences, TLC
CONSTANTS MaxSend, MaxBad
VARIABLES net, nsent, nbad, out
vars == <<net, nsent, nbad, out>>
Init == net = <<>> /\ nsent = 0 /\ nbad = 0 /\ out = <<>>
Send == /\ nsent < MaxSend /\ nsent' = nsent + 1 /\ net' = Append(net, [id |-> nsent + 1, kind |-> "ok"])
        /\ UNCHANGED <<nbad, out>>
Inject == /\ nbad < MaxBad /\ nbad' = nbad + 1 /\ net' = Append(net, [id |-> 0, kind |-> "bad"]) /\ UNCHANGED <<nsent, out>>
Recv == /\ net # <<>> /\ net' = Tail(net)
        /\ out' = Append(out, IF Head(net).kind = "ok" THEN [k |-> "pkt", id |-> Head(net).id] ELSE [k |-> "err", id |-> 0])
        /\ UNCHANGED <<nsent, nbad>>
Next == Send \/ Inject \/ Recv
Spec == Init /\ [][Next]_vars
\* every received datagram yields exactly one outcome; packets come out in sending order, none twice
OneOutcomePerDatagram == Len(out) + Len(net) = nsent + nbad
PacketsInOrder == \A i, j \in 1..Len(out) : (i < j /\ out[i].k = "pkt" /\ out[j].k = "pkt") => out[i].id < out[j].id
=============================================================================
