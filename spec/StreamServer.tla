---------------------------- MODULE StreamServer ----------------------------
(* C15: what the request handler of ONE stream connection observes.
   The request stream is a sequence of frames [end offset, kind] (kind "ok" or "bad" = complete frame the protocol cannot
   parse); bytes arrive in arbitrary portions (Feed); the handler is a succession of generators (on_connection when it is a
   generator, then handle() restarted every time it returns); while a generator is suspended at a yield the server delivers
   to it, in stream order and exactly once, the next frame as a request (ok) or as a parse error thrown at that position
   (bad), or - if the yield carried a timeout and no complete frame became available within it - TimeoutError.
   On peer disconnect / handler-initiated close the active generator is closed exactly once, then the disconnection
   hook runs, and the connection is closed.
   par = [ends, kinds, tau, zero]   (tau: the timeout yielded by the handler in half ticks, 0 = none; zero: the handler polls with a zero timeout)                       *)
EXTENDS Naturals, Sequences, FiniteSets, TLC
CONSTANTS Params, MaxGens, MaxTimeouts
VARIABLES par, fed, eof, nextf, active, ngen, closedGens, disconnected, connClosed, obs
\* nextf: index of the next frame to hand to the handler; obs: what the handler generators saw, across restarts
vars == <<par, fed, eof, nextf, active, ngen, closedGens, disconnected, connClosed, obs>>
N == Len(par.ends)
Total == IF N = 0 THEN 0 ELSE par.ends[N]
Complete(n) == Cardinality({i \in 1..N : par.ends[i] <= n})
Init == /\ par \in Params /\ fed = 0 /\ eof = FALSE /\ nextf = 1 /\ active = FALSE /\ ngen = 0 /\ closedGens = 0
        /\ disconnected = FALSE /\ connClosed = FALSE /\ obs = <<>>
Feed(n) == /\ ~eof /\ n >= 1 /\ fed + n <= Total /\ fed' = fed + n
           /\ UNCHANGED <<par, eof, nextf, active, ngen, closedGens, disconnected, connClosed, obs>>
PeerClose == /\ ~eof /\ eof' = TRUE /\ UNCHANGED <<par, fed, nextf, active, ngen, closedGens, disconnected, connClosed, obs>>
GenStart == /\ ~active /\ ~disconnected /\ ~connClosed /\ ngen < MaxGens /\ active' = TRUE /\ ngen' = ngen + 1
            /\ UNCHANGED <<par, fed, eof, nextf, closedGens, disconnected, connClosed, obs>>
\* the next frame is complete: it reaches the suspended generator as a request or as a parse error, at its position
Deliver == /\ active /\ nextf <= N /\ par.ends[nextf] <= fed
           /\ obs' = Append(obs, [k |-> (IF par.kinds[nextf] = "ok" THEN "req" ELSE "err"), idx |-> nextf])
           /\ nextf' = nextf + 1
           /\ UNCHANGED <<par, fed, eof, active, ngen, closedGens, disconnected, connClosed>>
\* the yielded timeout expires: only when no complete frame is waiting
NTimeouts == Len(SelectSeq(obs, LAMBDA o : o.k = "timeout"))
Timeout == /\ active /\ (par.tau > 0 \/ par.zero) /\ Complete(fed) < nextf /\ NTimeouts < MaxTimeouts
           /\ obs' = Append(obs, [k |-> "timeout", idx |-> 0])
           /\ UNCHANGED <<par, fed, eof, nextf, active, ngen, closedGens, disconnected, connClosed>>
GenClose == /\ active /\ active' = FALSE /\ closedGens' = closedGens + 1
            /\ UNCHANGED <<par, fed, eof, nextf, ngen, disconnected, connClosed, obs>>
Disconnect == /\ ~active /\ ~disconnected /\ disconnected' = TRUE
              /\ UNCHANGED <<par, fed, eof, nextf, active, ngen, closedGens, connClosed, obs>>
ConnClose == /\ ~active /\ ~connClosed /\ connClosed' = TRUE
             /\ UNCHANGED <<par, fed, eof, nextf, active, ngen, closedGens, disconnected, obs>>
Next == (\E n \in 1..3 : Feed(n)) \/ PeerClose \/ GenStart \/ Deliver \/ Timeout \/ GenClose \/ Disconnect \/ ConnClose
Spec == Init /\ [][Next]_vars
\* each request exactly once, in order, a parse error exactly at the position of the malformed frame
Delivered == SelectSeq(obs, LAMBDA o : o.k # "timeout")
InOrderOnce == \A i \in 1..Len(Delivered) : Delivered[i].idx = i /\ Delivered[i].k = (IF par.kinds[i] = "ok" THEN "req" ELSE "err")
NeverAhead == nextf - 1 <= Complete(fed)
\* every started generator is closed at most once, never two at a time (by construction: `active` is a boolean)
GensClosedOnce == closedGens <= ngen /\ (active => closedGens = ngen - 1) /\ (~active => closedGens = ngen)
=============================================================================
