------------------------------- MODULE Budget -------------------------------
(* C11 for the whole blocking client call (lock wait + every selector wait + retries + partial reads):
   a call with timeout T waits at most T in total, a zero timeout never waits, and TimeoutError means the budget is
   used up.  For iter_received_packets the budget covers the whole iteration (packets returned in between do not refill it).
   Integer time on the harness' fake clock; "wait" events are every lock acquisition wait and every selector wait.     *)
EXTENDS Integers, Sequences, TLC

CONSTANTS Ts        \* timeouts explored (-1 = None)
VARIABLES t, waited, st     \* st: "idle" | "running" | "done"
vars == <<t, waited, st>>
INF == 0 - 1
Init == t \in Ts /\ waited = 0 /\ st = "running"
\* one wait of e time units: it is never longer than what is left of the budget
Wait(e) == /\ st = "running" /\ e >= 0 /\ (t # INF => waited + e <= t) /\ waited' = waited + e /\ UNCHANGED <<t, st>>
\* a packet is delivered (iterator: the call goes on) / the call returns
Deliver == st = "running" /\ UNCHANGED vars
Return(kind) == /\ st = "running" /\ st' = "done"
                /\ (kind = "timeout" => t # INF /\ waited = t)
                /\ UNCHANGED <<t, waited>>
Next == (\E e \in 0..3 : Wait(e)) \/ Deliver \/ (\E k \in {"ok", "timeout", "eof"} : Return(k)) \/ (st = "done" /\ UNCHANGED vars)
Spec == Init /\ [][Next]_vars
WithinBudget == t # INF => waited <= t
ZeroNeverWaits == t = 0 => waited = 0
=============================================================================
