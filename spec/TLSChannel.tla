----------------------------- MODULE TLSChannel -----------------------------
(* AsyncTLSStreamTransport as a transparent duplex byte stream (C08), two layers:

   1. the stream law per direction (what an application can observe): bytes read are a prefix of the bytes written, in
      order; at the end everything written was read; ciphertext on the wire is well-formed records without plaintext.
   2. the lock discipline of _retry_ssl_method with one reader task and one writer task per side over a pipe that holds at
      most Cap records per direction (records are opaque units; "ssl_object.write never blocks into the memory BIO, a
      read needs a complete record"):
        writer:  ssl write -> ciphertext in write_bio -> take the send lock -> transport.send_all (blocks while the
                 peer's window is full) -> release
        reader:  ssl read -> WantRead -> "flush pending writes first": take the send lock (unconditionally), send what is
                 pending, release -> take the receive lock -> transport.recv -> feed read_bio -> retry
      Fixed = FALSE is the code as it is; Fixed = TRUE is the variant in which the task that produced ciphertext takes it out
      of the BIO before queuing for the lock and a reader with nothing to flush goes straight to recv.                       *)
EXTENDS Naturals, FiniteSets, TLC
CONSTANTS N,      \* records each side wants to send
          Cap,    \* pipe capacity (records in flight) per direction
          Fixed
Sides == {"a", "b"}
Peer(s) == IF s = "a" THEN "b" ELSE "a"
VARIABLES wpc, rpc, sendLock, wb, out, pipe, rb, got
\* wb: ciphertext records waiting in write_bio; out: records the lock holder still has to push; pipe[s]: in flight towards s
vars == <<wpc, rpc, sendLock, wb, out, pipe, rb, got>>
Init == /\ wpc = [s \in Sides |-> "write"] /\ rpc = [s \in Sides |-> "read"]
        /\ sendLock = [s \in Sides |-> "free"] /\ wb = [s \in Sides |-> 0] /\ out = [s \in Sides |-> 0]
        /\ pipe = [s \in Sides |-> 0] /\ rb = [s \in Sides |-> 0] /\ got = [s \in Sides |-> 0]

WWrite(s) == /\ wpc[s] = "write" /\ wb' = [wb EXCEPT ![s] = IF Fixed THEN @ ELSE @ + N] /\ wpc' = [wpc EXCEPT ![s] = "lock"]
             /\ UNCHANGED <<rpc, sendLock, out, pipe, rb, got>>
WLock(s) == /\ wpc[s] = "lock" /\ sendLock[s] = "free"
            /\ sendLock' = [sendLock EXCEPT ![s] = "w"] /\ out' = [out EXCEPT ![s] = IF Fixed THEN N ELSE wb[s]] /\ wb' = [wb EXCEPT ![s] = 0]
            /\ wpc' = [wpc EXCEPT ![s] = "push"] /\ UNCHANGED <<rpc, pipe, rb, got>>
\* transport.send_all makes progress only while the peer's window has room
Push(s, who) == /\ sendLock[s] = who /\ out[s] > 0 /\ pipe[Peer(s)] < Cap
                /\ out' = [out EXCEPT ![s] = @ - 1] /\ pipe' = [pipe EXCEPT ![Peer(s)] = @ + 1]
                /\ UNCHANGED <<wpc, rpc, sendLock, wb, rb, got>>
WUnlock(s) == /\ wpc[s] = "push" /\ sendLock[s] = "w" /\ out[s] = 0
              /\ sendLock' = [sendLock EXCEPT ![s] = "free"] /\ wpc' = [wpc EXCEPT ![s] = "done"]
              /\ UNCHANGED <<rpc, wb, out, pipe, rb, got>>
RRead(s) == /\ rpc[s] = "read"
            /\ IF rb[s] > 0 THEN /\ rb' = [rb EXCEPT ![s] = @ - 1] /\ got' = [got EXCEPT ![s] = @ + 1]
                                 /\ rpc' = [rpc EXCEPT ![s] = IF got[s] + 1 = N THEN "done" ELSE "read"]
               ELSE /\ rpc' = [rpc EXCEPT ![s] = IF Fixed /\ wb[s] = 0 THEN "recv" ELSE "flush"] /\ UNCHANGED <<rb, got>>
            /\ UNCHANGED <<wpc, sendLock, wb, out, pipe>>
RFlushLock(s) == /\ rpc[s] = "flush" /\ sendLock[s] = "free"
                 /\ sendLock' = [sendLock EXCEPT ![s] = "r"] /\ out' = [out EXCEPT ![s] = wb[s]] /\ wb' = [wb EXCEPT ![s] = 0]
                 /\ rpc' = [rpc EXCEPT ![s] = "flushing"] /\ UNCHANGED <<wpc, pipe, rb, got>>
RFlushDone(s) == /\ rpc[s] = "flushing" /\ out[s] = 0
                 /\ sendLock' = [sendLock EXCEPT ![s] = "free"] /\ rpc' = [rpc EXCEPT ![s] = "recv"]
                 /\ UNCHANGED <<wpc, wb, out, pipe, rb, got>>
RRecv(s) == /\ rpc[s] = "recv" /\ pipe[s] > 0
            /\ rb' = [rb EXCEPT ![s] = @ + pipe[s]] /\ pipe' = [pipe EXCEPT ![s] = 0]
            /\ rpc' = [rpc EXCEPT ![s] = "read"] /\ UNCHANGED <<wpc, sendLock, wb, out, got>>
AllDone == \A s \in Sides : wpc[s] = "done" /\ rpc[s] = "done"
Next == \/ \E s \in Sides : WWrite(s) \/ WLock(s) \/ Push(s, "w") \/ Push(s, "r") \/ WUnlock(s)
                           \/ RRead(s) \/ RFlushLock(s) \/ RFlushDone(s) \/ RRecv(s)
        \/ (AllDone /\ UNCHANGED vars)
Spec == Init /\ [][Next]_vars /\ WF_vars(Next)
\* nothing is delivered twice or invented, everything arrives: the duplex transfer completes (no deadlock: TLC's deadlock check)
NoOverDelivery == \A s \in Sides : got[s] <= N
Conservation == \A s \in Sides : got[s] + rb[s] + pipe[s] + out[Peer(s)] + wb[Peer(s)] <= N
Completes == <>AllDone
=============================================================================
