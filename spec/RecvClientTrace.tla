-------------------------- MODULE RecvClientTrace --------------------------
(* trace = [par |-> [ends, closeat], events |-> << [ev, op, t, idx, eq] >>]
   "write" idx=n | "close" | "call" op t | "packet" idx eq | "eof" | "timeout" | "stop"
   anything else ("hang", "error:<type>", ...) has no action.  Positive timeouts are logged as 1.                          *)
EXTENDS RecvClient, Json, IOUtils, TLC

Traces == JsonDeserialize(IOEnv.TRACE_FILE)
TraceTimeouts == (0 - 1)..1
VARIABLES tid, l
tvars == <<vars, tid, l>>
T == Traces[tid]
Ev == T.events[l]
TInit == /\ tid \in 1..Len(Traces) /\ l = 1 /\ par = Traces[tid].par
         /\ wire = 0 /\ closed = FALSE /\ delivered = 0 /\ eofrep = FALSE /\ calling = FALSE
         /\ op = "none" /\ tmo = 0 /\ ncalls = 0
IsEvent(e) == l <= Len(T.events) /\ Ev.ev = e /\ l' = l + 1 /\ UNCHANGED tid
TWrite == IsEvent("write") /\ PeerWrite(Ev.idx)
TClose == IsEvent("close") /\ PeerClose
TCall == IsEvent("call") /\ Call(Ev.op, Ev.t)
TPacket == IsEvent("packet") /\ Ev.idx = delivered + 1 /\ Ev.eq = TRUE /\ Packet
TEof == IsEvent("eof") /\ RetEof
TTimeout == IsEvent("timeout") /\ RetTimeout
TStop == IsEvent("stop") /\ IterStop
TEnd == IsEvent("end") /\ ~calling /\ UNCHANGED vars
Inv == NeverAhead /\ EofAfterAll /\ NoPartial
TNext == (Inv = TRUE) /\ (TWrite \/ TClose \/ TCall \/ TPacket \/ TEof \/ TTimeout \/ TStop \/ TEnd)

ASSUME \A t \in 1..Len(Traces) : TLCSet(t, 0)
Constr == TLCSet(tid, IF TLCGet(tid) > l THEN TLCGet(tid) ELSE l)
Post == LET bad == {t \in 1..Len(Traces) : TLCGet(t) <= Len(Traces[t].events)} IN
        IF bad = {} THEN TRUE ELSE PrintT(<<"REJECTED", [t \in bad |-> TLCGet(t)]>>) /\ FALSE
=============================================================================
