--------------------------- MODULE DatagramTrace ---------------------------
(* trace events: [ev, id, n, ok, kind]
   "send" id n ok : send_packet(packet id) handed n datagrams to the transport; ok = (n = 1, payload = make_datagram(p),
                    deserialize(payload) = p)           "inject": the harness puts a malformed datagram on the wire
   "recv" kind id ok : recv_packet outcome: "pkt" (ok = equals packet id) | "err" (protocol parse error) | "oserr" (a socket
                       error reported earlier: "sockerr")                                                               *)
EXTENDS Datagram, Json, IOUtils
Traces == JsonDeserialize(IOEnv.TRACE_FILE)
VARIABLES tid, l
T == Traces[tid]
Ev == T.events[l]
TInit == tid \in 1..Len(Traces) /\ l = 1 /\ net = <<>> /\ nsent = 0 /\ nbad = 0 /\ out = <<>> /\ errs = 0 /\ nerr = 0
IsEvent(e) == l <= Len(T.events) /\ Ev.ev = e /\ l' = l + 1 /\ UNCHANGED tid
TSend == IsEvent("send") /\ Send /\ Ev.n = 1 /\ Ev.ok = TRUE /\ Ev.id = nsent'
TInject == IsEvent("inject") /\ Inject
TSockErr == IsEvent("sockerr") /\ SockError
TRecvOs == IsEvent("recv") /\ Ev.kind = "oserr" /\ RecvOsError
TRecv == /\ IsEvent("recv") /\ Ev.kind # "oserr" /\ Recv
         /\ LET o == out'[Len(out')] IN o.k = Ev.kind /\ (o.k = "pkt" => (Ev.id = o.id /\ Ev.ok = TRUE))
TNext == ((OneOutcomePerDatagram /\ PacketsInOrder) = TRUE) /\ (TSend \/ TInject \/ TRecv \/ TSockErr \/ TRecvOs)
ASSUME \A x \in 1..Len(Traces) : TLCSet(x, 0)
Constr == TLCSet(tid, IF TLCGet(tid) > l THEN TLCGet(tid) ELSE l)
Post == LET bad == {x \in 1..Len(Traces) : TLCGet(x) <= Len(Traces[x].events)} IN
        IF bad = {} THEN TRUE ELSE PrintT(<<"REJECTED", [x \in bad |-> TLCGet(x)]>>) /\ FALSE
=============================================================================
