------------------------- MODULE RecvEndpointTrace -------------------------
(* trace = [par |-> [ends, bufsize, closeat], events |-> << [ev, t, n, k, e, bs, kind] >>]
   "write" n / "close"      : the scripted peer
   "call" t                 : recv_packet(timeout = t)   (-1 = None)
   "trecv" kind k e bs t    : one transport.recv / recv_into call: buffer size bs, timeout argument t, outcome kind in
                              {"data", "eof", "timeout"}, k bytes, e time units elapsed on the fake clock
   "ret" kind               : how recv_packet ended: "packet" | "eof" (ConnectionAbortedError) | "timeout" (TimeoutError)   *)
EXTENDS RecvEndpoint, Json, IOUtils

Traces == JsonDeserialize(IOEnv.TRACE_FILE)
TraceTimeouts == (0 - 1)..100
VARIABLES tid, l, pend      \* pend: the call's result has been produced by the model but "ret" was not consumed yet
tvars == <<vars, tid, l, pend>>
T == Traces[tid]
Ev == T.events[l]
TInit == /\ tid \in 1..Len(Traces) /\ l = 1 /\ pend = FALSE /\ par = Traces[tid].par
         /\ wire = 0 /\ closed = FALSE /\ read = 0 /\ delivered = 0 /\ eof = FALSE
         /\ calling = FALSE /\ budget = 0 /\ waited = 0 /\ result = "none" /\ ncalls = 0 /\ trecvs = 0 /\ tmo = 0
IsEvent(e) == l <= Len(T.events) /\ Ev.ev = e /\ l' = l + 1 /\ UNCHANGED tid
TWrite == IsEvent("write") /\ PeerWrite(Ev.n) /\ UNCHANGED pend
TClose == IsEvent("close") /\ PeerClose /\ UNCHANGED pend
TCall == IsEvent("call") /\ ~pend /\ Call(Ev.t) /\ pend' = TRUE
\* the timeout handed to the transport is the remaining budget of the call (C11)
TRecv == /\ IsEvent("trecv") /\ pend /\ Ev.t = budget /\ UNCHANGED pend
         /\ \/ Ev.kind = "data" /\ RecvData(Ev.k, Ev.e, Ev.bs)
            \/ Ev.kind = "eof" /\ RecvEof(Ev.e)
            \/ Ev.kind = "timeout" /\ RecvTimeout
TRet == /\ IsEvent("ret") /\ pend /\ pend' = FALSE
        /\ \/ ~calling /\ result = Ev.kind /\ UNCHANGED vars
           \/ calling /\ eof /\ EofSticky /\ Ev.kind = "eof"
Inv == NeverAhead /\ EofAfterAll /\ WithinBudget /\ TimeoutIsReal
TNext == (Inv = TRUE) /\ (TWrite \/ TClose \/ TCall \/ TRecv \/ TRet)

ASSUME \A t \in 1..Len(Traces) : TLCSet(t, 0)
Constr == TLCSet(tid, IF TLCGet(tid) > l THEN TLCGet(tid) ELSE l)
Post == LET bad == {t \in 1..Len(Traces) : TLCGet(t) <= Len(Traces[t].events)} IN
        IF bad = {} THEN TRUE ELSE PrintT(<<"REJECTED", [t \in bad |-> TLCGet(t)]>>) /\ FALSE
=============================================================================
