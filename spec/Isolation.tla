------------------------------ MODULE Isolation ------------------------------
(* C17: containment of one client's failure.  Clients 1..NC talk to one server; exactly one of them (Faulty) suffers a fault:
   an exception raised by a request handler hook at some position, or a connection that is reset / fails its TLS handshake
   right after being accepted.  The others are healthy: every request they send is answered, in order, before, during
   and after the fault.  The server stays up.  For a stream server the faulty connection ends closed and its
   disconnection hook runs iff its connection hook had completed; for a datagram server a later datagram of the faulty
   address starts a fresh handler and is answered.                                                                       *)
EXTENDS Naturals, FiniteSets, TLC
CONSTANTS NC, Faulty, MaxReq, Stream     \* Stream = TRUE: TCP-like (connections); FALSE: UDP-like (addresses)
Clients == 1..NC
VARIABLES up, conn, onconn, sent, answered, faulted, disc
\* conn[c]: "none" | "open" | "closed"; onconn[c]: the connection hook completed; disc[c]: the disconnection hook ran
vars == <<up, conn, onconn, sent, answered, faulted, disc>>
Init == /\ up = TRUE /\ conn = [c \in Clients |-> "none"] /\ onconn = [c \in Clients |-> FALSE]
        /\ sent = [c \in Clients |-> 0] /\ answered = [c \in Clients |-> 0] /\ faulted = FALSE /\ disc = [c \in Clients |-> FALSE]
Connect(c) == conn[c] = "none" /\ conn' = [conn EXCEPT ![c] = "open"] /\ UNCHANGED <<up, onconn, sent, answered, faulted, disc>>
OnConnDone(c) == conn[c] = "open" /\ ~onconn[c] /\ onconn' = [onconn EXCEPT ![c] = TRUE] /\ UNCHANGED <<up, conn, sent, answered, faulted, disc>>
Request(c) == /\ conn[c] = "open" /\ sent[c] < MaxReq /\ sent' = [sent EXCEPT ![c] = @ + 1]
              /\ UNCHANGED <<up, conn, onconn, answered, faulted, disc>>
\* requests are answered in order; a healthy client is always answered, the faulty one only while no fault has hit it
\* (datagram server: again afterwards, by a fresh handler)
Response(c) == /\ answered[c] < sent[c] /\ conn[c] = "open" /\ answered' = [answered EXCEPT ![c] = @ + 1]
               /\ UNCHANGED <<up, conn, onconn, sent, faulted, disc>>
Fault == /\ ~faulted /\ conn[Faulty] = "open" /\ faulted' = TRUE
         /\ (IF Stream THEN UNCHANGED answered ELSE answered' = [answered EXCEPT ![Faulty] = sent[Faulty]])   \* the datagram being handled is consumed
         /\ UNCHANGED <<up, conn, onconn, sent, disc>>
Disconnect(c) == /\ Stream /\ conn[c] = "open" /\ onconn[c] /\ ~disc[c] /\ disc' = [disc EXCEPT ![c] = TRUE]
                 /\ UNCHANGED <<up, conn, onconn, sent, answered, faulted>>
Close(c) == /\ Stream /\ conn[c] = "open" /\ (onconn[c] => disc[c]) /\ conn' = [conn EXCEPT ![c] = "closed"]
            /\ UNCHANGED <<up, onconn, sent, answered, faulted, disc>>
Next == \E c \in Clients : Connect(c) \/ OnConnDone(c) \/ Request(c) \/ Response(c) \/ Disconnect(c) \/ Close(c)
Spec == Init /\ [][Next \/ Fault]_vars
ServerStaysUp == up
Ordered == \A c \in Clients : answered[c] <= sent[c]
HookOrder == \A c \in Clients : (disc[c] => onconn[c]) /\ (conn[c] = "closed" /\ onconn[c] => disc[c])
=============================================================================
