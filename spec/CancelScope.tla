---------------------------- MODULE CancelScope ----------------------------
(* Reference semantics of cancel scopes (C13), written as an interpreter over programs-as-data.  It is exactly as
   strong as the property and nondeterministic where the property is.

   program = sequence of [op, id, kind, d]:
     "enter" id kind d   enter scope id; kind in {"move_on", "timeout", "open"}; deadline = now + d (d = INF: none)
     "exit"  id kind     end of the body of scope id; kind = "raises": the body ends by raising an ordinary exception (ValueError) that is caught
                         just outside the scope - it leaves the scope as it is, the scope catches nothing
     "sleep" d           blocking operation of d ticks (d = 0: a bare checkpoint)
     "cancel" id         scope id .cancel()            "resched" id d   scope id .reschedule(now + d)
     "shin" / "shout"    begin / end of a coroutine run under ignore_cancellation        "mark" id   observable progress
     "startc" id k       a task group whose child is started with TaskGroup.start() (the child marks k and returns at once) while, from a
                         callback, scope id .cancel() is called within the next few loop iterations; a few bare checkpoints follow.
                         Whatever the exact iteration, the child's mark is seen and the body is abandoned before the next statement
                         (unless shielded)
     "startq" id d       (d = the scope whose cancel() is on its way)  TaskGroup.start() of a child that marks id and returns at once, with nothing else going on: a checkpoint for a
                         cancellation that is already pending (then the child may be cancelled before it marks), otherwise it completes
     "cancelq" id        scope id .cancel() called from a callback (no event of its own)
     "join" id d         a task group with one child task (sleep d ticks, d >= 1, then mark id): the parent waits at the end of the group;
                         for the parent this is a blocking operation of d ticks; if it is abandoned the child is cancelled with it
   ext = tick of the one external task.cancel() (INF: none).  Times are integer ticks.

   Rules: at a checkpoint the body is abandoned iff a scope visible from here (up to the nearest shield) is cancelled or an
   external cancellation is pending and not shielded; a sleep completes iff nothing visible fires before its end (exact
   ties either way); an abandoned body unwinds to the exit of scopes: a cancelled scope may catch (cancelled_caught) or let
   the cancellation travel on only to an enclosing scope that is itself cancelled (or if an external cancellation is
   pending); a scope that is not cancelled never catches; timeout() raises TimeoutError iff its scope caught; under
   ignore_cancellation everything runs to completion and a cancellation that arrived meanwhile is delivered at the next
   checkpoint after it; when the task ends without an external cancellation its cancelling() count is 0.               *)
EXTENDS Naturals, Sequences, FiniteSets, TLC

CONSTANTS Programs        \* set of [prog, ext] explored (kept in `par`)
INF == 1000000

VARIABLES par, pc, now, stack, mode, last
\* stack: frames [t ("scope"|"shield"), id, deadline, cc, kind, pcexit]; mode: "run" | "unwind" | "done"
\* last: the last observable event [ev, id, caught, cc, exc, t]
vars == <<par, pc, now, stack, mode, last>>

P == par.prog
Ext == par.ext
NoEv == [ev |-> "none", id |-> 0, caught |-> FALSE, cc |-> FALSE, exc |-> "", t |-> 0]
Event(e, i, ca, c, x) == [ev |-> e, id |-> i, caught |-> ca, cc |-> c, exc |-> x, t |-> now]

ExitOf(i) == CHOOSE j \in (i + 1)..Len(P) : P[j].op = "exit" /\ P[j].id = P[i].id
InShield == \E k \in 1..Len(stack) : stack[k].t = "shield"
RECURSIVE VisFrom(_)
VisFrom(k) == IF k = 0 \/ stack[k].t = "shield" THEN {} ELSE {k} \cup VisFrom(k - 1)
Visible == VisFrom(Len(stack))
ExtPending == Ext <= now /\ ~InShield
\* timers fire whether or not the task is shielded: cancel_called becomes (and stays) true once a deadline has passed
Fire(st, t) == [k \in 1..Len(st) |-> IF st[k].t = "scope" /\ st[k].deadline <= t THEN [st[k] EXCEPT !.cc = TRUE] ELSE st[k]]

Init == /\ par \in Programs /\ pc = 1 /\ now = 0 /\ stack = <<>> /\ mode = "run" /\ last = NoEv
Cur == P[pc]
Running == mode = "run" /\ pc <= Len(P)

Mark == /\ Running /\ Cur.op = "mark" /\ last' = Event("mark", Cur.id, FALSE, FALSE, "")
        /\ pc' = pc + 1 /\ UNCHANGED <<par, now, stack, mode>>
CancelOp == /\ Running /\ Cur.op = "cancel" /\ last' = Event("cancel", Cur.id, FALSE, FALSE, "")
            /\ stack' = [k \in 1..Len(stack) |-> IF stack[k].t = "scope" /\ stack[k].id = Cur.id THEN [stack[k] EXCEPT !.cc = TRUE] ELSE stack[k]]
            /\ pc' = pc + 1 /\ UNCHANGED <<par, now, mode>>
\* reschedule(now + d): moves the deadline of a scope that was not cancelled yet; a deadline that is not in the future cancels at once
Resched == /\ Running /\ Cur.op = "resched" /\ last' = Event("resched", Cur.id, FALSE, FALSE, "")
           /\ stack' = [k \in 1..Len(stack) |->
                          IF stack[k].t = "scope" /\ stack[k].id = Cur.id /\ ~stack[k].cc
                          THEN [stack[k] EXCEPT !.deadline = (IF Cur.d >= INF THEN INF ELSE now + Cur.d), !.cc = (Cur.d = 0)]
                          ELSE stack[k]]
           /\ pc' = pc + 1 /\ UNCHANGED <<par, now, mode>>
ShieldIn == /\ Running /\ Cur.op = "shin" /\ last' = Event("shield_in", 0, FALSE, FALSE, "")
            /\ stack' = Append(stack, [t |-> "shield", id |-> 0, deadline |-> INF, cc |-> FALSE, kind |-> "", pcexit |-> 0])
            /\ pc' = pc + 1 /\ UNCHANGED <<par, now, mode>>
ShieldOut == /\ Running /\ Cur.op = "shout" /\ last' = Event("shield_out", 0, FALSE, FALSE, "")
             /\ stack' = SubSeq(stack, 1, Len(stack) - 1)
             /\ pc' = pc + 1 /\ UNCHANGED <<par, now, mode>>
Enter == /\ Running /\ Cur.op = "enter" /\ last' = Event("enter", Cur.id, FALSE, FALSE, "")
         /\ stack' = Append(stack, [t |-> "scope", id |-> Cur.id, deadline |-> IF Cur.d >= INF THEN INF ELSE now + Cur.d,
                                    cc |-> (Cur.d = 0), kind |-> Cur.kind, pcexit |-> ExitOf(pc)])
         /\ pc' = pc + 1 /\ UNCHANGED <<par, now, mode>>
\* normal completion of a scope body: nothing is caught; cancel_called is what it is (either way on an exact deadline tie)
ExitNormal(c) == /\ Running /\ Cur.op = "exit"
                 /\ LET f == stack[Len(stack)] IN (f.deadline # now \/ f.cc) => c = f.cc
                 /\ last' = Event("exit", Cur.id, FALSE, c, IF Cur.kind = "raises" THEN "ValueError" ELSE "")
                 /\ stack' = SubSeq(stack, 1, Len(stack) - 1)
                 /\ pc' = pc + 1 /\ UNCHANGED <<par, now, mode>>
\* a blocking operation / checkpoint
Sleep == /\ Running /\ Cur.op = "sleep"
         /\ LET d == Cur.d IN
            IF InShield
            THEN now' = now + d /\ pc' = pc + 1 /\ mode' = mode /\ stack' = Fire(stack, now + d)
            ELSE IF (\E k \in Visible : stack[k].cc) \/ ExtPending
                 THEN mode' = "unwind" /\ UNCHANGED <<now, pc, stack>>
                 ELSE LET ds == {stack[k].deadline : k \in Visible} \cup {Ext}
                          tc == CHOOSE x \in ds : \A y \in ds : x <= y
                          te == now + d IN
                      \/ /\ tc <= te /\ now' = tc /\ mode' = "unwind" /\ pc' = pc /\ stack' = Fire(stack, tc)
                      \/ /\ tc >= te /\ now' = te /\ mode' = "run" /\ pc' = pc + 1 /\ stack' = Fire(stack, te)
         /\ last' = NoEv /\ UNCHANGED par
\* the end of a task group whose only child sleeps d ticks and then marks: a blocking operation for the parent.  It completes (and the
\* child's mark is seen) iff nothing visible fires before the child is done; if the parent is abandoned there the child is cancelled and
\* never marks; on an exact tie the child may have marked just before the parent is abandoned.
Join == /\ Running /\ Cur.op = "join"
        /\ LET d == Cur.d
               done == Event("mark", Cur.id, FALSE, FALSE, "") IN
           IF InShield
           THEN now' = now + d /\ pc' = pc + 1 /\ mode' = mode /\ stack' = Fire(stack, now + d) /\ last' = [done EXCEPT !.t = now + d]
           ELSE IF (\E k \in Visible : stack[k].cc) \/ ExtPending
                THEN mode' = "unwind" /\ last' = NoEv /\ UNCHANGED <<now, pc, stack>>
                ELSE LET ds == {stack[k].deadline : k \in Visible} \cup {Ext}
                         tc == CHOOSE x \in ds : \A y \in ds : x <= y
                         te == now + d IN
                     \/ /\ tc <= te /\ now' = tc /\ mode' = "unwind" /\ pc' = pc /\ stack' = Fire(stack, tc) /\ last' = NoEv
                     \/ /\ tc = te /\ now' = tc /\ mode' = "unwind" /\ pc' = pc /\ stack' = Fire(stack, tc) /\ last' = [done EXCEPT !.t = te]
                     \/ /\ tc >= te /\ now' = te /\ mode' = "run" /\ pc' = pc + 1 /\ stack' = Fire(stack, te) /\ last' = [done EXCEPT !.t = te]
        /\ UNCHANGED par
\* (when the cancellation is already on its way as start() is called, the child is cancelled before its body runs: no mark)
StartQ(seen, fired) ==
                /\ Running /\ Cur.op = "startq"
                /\ IF InShield \/ ~((\E k \in Visible : stack[k].cc) \/ ExtPending)
                   THEN mode' = "run" /\ pc' = pc + 1 /\ seen /\ ~fired /\ UNCHANGED stack
                   ELSE \* abandoned in start(): the callback that is on its way (scope Cur.kind's cancel()) may fire while the task unwinds
                        /\ mode' = "unwind" /\ pc' = pc
                        /\ stack' = [k \in 1..Len(stack) |-> IF fired /\ stack[k].t = "scope" /\ stack[k].id = Cur.d THEN [stack[k] EXCEPT !.cc = TRUE] ELSE stack[k]]
                /\ last' = (IF seen THEN Event("mark", Cur.id, FALSE, FALSE, "") ELSE NoEv)
                /\ UNCHANGED <<par, now>>
CancelQ == /\ Running /\ Cur.op = "cancelq" /\ last' = NoEv
           /\ stack' = [k \in 1..Len(stack) |-> IF stack[k].t = "scope" /\ stack[k].id = Cur.id THEN [stack[k] EXCEPT !.cc = TRUE] ELSE stack[k]]
           /\ pc' = pc + 1 /\ UNCHANGED <<par, now, mode>>
\* fired = the callback's cancel() happened before the body was abandoned (it always has when the construct completes normally)
StartC(seen, fired) ==
          /\ Running /\ Cur.op = "startc"
          /\ LET st2 == [k \in 1..Len(stack) |-> IF fired /\ stack[k].t = "scope" /\ stack[k].id = Cur.id THEN [stack[k] EXCEPT !.cc = TRUE] ELSE stack[k]]
                 before == (\E k \in Visible : stack[k].cc) \/ ExtPending
                 hit == \E k \in Visible : st2[k].cc IN
             /\ stack' = st2
             /\ IF InShield \/ ~(hit \/ ExtPending)
                THEN mode' = "run" /\ pc' = pc + 1 /\ seen /\ fired
                ELSE mode' = "unwind" /\ pc' = pc /\ (~fired => before)
          /\ last' = (IF seen THEN Event("mark", Cur.d, FALSE, FALSE, "") ELSE NoEv)
          /\ UNCHANGED <<par, now>>
\* a cancellation travelling outwards reaches the exit of the innermost frame
Unwind(caught, c) ==
  /\ mode = "unwind" /\ Len(stack) > 0
  /\ LET f == stack[Len(stack)]
         rest == SubSeq(stack, 1, Len(stack) - 1)
         outerVis == IF Len(rest) = 0 THEN {} ELSE {k \in 1..Len(rest) : \A j \in k..Len(rest) : rest[j].t = "scope"}
         outerCancelled == \E k \in outerVis : rest[k].cc
         extP == Ext <= now /\ ~(\E k \in 1..Len(rest) : rest[k].t = "shield")
         mustCatch == f.cc /\ ~outerCancelled /\ ~extP IN
     /\ f.t = "scope"                       \* a cancellation never escapes a shielded section
     /\ (f.deadline # now \/ f.cc) => c = f.cc
     /\ \/ /\ caught /\ c /\ f.cc
           /\ last' = Event("exit", f.id, TRUE, c, IF f.kind = "timeout" THEN "TimeoutError" ELSE "")
           /\ mode' = "run" /\ pc' = f.pcexit + 1
        \/ /\ ~caught /\ ~mustCatch
           /\ last' = Event("exit", f.id, FALSE, c, "CancelledError")
           /\ mode' = "unwind" /\ pc' = pc
     /\ stack' = rest
  /\ UNCHANGED <<par, now>>
\* end of the task: cancelling = the task's leftover cancellation requests
EndOk(cancelling) == /\ mode = "run" /\ pc = Len(P) + 1
                     /\ (Ext > now => cancelling = 0)
                     /\ last' = Event("end", cancelling, FALSE, FALSE, "")
                     /\ mode' = "done" /\ UNCHANGED <<par, pc, now, stack>>
EndCancelled == /\ mode = "unwind" /\ Len(stack) = 0 /\ Ext <= now
                /\ last' = Event("end", 0, FALSE, FALSE, "CancelledError")
                /\ mode' = "done" /\ UNCHANGED <<par, pc, now, stack>>

Next == Mark \/ CancelOp \/ Resched \/ ShieldIn \/ ShieldOut \/ Enter \/ (\E c \in BOOLEAN : ExitNormal(c)) \/ Sleep \/ Join \/ (\E seen, fired \in BOOLEAN : StartC(seen, fired)) \/ (\E seen, fired \in BOOLEAN : StartQ(seen, fired)) \/ CancelQ
        \/ (\E ca, c \in BOOLEAN : Unwind(ca, c)) \/ (\E n \in 0..1 : EndOk(n)) \/ EndCancelled
        \/ (mode = "done" /\ UNCHANGED vars)
Spec == Init /\ [][Next]_vars /\ WF_vars(Next)

-----------------------------------------------------------------------------
\* the semantics is total: every program runs to its end (TLC deadlock check + this)
Terminates == <>(mode = "done")
\* a scope that was not cancelled never catches
CaughtOnlyIfCancelled == (last.ev = "exit" /\ last.caught) => last.cc
\* unwinding only happens for a reason: something visible is cancelled or an external cancellation is pending
UnwindHasCause == mode = "unwind" => ((\E k \in 1..Len(stack) : stack[k].t = "scope" /\ stack[k].cc) \/ Ext <= now)
\* a cancellation never leaves a shielded section
NoUnwindThroughShield == mode = "unwind" => (Len(stack) = 0 \/ stack[Len(stack)].t = "scope")
=============================================================================
