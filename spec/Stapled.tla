------------------------------- MODULE Stapled -------------------------------
(***************************************************************************)
(* The stapled transports (lowlevel/api_async/transports/composite.py and  *)
(* lowlevel/api_sync/transports/composite.py): one transport made of a     *)
(* send half and a receive half.  Not tied to one of the listed properties *)
(* (the close path under cancellation alone is one of C14's paths); run by *)
(* `python -m vf.extra`.                                                   *)
(*                                                                         *)
(* The halves are contract-abiding transports owned by the harness; what   *)
(* is specified is what the composite does with them:                      *)
(*   - every send goes to the send half, every receive to the receive half *)
(*     (also when the send half is itself a full-duplex transport);        *)
(*   - send_eof ends the *write* direction only: the half's own send_eof   *)
(*     when it has one that works, its close otherwise; the receive half   *)
(*     is not touched and keeps delivering;                                *)
(*   - close is total: whatever the halves' own close does (returns,       *)
(*     raises, is interrupted by the caller's cancellation) both halves    *)
(*     are closed when close returns or raises, and the caller sees the    *)
(*     failure (an error raised while cleaning up wins over the            *)
(*     cancellation, as in any `finally`);                                 *)
(*   - the composite reports "closing" only when both halves are.          *)
(***************************************************************************)
EXTENDS Naturals

CONSTANTS
    Kind,          \* "stream" | "datagram"
    FullDuplex,    \* the send half has a send_eof of its own
    EofSupported,  \* ... which does not answer UnsupportedOperation
    SendFaults,    \* what the send half's close may do: subset of {Ok, Raise, Cancel}
    RecvFaults,    \* what the receive half's close may do: subset of {Ok, Raise}
    MaxData        \* chunks / datagrams in each direction

VARIABLES
    sh,         \* send half: "open" | "eof" (write direction ended by its own send_eof) | "closed"
    rh,         \* receive half: "open" | "closed"
    written,    \* chunks that reached the send half
    fed,        \* chunks the peer made available to the receive half
    delivered,  \* chunks handed to the caller
    last,       \* outcome of the last call on the composite
    closed      \* close() was called on the composite at least once

Ok == 0  Raise == 1  Cancel == 2     \* numbers: they travel in the action labels of the dumped state graph

vars == <<sh, rh, written, fed, delivered, last, closed>>

Outcomes == {"none", "ok", "data", "eof", "err", "closed", "cancelled"}

TypeOK ==
    /\ sh \in {"open", "eof", "closed"}
    /\ rh \in {"open", "closed"}
    /\ written \in 0..MaxData /\ fed \in 0..MaxData /\ delivered \in 0..MaxData
    /\ last \in Outcomes
    /\ closed \in BOOLEAN

Init ==
    /\ sh = "open" /\ rh = "open"
    /\ written = 0 /\ fed = 0 /\ delivered = 0
    /\ last = "none" /\ closed = FALSE

(* the peer makes one more chunk available *)
Feed ==
    /\ fed < MaxData
    /\ fed' = fed + 1
    /\ UNCHANGED <<sh, rh, written, delivered, last, closed>>

Send ==
    /\ written < MaxData
    /\ CASE sh = "open"   -> written' = written + 1 /\ last' = "ok"
         [] sh = "eof"    -> written' = written /\ last' = "err"
         [] sh = "closed" -> written' = written /\ last' = "closed"
    /\ UNCHANGED <<sh, rh, fed, delivered, closed>>

(* a stream whose peer has nothing more answers the end of the stream; a datagram receive would block: not called then *)
Recv ==
    /\ Kind = "datagram" /\ rh = "open" => delivered < fed
    /\ CASE rh = "closed"                   -> delivered' = delivered /\ last' = "closed"
         [] rh = "open" /\ delivered < fed  -> delivered' = delivered + 1 /\ last' = "data"
         [] rh = "open" /\ delivered >= fed -> delivered' = delivered /\ last' = "eof"
    /\ UNCHANGED <<sh, rh, written, fed, closed>>

SendEof ==
    /\ Kind = "stream"
    /\ IF FullDuplex /\ EofSupported
       THEN CASE sh = "open"   -> sh' = "eof" /\ last' = "ok"
              [] sh = "eof"    -> sh' = sh /\ last' = "ok"
              [] sh = "closed" -> sh' = sh /\ last' = "closed"
       ELSE sh' = "closed" /\ last' = "ok"      \* fall-back: the send half is closed (idempotent)
    /\ UNCHANGED <<rh, written, fed, delivered, closed>>

(* fs / fr: what the halves' own close does this time.  The send half goes first; a failure there (or the caller's     *)
(* cancellation while waiting for it) does not keep the receive half open.                                            *)
Close(fs, fr) ==
    /\ sh' = "closed" /\ rh' = "closed" /\ closed' = TRUE
    /\ last' = IF fr = Raise THEN "err"
               ELSE IF fs = Cancel THEN "cancelled"
               ELSE IF fs = Raise THEN "err"
               ELSE "ok"
    /\ UNCHANGED <<written, fed, delivered>>

Next ==
    \/ Feed \/ Send \/ Recv \/ SendEof
    \/ \E fs \in SendFaults, fr \in RecvFaults : Close(fs, fr)

Spec == Init /\ [][Next]_vars

-----------------------------------------------------------------------------
IsClosing == sh = "closed" /\ rh = "closed"      \* what is_closing() / is_closed() answers

CloseIsTotal == closed => IsClosing

NothingInvented == delivered <= fed

(* ending the write direction never costs the read direction anything *)
EofLeavesReceiveAlone == [][sh' # sh /\ ~closed' => UNCHANGED <<rh, fed, delivered>>]_vars

NoWriteOnceEnded == [][sh # "open" => written' = written]_vars

ClosedIsFinal == [][closed => closed' /\ sh' = "closed" /\ rh' = "closed"]_vars

(* after a close the composite answers "closed" to every data call *)
ClosedAnswers == [][closed /\ last' # last => last' \in {"closed", "ok", "err", "cancelled"}]_vars
=============================================================================
