----------------------------- MODULE RecvBuffer -----------------------------
(* The receive side of the asyncio stream protocol (StreamReaderBufferedProtocol) as a bounded buffer with read flow control, at the
   grain "one transport callback or one receive call, then everything that can run has run".  Sizes are in units (the harness uses
   256-byte units and a 4 KiB protocol buffer: Max = 16, High = 12, Low = 3).

     Data(n)        the transport got n units from the socket: it asks get_buffer(), writes, calls buffer_updated(n)
                    - into the caller's own buffer when a receive_data_into() is pending (never more than that buffer holds),
                    - into the protocol's buffer otherwise (never more than its free space); reading is paused at High
     Recv(into, w)  receive_data(w) / receive_data_into(buffer of w units): with something buffered (or the end of the stream seen) it
                    returns min(w, nb) units - the OLDEST ones - after one yield, and reading is resumed at Low; otherwise it waits
     Eof            eof_received()

   RecvCancel.tla is the same object under cancellation, with 2-5 byte streams; this module is about sizes: every ratio of backlog to
   window, the leftover moved to the front, pause / resume at the water marks.                                                      *)
EXTENDS Naturals, TLC
CONSTANTS Max, High, Low, MaxData
VARIABLES nb,        \* units in the protocol's buffer
          paused, eof,
          pend,      \* <<kind, w>> of the pending receive: kind "none" | "copy" | "into"
          last,      \* units returned by the receive call that ended last (0 .. Max), or Max + 1: none ended in this step
          total      \* units received from the socket so far
vars == <<nb, paused, eof, pend, last, total>>
None == Max + 1
Init == nb = 0 /\ paused = FALSE /\ eof = FALSE /\ pend = <<"none", 0>> /\ last = None /\ total = 0
Min(a, b) == IF a < b THEN a ELSE b
\* what a receive call that finds `have` units takes, and the flow-control consequence
Take(have, w, wasPaused) ==
  LET k == Min(w, have) IN
  /\ last' = k /\ nb' = have - k
  /\ paused' = (wasPaused /\ ~(have - k <= Low))

Data(n) ==
  /\ ~eof /\ ~paused /\ n >= 1 /\ total + n <= MaxData
  /\ total' = total + n
  /\ IF pend[1] = "into"
     THEN \* straight into the caller's buffer: the protocol's own buffer and the flow control are not involved
          /\ n <= pend[2] /\ nb = 0
          /\ last' = n /\ pend' = <<"none", 0>> /\ UNCHANGED <<nb, paused, eof>>
     ELSE /\ n <= Max - nb
          /\ IF pend[1] = "copy"
             THEN \* buffer_updated(): nb = n, pause check, the waiting reader is woken and takes its share
                  /\ Take(n, pend[2], n >= High) /\ pend' = <<"none", 0>> /\ UNCHANGED eof
             ELSE /\ nb' = nb + n /\ paused' = (nb + n >= High) /\ last' = None /\ UNCHANGED <<eof, pend>>
Recv(into, w) ==
  /\ pend[1] = "none" /\ w >= 1
  /\ IF nb > 0 \/ eof
     THEN Take(nb, w, paused) /\ UNCHANGED <<eof, pend, total>>
     ELSE pend' = <<IF into THEN "into" ELSE "copy", w>> /\ last' = None /\ UNCHANGED <<nb, paused, eof, total>>
Eof == /\ ~eof /\ eof' = TRUE
       /\ IF pend[1] # "none" THEN last' = 0 /\ pend' = <<"none", 0>> ELSE last' = None /\ UNCHANGED pend
       /\ UNCHANGED <<nb, paused, total>>
Next == (\E n \in 1..Max : Data(n)) \/ (\E w \in 1..Max + 2, into \in BOOLEAN : Recv(into, w)) \/ Eof
Spec == Init /\ [][Next]_vars
-----------------------------------------------------------------------------
TypeOK == nb \in 0..Max /\ last \in 0..None
\* reading is paused exactly while the backlog has not come down to Low since it reached High
PausedMeansBacklog == paused => nb > Low
HighMeansPaused == nb >= High => paused
\* a receive call never waits while something is buffered
NoWaitWithData == pend[1] # "none" => nb = 0 /\ ~eof
\* nothing is invented, nothing is lost: units handed out + units buffered = units received (checked by the harness on contents too)
=============================================================================
