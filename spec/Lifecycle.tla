----------------------------- MODULE Lifecycle -----------------------------
(* Standalone (threaded) server wrapper around the asynchronous server: locks, events, portal,
   and the asynchronous serve_forever / server_close / shutdown split at their awaits. *)
EXTENDS Naturals, Sequences, FiniteSets, TLC
CONSTANTS Servers,    \* threads calling serve_forever, e.g. {"s1","s2"}
          Closers,    \* threads calling server_close
          Stoppers,   \* threads calling shutdown
          FixF5       \* TRUE: model where server_close during the set-up guard waits instead of being swallowed

Threads == Servers \cup Closers \cup Stoppers
NONE == "none"

VARIABLES pc,            \* per thread
          closeLock, bootLock,      \* owner or NONE
          isShutdown, isClosed,     \* threading.Event
          portal,                   \* thread id of the serving thread whose portal is up, or NONE
          \* state of the asynchronous server living in the serving thread's loop
          aShut, aScope, aGuard, aListen, aFactory, aTasks,
          calls,         \* portal calls in flight: set of [from, what, st]
          res            \* per thread: outcome
vars == <<pc, closeLock, bootLock, isShutdown, isClosed, portal, aShut, aScope, aGuard, aListen, aFactory, aTasks, calls, res>>

Init == /\ pc = [t \in Threads |-> "start"]
        /\ closeLock = NONE /\ bootLock = NONE /\ isShutdown = TRUE /\ isClosed = FALSE /\ portal = NONE
        /\ aShut = TRUE /\ aScope = "none" /\ aGuard = FALSE /\ aListen = "none" /\ aFactory = TRUE /\ aTasks = "none"
        /\ calls = {} /\ res = [t \in Threads |-> "-"]

Goto(t, l) == pc' = [pc EXCEPT ![t] = l]
Done(t, r) == pc' = [pc EXCEPT ![t] = "done"] /\ res' = [res EXCEPT ![t] = r]

-----------------------------------------------------------------------------
(* serve_forever (standalone) *)
S1(t) == /\ pc[t] = "start" /\ closeLock = NONE /\ closeLock' = t /\ Goto(t, "s2")
         /\ UNCHANGED <<bootLock, isShutdown, isClosed, portal, aShut, aScope, aGuard, aListen, aFactory, aTasks, calls, res>>
S2(t) == /\ pc[t] = "s2"
         /\ IF isClosed THEN closeLock' = NONE /\ Done(t, "ServerClosedError") /\ UNCHANGED bootLock
            ELSE /\ bootLock = NONE /\ bootLock' = t /\ Goto(t, "s3") /\ UNCHANGED <<closeLock, res>>
         /\ UNCHANGED <<isShutdown, isClosed, portal, aShut, aScope, aGuard, aListen, aFactory, aTasks, calls>>
S3(t) == /\ pc[t] = "s3"
         /\ IF ~isShutdown THEN closeLock' = NONE /\ bootLock' = NONE /\ Done(t, "ServerAlreadyRunning") /\ UNCHANGED isShutdown
            ELSE isShutdown' = FALSE /\ Goto(t, "s4") /\ UNCHANGED <<closeLock, bootLock, res>>
         /\ UNCHANGED <<isClosed, portal, aShut, aScope, aGuard, aListen, aFactory, aTasks, calls>>
\* bootstrap: fresh async server (__aenter__ = server_activate), portal up, locks released
S4(t) == /\ pc[t] = "s4"
         /\ aShut' = FALSE /\ aScope' = "active" /\ aGuard' = FALSE /\ aListen' = "open" /\ aFactory' = TRUE /\ aTasks' = "none"
         /\ portal' = t /\ closeLock' = NONE /\ bootLock' = NONE /\ Goto(t, "m1")   \* no await between releasing the locks and entering the run scope
         /\ UNCHANGED <<isShutdown, isClosed, calls, res>>
\* async serve_forever
M0(t) == /\ pc[t] = "m0" /\ aShut' = FALSE /\ aScope' = "active" /\ Goto(t, "m1")
         /\ UNCHANGED <<closeLock, bootLock, isShutdown, isClosed, portal, aGuard, aListen, aFactory, aTasks, calls, res>>
M1(t) == /\ pc[t] = "m1"      \* server_activate: closed meanwhile -> ServerClosedError -> teardown
         /\ IF ~aFactory \/ aScope = "cancelled" THEN Goto(t, "m5") ELSE aGuard' = TRUE /\ Goto(t, "m2")
         /\ IF ~aFactory \/ aScope = "cancelled" THEN UNCHANGED aGuard ELSE TRUE
         /\ UNCHANGED <<closeLock, bootLock, isShutdown, isClosed, portal, aShut, aScope, aListen, aFactory, aTasks, calls, res>>
M2(t) == /\ pc[t] = "m2"      \* service initialisation finished (an await: others may have run); cancelled scope -> teardown
         /\ IF aScope = "cancelled" THEN aGuard' = FALSE /\ Goto(t, "m5") /\ UNCHANGED aTasks
            ELSE aTasks' = "running" /\ aGuard' = FALSE /\ Goto(t, "m4")
         /\ UNCHANGED <<closeLock, bootLock, isShutdown, isClosed, portal, aShut, aScope, aListen, aFactory, calls, res>>
M4(t) == /\ pc[t] = "m4"      \* sleep_forever until the run scope is cancelled, or all accept tasks ended (detach -> scope.cancel)
         /\ (aScope = "cancelled" \/ aTasks = "done")
         /\ Goto(t, "m5")
         /\ UNCHANGED <<closeLock, bootLock, isShutdown, isClosed, portal, aShut, aScope, aGuard, aListen, aFactory, aTasks, calls, res>>
M5(t) == /\ pc[t] = "m5"      \* teardown of async serve_forever
         /\ aTasks' = (IF aTasks = "none" THEN "none" ELSE "done") /\ aScope' = "none" /\ aShut' = TRUE /\ Goto(t, "m6")
         /\ UNCHANGED <<closeLock, bootLock, isShutdown, isClosed, portal, aGuard, aListen, aFactory, calls, res>>
\* portal exit: refuses new calls, pending calls are drained/cancelled (only when no call is mid-flight in this abstraction)
M6(t) == /\ pc[t] = "m6" /\ \A c \in calls : c.st = "done"
         /\ portal' = NONE /\ Goto(t, "m7")
         /\ UNCHANGED <<closeLock, bootLock, isShutdown, isClosed, aShut, aScope, aGuard, aListen, aFactory, aTasks, calls, res>>
M7(t) == /\ pc[t] = "m7"      \* async server __aexit__ = server_close: listeners closed
         /\ aListen' = "closed" /\ aFactory' = FALSE /\ Goto(t, "s8")
         /\ UNCHANGED <<closeLock, bootLock, isShutdown, isClosed, portal, aShut, aScope, aGuard, aTasks, calls, res>>
S8(t) == /\ pc[t] = "s8" /\ bootLock = NONE /\ bootLock' = t /\ Goto(t, "s9")
         /\ UNCHANGED <<closeLock, isShutdown, isClosed, portal, aShut, aScope, aGuard, aListen, aFactory, aTasks, calls, res>>
S9(t) == /\ pc[t] = "s9" /\ isShutdown' = TRUE /\ bootLock' = NONE /\ Done(t, "returned")
         /\ UNCHANGED <<closeLock, isClosed, portal, aShut, aScope, aGuard, aListen, aFactory, aTasks, calls>>

-----------------------------------------------------------------------------
(* portal calls executed by the loop thread between the awaits of the main coroutine *)
RunClose(c) ==   \* async server_close
  /\ c.what = "close" /\ c.st = "queued"
  /\ IF aGuard
     THEN IF FixF5 THEN FALSE     \* repaired: the call simply waits until the guard is free
          ELSE calls' = (calls \ {c}) \cup {[c EXCEPT !.st = "done", !.r = "Busy"]} /\ UNCHANGED <<aFactory, aTasks, aListen, aScope>>
     ELSE /\ aFactory' = FALSE
          /\ aTasks' = (IF aTasks = "running" THEN "done" ELSE aTasks)
          /\ aScope' = (IF aScope = "active" /\ aTasks = "none" THEN "cancelled" ELSE aScope)   \* factory scope / not yet serving
          /\ aListen' = "closed"
          /\ calls' = (calls \ {c}) \cup {[c EXCEPT !.st = "done", !.r = "ok"]}
  /\ UNCHANGED <<pc, closeLock, bootLock, isShutdown, isClosed, portal, aShut, aGuard, res>>
RunShutdownA(c) ==   \* async shutdown, first half: cancel the run scope
  /\ c.what = "shutdown" /\ c.st = "queued"
  /\ aScope' = (IF aScope = "active" THEN "cancelled" ELSE aScope)
  /\ calls' = (calls \ {c}) \cup {[c EXCEPT !.st = "waiting"]}
  /\ UNCHANGED <<pc, closeLock, bootLock, isShutdown, isClosed, portal, aShut, aGuard, aListen, aFactory, aTasks, res>>
RunShutdownB(c) ==   \* second half: await is_shutdown.wait()
  /\ c.what = "shutdown" /\ c.st = "waiting" /\ aShut
  /\ calls' = (calls \ {c}) \cup {[c EXCEPT !.st = "done", !.r = "ok"]}
  /\ UNCHANGED <<pc, closeLock, bootLock, isShutdown, isClosed, portal, aShut, aScope, aGuard, aListen, aFactory, aTasks, res>>

-----------------------------------------------------------------------------
(* server_close (standalone) *)
C1(t) == /\ pc[t] = "start" /\ closeLock = NONE /\ closeLock' = t /\ Goto(t, "c2")
         /\ UNCHANGED <<bootLock, isShutdown, isClosed, portal, aShut, aScope, aGuard, aListen, aFactory, aTasks, calls, res>>
C2(t) == /\ pc[t] = "c2" /\ bootLock = NONE /\ bootLock' = t
         /\ IF portal # NONE THEN calls' = calls \cup {[from |-> t, what |-> "close", st |-> "queued", r |-> "-"]} /\ Goto(t, "c3")
            ELSE UNCHANGED calls /\ Goto(t, "c4")
         /\ UNCHANGED <<closeLock, isShutdown, isClosed, portal, aShut, aScope, aGuard, aListen, aFactory, aTasks, res>>
C3(t) == /\ pc[t] = "c3" /\ \E c \in calls : c.from = t /\ c.st = "done"
         /\ Goto(t, "c4")
         /\ UNCHANGED <<closeLock, bootLock, isShutdown, isClosed, portal, aShut, aScope, aGuard, aListen, aFactory, aTasks, calls, res>>
C4(t) == /\ pc[t] = "c4" /\ bootLock' = NONE /\ isClosed' = TRUE /\ closeLock' = NONE /\ Done(t, "returned")
         /\ UNCHANGED <<isShutdown, portal, aShut, aScope, aGuard, aListen, aFactory, aTasks, calls>>
(* shutdown (standalone) *)
D1(t) == /\ pc[t] = "start" /\ bootLock = NONE /\ bootLock' = t
         /\ IF portal # NONE THEN calls' = calls \cup {[from |-> t, what |-> "shutdown", st |-> "queued", r |-> "-"]} /\ Goto(t, "d2")
            ELSE UNCHANGED calls /\ Goto(t, "d3")
         /\ UNCHANGED <<closeLock, isShutdown, isClosed, portal, aShut, aScope, aGuard, aListen, aFactory, aTasks, res>>
D2(t) == /\ pc[t] = "d2" /\ \E c \in calls : c.from = t /\ c.st = "done"
         /\ Goto(t, "d3")
         /\ UNCHANGED <<closeLock, bootLock, isShutdown, isClosed, portal, aShut, aScope, aGuard, aListen, aFactory, aTasks, calls, res>>
D3(t) == /\ pc[t] = "d3" /\ bootLock' = NONE /\ Goto(t, "d4")
         /\ UNCHANGED <<closeLock, isShutdown, isClosed, portal, aShut, aScope, aGuard, aListen, aFactory, aTasks, calls, res>>
D4(t) == /\ pc[t] = "d4" /\ isShutdown /\ Done(t, "returned")
         /\ UNCHANGED <<closeLock, bootLock, isShutdown, isClosed, portal, aShut, aScope, aGuard, aListen, aFactory, aTasks, calls>>

Next == \/ \E t \in Servers : S1(t) \/ S2(t) \/ S3(t) \/ S4(t) \/ M1(t) \/ M2(t) \/ M4(t) \/ M5(t) \/ M6(t) \/ M7(t) \/ S8(t) \/ S9(t)
        \/ \E t \in Closers : C1(t) \/ C2(t) \/ C3(t) \/ C4(t)
        \/ \E t \in Stoppers : D1(t) \/ D2(t) \/ D3(t) \/ D4(t)
        \/ \E c \in calls : RunClose(c) \/ RunShutdownA(c) \/ RunShutdownB(c)
        \/ (\A t \in Threads : pc[t] = "done") /\ UNCHANGED vars
Spec == Init /\ [][Next]_vars /\ WF_vars(Next)

Serving == \E t \in Servers : pc[t] \in {"m0","m1","m2","m4"}
\* a returned server_close leaves no open listener (F5 breaks this)
InTeardown == \E s \in Servers : pc[s] \in {"m5","m6","m7"}
CloseCloses == \A t \in Closers : pc[t] = "done" => (aListen # "open" \/ InTeardown)
\* shutdown returns only when nobody is serving
ShutdownStops == [][\A t \in Stoppers : (pc[t] # "done" /\ pc'[t] = "done") => ~(\E s \in Servers : pc'[s] \in {"m0", "m1", "m2", "m4"})]_vars
AtMostOneServing == Cardinality({t \in Servers : pc[t] \in {"s4","m0","m1","m2","m4","m5","m6","m7"}}) <= 1
Termination == <>(\A t \in Threads : pc[t] = "done")
=============================================================================
