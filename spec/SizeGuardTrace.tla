--------------------------- MODULE SizeGuardTrace ---------------------------
(* Batch validation of recorded executions of the real file-based / raw-JSON incremental parsers against SizeGuard.
   trace = [par |-> [kind, limit, maxread], frames |-> <<lengths>>, events |-> << [ev, n, k, held] >>]
   ev: "feed" (n bytes given; k = outcome), "drain" (next(None) gave outcome k), "quiet" (next(None): StopIteration), "end" *)
EXTENDS SizeGuard, Json, IOUtils

Traces == JsonDeserialize(IOEnv.TRACE_FILE)
VARIABLES tid, l
tvars == <<vars, tid, l>>
T == Traces[tid]
Ev == T.events[l]

TInit == /\ tid \in 1..Len(Traces) /\ l = 1
         /\ par = Traces[tid].par /\ frames = Traces[tid].frames
         /\ fed = 0 /\ buf = 0 /\ left = 0 /\ active = FALSE /\ done = 0 /\ out = <<>> /\ maxheld = 0

IsEvent(e) == l <= Len(T.events) /\ Ev.ev = e /\ l' = l + 1 /\ UNCHANGED tid
Match == /\ IF Ev.k = "more" THEN out' = out ELSE Len(out') = Len(out) + 1 /\ out'[Len(out')].k = Ev.k
         /\ (Ev.held >= 0 => Held' = Ev.held)
AllInv == Bound /\ PktAligned /\ SafeNeverRejected /\ NeverDeliversOversized /\ SafeComplete /\ OversizedRejected

TFeed == IsEvent("feed") /\ Feed(Ev.n) /\ Match
TDrain == IsEvent("drain") /\ Drain /\ Match
TQuiet == /\ IsEvent("quiet")
          /\ \/ (~active /\ left > 0) /\ Drain /\ out' = out
             \/ ~(~active /\ left > 0) /\ UNCHANGED vars
TEnd == IsEvent("end") /\ UNCHANGED vars
TNext == /\ AllInv = TRUE
         /\ (TFeed \/ TDrain \/ TQuiet \/ TEnd)
TSpec == TInit /\ [][TNext]_tvars

ASSUME \A t \in 1..Len(Traces) : TLCSet(t, 0)
Constr == TLCSet(tid, IF TLCGet(tid) > l THEN TLCGet(tid) ELSE l)
Post == LET bad == {t \in 1..Len(Traces) : TLCGet(t) <= Len(Traces[t].events)} IN
        IF bad = {} THEN TRUE ELSE PrintT(<<"REJECTED", [t \in bad |-> TLCGet(t)]>>) /\ FALSE
=============================================================================
